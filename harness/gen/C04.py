"""C04 — no client input causes an internal error; HTTP/2 faults stay on their stream.

Layer 1 (differential): the real `H2Protocol` is driven directly with grammar-generated frame sequences and scripted
applications, with taps on `h2.connection.H2Connection` and `priority.PriorityTree`.  The tap log of every run is
turned into the operation list of the Lean model `HC.Proto.H2Recv` (library answers = oracle fields) and replayed through
`hcdriver`: per operation the model must predict the same library calls, the same dictionaries / priority tree afterwards,
an uncaught exception exactly when the real run has one, and `LibWf` must hold of every tapped library answer.

Layer 2 (monitors, both workers): the real `TCPServer` on in-memory transports under virtual time, fed with a corpus of
minimised past failures, random bytes, bit/byte/splice mutations of valid HTTP/1, HTTP/2 and WebSocket sessions and
grammar-generated legal-but-rare HTTP/2 sessions in every segmentation class.  Judged on the implementation's observations:
the handler ends without an exception (or keeps serving) and nothing reaches the loop's exception handler / the nursery;
malformed HTTP/1 gets exactly the hinted 4xx with `connection: close` and a close; an HTTP/2 protocol violation gets
GOAWAY / close; sibling streams complete and are equal to the run without the odd stream.

Both layers, deterministic and first (`REFUSED_CLOSED_FAMILY`): a request the full priority tree has no room for whose stream
or connection the client has already closed in the same read (RST_STREAM / GOAWAY behind the HEADERS frame), so that the
`reset_stream(REFUSED_STREAM)` of the refusal itself raises - next to the plain refusal, a reset in the next read and a second
refused request, among 0-2 ordinary requests that must complete."""
from __future__ import annotations

import random
from typing import Any, Dict, List, Optional, Tuple

import h11

from ..core import clients as C
from ..core import h11sessions as HS
from ..core import h1total as HT
from ..core import h2recv as H
from ..core import runner as R
from ..core.framework import Ctx, b2s, s2b

SPEC = {
    "modules": ["HC.Props.C04"],
    "extracted": ["C04Sites", "H11Tables"],
    "technique": "Lean 4 theorems over an Except-valued executable model of the receive-side glue of H2Protocol (every `try`/`except` clause extracted from the source per site, class membership from the installed libraries' MRO, libraries as oracles restricted by LibWf) and over the H11Protocol / WSStream models: totality for every library-event sequence, application behaviour and schedule; the HTTP/1 error path; non-interference of the merely unusual streams.  Tied by replaying the tap log of real H2Protocol runs through the model (calls, dictionaries, priority tree, uncaught exceptions, LibWf per answer), by replaying adversarial direct-drive sessions of the real H11Protocol (any application message to any stream object at any time, WebSocket frames of every kind, closes, shutdown, the deferred StreamClosed) through `c04.h1total` (LibWf per op, escape site <=> handler exception, never rejected, h11 states) and by robustness monitors on the real TCPServer of both workers over corpus, random, mutated and grammar-generated inputs",
    "level_text": "Proved in Lean (HC/Props/C04.lean over HC/Proto/H2Recv.lean): for EVERY sequence of h2 events, application sends (stream_send), send-task iterations, closes and shutdown, with every answer the h2 and priority libraries can give (LibWf: h2 raises only ProtocolError subclasses, priority only PriorityError subclasses, MissingStreamError iff absent, DuplicateStreamError iff present, RequestReceived has :method and has :path unless it is an ordinary CONNECT), no exception escapes the reader, stream_send or the send task (total_h2_partial / total_h2_from; invariant: every buffered stream is in the priority tree) - except RecursionError out of next(priority) on a ~1000 deep dependency chain, which is the proved negation witness total_h2_fails_as_is (finding F44); receive_data raising any ProtocolError yields exactly flush (GOAWAY) then Closed with no state touched (h2_protocol_error); leaving out the merely unusual events of a stream (DATA/END_STREAM after its response completed, CONNECT without :path, non-ASCII :method/:path) leaves the final state and every other stream's observation identical (isolation, odd_step), and those requests are answered by exactly one send_headers on their own stream (unusual_request_answered, createStream_rejected).  HTTP/1 (over the H11Protocol model of C06): a RemoteProtocolError with hint h while no completed request is being answered and h11's writer is IDLE or SEND_RESPONSE produces exactly send(Response h [content-length 0, connection close, server headers]), send(EndOfMessage), Closed, the reader leaves the loop and no application or stream is created (h1_malformed, h1_malformed_no_app); in any other writer state only Closed (h1_malformed_other_state); that path handles the error in every state (h1_protocol_error_total).  Every except tuple, the raw_path default/guard, the decode check, the order of tree entry vs stream creation, the HTTP/1 error states and error headers and the WSStream early-data state are extracted from the source on every run (h1_error_guard, ws_early_data_guard and the catches_* lemmas fail to build when they change); the exception class hierarchy is read from the installed h2 / priority / h11 / wsproto.  HTTP/1 + WebSocket whole flow (HC/Proto/H11Total|H11Inv|H11Run|H11Ev|H11Safe.lean, HC/Stream/WsTotal.lean): the two meanings of the model's `none` are separated without changing what the driver reports - `enabled` (LibWf: which next_event() / H11WSConnection / wsproto results are possible in which h11 state and mode, header names as h11 hands them over, the reassembly state of wsproto's messages; scheduling: a read starts only when the previous handle(RawData) returned, no application runs between a Request with Expect and the 100 Continue at the next loop top) and `escapeEv` (every place where an exception can leave _handle_events, including the LocalProtocolError _send_h11_event re-raises for the 100 Continue, the error response, the 101 of an h2c upgrade and a stream's own 404/400); h1_rejected_classified: every `none` is one of the two.  total_h1 / total_h1_from / total_h1_step: for EVERY op sequence satisfying LibWf - library events, sends of ANY application (valid or not) on ANY stream object (live or orphaned), handle(Closed), shutdown, the deferred StreamClosed of a self-answering stream, in every interleaving - no op lets an exception escape the connection handler and the model accepts every op (total_h1_never_rejected); invariant: every stream object is inert or it is the latest one and h11's reader side is past IDLE; an unfinished HTTP response keeps h11's writer out of IDLE/DONE/MUST_CLOSE (so recycling finds only inert objects); a WebSocket stream in HANDSHAKE has the writer in SEND_RESPONSE with the upgrade proposal registered (so the 400 for early data and every denial head are accepted); the 100-continue flag is only up between a Request and the next loop top.  total_ws / total_ws_from: WSStream.handle never raises for any sequence of wsproto events allowed by the library's reassembly state (fragments of one message have one kind), any application messages (with or without a raising protocol) and closes; total_ws_needs_libWf shows the restriction is necessary (a BytesMessage fragment inside a text message raises TypeError in WebsocketBuffer.extend).  Client bytes turned into text by the reader's own glue: every .decode / split_comma_header / int / base64 call of _handle_events, _check_protocol, _create_stream and H2CProtocolRequiredError.__init__ is extracted with its codec, its operand (request-line field, header name, value of WHICH header) and the except clauses around it (C04Sites.h11ReaderDecodes); escapeEv names a `headerDecode` escape for a request on which a non-total, uncaught site meets a header value with a byte >= 0x80, and h1_decode_sites_total (by decide over the extracted list: codec latin-1, or caught, or an ASCII-by-grammar field) is a hypothesis total_h1 discharges - so the VALUES of Connection / Upgrade / HTTP2-Settings may hold any byte 0x80-0xff (h1_no_decode_escape, h1_decode_sites_cover).",
    "level_note": "Trusted: Lean kernel; tools/extract_c04.py (per-try-site extraction); the hand-written model HC/Proto/H2Recv.lean (one _send_data iteration is atomic in it; stream objects are opaque: their handle() does not raise - for WSStream that is the content of total_ws, for HTTPStream the type of Http.handle - apart from the ASCII path they require of a Request); LibWf is an assumption about h2 4.4.1 / priority 2.0.0 that is checked on every tap log of this run (an answer outside LibWf is reported as a disagreement); h2's, h11's and wsproto's own byte-level parsers are library behaviour: 'every byte string' is a theorem over every library-event sequence plus sampled bytes -> events.  The h2c upgrade path (ProtocolWrapper / H2CProtocolRequiredError) is covered by the monitors only.",
    "rule": "distinct = distinct sequences (length <= 8 window) of (library event kind, stream-state class in {unknown, live, forgotten, conn}) that reached the glue in direct-drive runs, plus distinct (family, generator class, segmentation, worker) cells end-to-end; non-trivial = the sequence contains an event for a forgotten/unknown stream, a refused or rejected request, a PRIORITY event, a reset, or receive_data raised",
    "trusted": ["h2 4.4.1 / hpack / hyperframe / priority 2.0.0 / h11 0.16 / wsproto as libraries (LibWf sampled by taps)",
                "hyperframe + hpack as the harness's own frame writer and tolerant output parser; h11 in server role as the oracle for 'malformed HTTP/1 with hint h'"],
    "partial": ["F44 (RecursionError from next(priority) on a ~1000 deep PRIORITY dependency chain): total_h2 holds only as total_h2_partial, negation witness total_h2_fails_as_is; listed in known_findings.json",
                "the h2c upgrade path is monitored here, not modelled: F43 (an HTTP2-Settings value h2 refuses raised out of the handler after the 101) is repaired (38e2214: GOAWAY + Closed); its corpus entries stay as ordinary cases, the refusal itself is C13's theorem h2c_served_iff_settings_accepted / h2c_refused_source",
                "total_h1 / total_ws are theorems about one-op-at-a-time models: the awaits INSIDE one op (e.g. the reader handling WebSocket bytes while the application's own 500 / accept is suspended in a write) are not interleavings of the model; they are covered by the end-to-end monitors on both workers only (F40 and F45 were such windows)",
                "h11's body-framing checks (too much / too little data for a declared Content-Length) are outside the state machine H11M: they raise LocalProtocolError into the application's send only (no reader-side send declares a length it does not keep)"],
    "assumptions": ["h11 hands over request-line fields (method, target, version) and header names in ASCII only (its grammar: token, vchar+, HTTP/d.d); checked on every tapped Request event", "HTTP/1: one op of HC.Proto.H11 (the handling of one next_event() result, one app_send, handle(Closed)) is atomic; no application step between a Request carrying Expect: 100-continue and the 100 Continue sent at the top of the reader's next iteration (there is no suspension point in between; `sched`)",
                    "one `_send_data` iteration is atomic in the model (its interleaving with `_reset_abandoned_response` is C05/C08 territory)",
                    "config.h2_max_concurrent_streams stays far below the interpreter's recursion limit"],
}

OK_APP = [["recv_body"], ["send", {"type": "http.response.start", "status": 200, "headers": [(b"content-length", b"2")]}],
          ["send", {"type": "http.response.body", "body": b"ok"}]]
EARLY_APP = [["send", {"type": "http.response.start", "status": 200, "headers": [(b"content-length", b"2")]}],
             ["send", {"type": "http.response.body", "body": b"ok"}]]
WS_APP = [["recv"], ["send", {"type": "websocket.accept"}], ["recv"], ["send", {"type": "websocket.send", "text": "echo"}], ["recv_until_disconnect"]]
WS_REJECT_MORE = [["recv"], ["send", {"type": "websocket.http.response.start", "status": 403, "headers": []}],
                  ["send", {"type": "websocket.http.response.body", "body": b"no", "more_body": True}], ["sleep", 2.0],
                  ["send", {"type": "websocket.http.response.body", "body": b"", "more_body": False}]]
WS_REJECT_DONE = [["recv"], ["send", {"type": "websocket.http.response.start", "status": 403, "headers": []}],
                  ["send", {"type": "websocket.http.response.body", "body": b"no"}], ["sleep", 2.0]]
WS_CLOSE_403 = [["recv"], ["send", {"type": "websocket.close"}], ["sleep", 2.0]]
SLOW_APP = [["recv_body"], ["sleep", 3.0], ["send", {"type": "http.response.start", "status": 200, "headers": []}],
            ["send", {"type": "http.response.body", "body": b"ok"}]]
WS_RETURN_NOW = [["return"]]
WS_RAISE_NOW = [["raise"]]
WS_REJECT_NOW = [["send", {"type": "websocket.http.response.start", "status": 403, "headers": []}],
                 ["send", {"type": "websocket.http.response.body", "body": b"no"}], ["sleep", 1.0]]
WS_REJECT_MORE_NOW = [["send", {"type": "websocket.http.response.start", "status": 403, "headers": []}],
                      ["send", {"type": "websocket.http.response.body", "body": b"no", "more_body": True}], ["sleep", 0.5],
                      ["send", {"type": "websocket.http.response.body", "body": b""}], ["sleep", 1.0]]
WS_CLOSE_NOW = [["send", {"type": "websocket.close"}], ["sleep", 1.0]]
WS_ACCEPT_NOW = [["send", {"type": "websocket.accept"}], ["send", {"type": "websocket.send", "text": "x"}], ["sleep", 1.0]]
SCRIPTS = {"ws_return_now": WS_RETURN_NOW, "ws_raise_now": WS_RAISE_NOW, "ws_reject_now": WS_REJECT_NOW, "ws_reject_more_now": WS_REJECT_MORE_NOW,
           "ws_close_now": WS_CLOSE_NOW, "ws_accept_now": WS_ACCEPT_NOW, "ok": OK_APP, "early": EARLY_APP, "ws": WS_APP, "ws_reject_more": WS_REJECT_MORE, "ws_reject_done": WS_REJECT_DONE,
           "ws_close_403": WS_CLOSE_403, "slow": SLOW_APP}


# ------------------------------------------------------------------------------------------------------------
# tolerant parser of what the server wrote on an HTTP/2 connection
# ------------------------------------------------------------------------------------------------------------
def parse_h2_out(out: bytes) -> dict:
    from hpack import Decoder
    from hyperframe.frame import Frame
    dec = Decoder()
    dec.max_allowed_table_size = 1 << 16
    streams: Dict[int, dict] = {}
    goaway = None
    err = None
    pos = 0
    block: Optional[Tuple[int, bytearray, bool]] = None
    frames = 0
    while pos + 9 <= len(out):
        try:
            f, length = Frame.parse_frame_header(memoryview(out[pos:pos + 9]))
            if pos + 9 + length > len(out):
                break
            f.parse_body(memoryview(out[pos + 9:pos + 9 + length]))
        except Exception as e:  # noqa
            err = f"{type(e).__name__}: {e}"
            break
        pos += 9 + length
        frames += 1
        name = type(f).__name__
        st = streams.setdefault(f.stream_id, {"status": None, "headers": [], "data": b"", "ended": False, "reset": None, "blocks": 0}) if f.stream_id else None
        if name in ("HeadersFrame", "ContinuationFrame", "PushPromiseFrame"):
            if name != "ContinuationFrame":
                block = (f.stream_id, bytearray(f.data), "END_STREAM" in f.flags)
            elif block is not None:
                block[1].extend(f.data)
            if "END_HEADERS" in f.flags and block is not None:
                try:
                    hs = dec.decode(bytes(block[1]), raw=True)
                except Exception as e:  # noqa
                    err = f"hpack {type(e).__name__}"
                    break
                s_ = streams.setdefault(block[0], {"status": None, "headers": [], "data": b"", "ended": False, "reset": None, "blocks": 0})
                s_["blocks"] += 1
                status = next((v for n, v in hs if n == b":status"), None)
                if status is not None and not (status.startswith(b"1") and len(status) == 3 and status != b"101"):
                    s_["status"] = int(status)
                    s_["headers"] = [[b2s(n), b2s(v)] for n, v in hs if n not in (b"date",)]
                if block[2]:
                    s_["ended"] = True
                block = None
        elif name == "DataFrame" and st is not None:
            st["data"] += bytes(f.data)
            if "END_STREAM" in f.flags:
                st["ended"] = True
        elif name == "RstStreamFrame" and st is not None:
            st["reset"] = int(f.error_code)
        elif name == "GoAwayFrame":
            goaway = {"error_code": int(f.error_code), "last_stream_id": f.last_stream_id}
    return {"streams": {str(k): {**v, "data": b2s(v["data"])} for k, v in streams.items()}, "goaway": goaway, "error": err, "frames": frames,
            "trailing": len(out) - pos}


# ------------------------------------------------------------------------------------------------------------
# end-to-end sessions
# ------------------------------------------------------------------------------------------------------------
def cut(rng, data: bytes, seg: str, bounds: Optional[List[int]] = None) -> List[bytes]:
    if seg == "frames" and bounds:
        out, prev = [], 0
        for b in bounds:
            out.append(data[prev:b])
            prev = b
        out.append(data[prev:])
        return [x for x in out if x]
    if seg == "bytewise" and len(data) > 400:
        seg = "random"
    return HS.split_bytes(rng, data, seg if seg in ("one", "bytewise") else "random")


def run_e2e(case: dict, worker: str) -> dict:
    """case: {proto: "h1"|"h2", reads: [latin-1 str], cfg, scripts: [name…], eof, terminate_at, waits: {index: seconds}}"""
    reads = [s2b(x) for x in case["reads"]]
    waits = {int(k): v for k, v in (case.get("waits") or {}).items()}
    scripts = [SCRIPTS[n] for n in case.get("scripts") or ["ok"]]

    async def client(io):
        taps = H.Taps()
        taps.install()
        try:
            for i, chunk in enumerate(reads):
                if i in waits:
                    await io.sleep(waits[i])
                await io.send(chunk)
            await io.sleep(case.get("linger", 1.0))
            if case.get("eof", True):
                await io.eof()
        finally:
            taps.remove()
        # what reached the glue (kinds only) and what receive_data raised
        kinds = []
        seen_sid: Dict[int, str] = {}
        raised = []
        for e in taps.log:
            if e[0] == "evBegin":
                ev = e[1]
                sid = ev.get("sid", 0)
                kinds.append(ev["k"])
            elif e[0] == "recv" and e[1] is not None:
                raised.append(e[2])
            elif e[0] == "next" and e[1] == "raised":
                raised.append("next:" + str(e[2]))
        return {"kinds": kinds, "raised": raised, "goaway_queued": any(e[0] == "recv" and e[1] is not None and len(e) > 3 and e[3] for e in taps.log)}

    cfg = {"keep_alive_timeout": 3, **(case.get("cfg") or {})}
    res = R.RUNNERS[worker](cfg, "h2" if case["proto"] == "h2" else None, client, scripts, tail=case.get("tail", 8), terminate_at=case.get("terminate_at"))
    return res


def h1_oracle(reads: List[bytes], eof: bool) -> dict:
    """what an independent h11 server-role parser, fed the same reads in the same order, reports first: a protocol error
    (with which hint), or a request"""
    conn = h11.Connection(h11.SERVER, max_incomplete_event_size=16384)
    for chunk in [r for r in reads if r] + ([b""] if eof else []):
        try:
            conn.receive_data(chunk)
            ev = conn.next_event()
        except h11.RemoteProtocolError as e:
            return {"first": "error", "hint": e.error_status_hint}
        except Exception:  # noqa
            return {"first": "none"}
        if isinstance(ev, h11.Request):
            return {"first": "request", "method": b2s(ev.method), "target": b2s(ev.target)}
        if ev is not h11.NEED_DATA:
            return {"first": "none"}
    return {"first": "none"}


def err_sig(res: dict) -> str:
    errs = list(res["error"] or []) + [str(x) for x in res["loop_errors"]]
    names = []
    for x in errs:
        names.append(str(x).split("(")[0])
    return ",".join(sorted(set(names))) or "?"


def monitor_e2e(ctx: Ctx, case: dict, worker: str, res: dict) -> Optional[dict]:
    """the property's clauses on the implementation's observations; returns the per-stream client view for h2"""
    fam = case["family"]
    sig = {"family": fam, "proto": case["proto"]}
    rcase = {**case, "worker": worker}
    if res.get("stuck_session"):
        ctx.violation("session_stuck", rcase, "no observation within the time limit", sig)
        return None
    # M1: nothing escapes the connection handler, nothing reaches the loop's exception handler / the nursery
    if res["error"] or res["loop_errors"]:
        data = b"".join(s2b(x) for x in case["reads"])
        tapraised = (res.get("client_result") or {}).get("raised") or []
        trigger = "priority_next_recursion" if "next:RecursionError" in tapraised else H.trigger_of(case["proto"], data)
        ctx.violation("handler_exception", rcase, {"error": res["error"], "loop": res["loop_errors"], "closed_at": res["closed_at"]},
                      {**sig, "error": err_sig(res), "trigger": trigger})
        ctx.count("error_kind", err_sig(res))
        return None
    # the handler terminates or keeps serving: once the client has half-closed, within bounded virtual time (the run lasts
    # well beyond keep_alive_timeout) the transport is closed and the handler has finished
    released = res["closed_at"] is not None and bool(res["handler_done"])
    if case.get("eof", True):
        ctx.count("e2e.released_after_eof", f"{fam}:{released}")
        if case.get("bounded") and not released:
            ctx.violation("connection_stuck", rcase, {"closed_at": res["closed_at"], "handler_done": res["handler_done"], "out": b2s(res["out"][:200]),
                                                       "labels": res["labels"][-8:]}, {**sig, "kind": case.get("kind") or case.get("name")})
    tapinfo = res.get("client_result") or {"kinds": [], "raised": []}
    data = b"".join(s2b(x) for x in case["reads"])
    if case["proto"] == "h1":
        o = h1_oracle([s2b(x) for x in case["reads"]], case.get("eof", True))
        ctx.count("h1.oracle", o["first"] + (":" + str(o.get("hint")) if o["first"] == "error" else ""))
        if o["first"] == "error":
            # M2: exactly the hinted response, content-length 0 + connection close, then closed; no application started
            p = C.parse_h1(res["out"], ["GET"], server_closed=res["closed_at"] is not None)
            finals = [r for r in p["responses"] if not r.get("informational")]
            ok = (len(finals) == 1 and finals[0]["status"] == o["hint"] and finals[0]["complete"] and finals[0]["body"] == ""
                  and any(n.lower() == "content-length" and v == "0" for n, v in finals[0]["headers"])
                  and any(n.lower() == "connection" and "close" in v.lower() for n, v in finals[0]["headers"]))
            if not ok:
                ctx.violation("h1_malformed_response", rcase, {"hint": o["hint"], "responses": finals, "parse_error": p["error"], "out": b2s(res["out"][:300])},
                              {**sig, "hint": o["hint"]})
            if res["closed_at"] is None:
                ctx.violation("h1_malformed_not_closed", rcase, {"hint": o["hint"]}, sig)
            if res["apps"]:
                ctx.violation("h1_malformed_app_started", rcase, {"apps": len(res["apps"])}, sig)
        return None
    # HTTP/2
    view = parse_h2_out(res["out"])
    if view["error"]:
        ctx.violation("h2_output_unparseable", rcase, view["error"], sig)
    for k in tapinfo["kinds"]:
        ctx.count("e2e.h2.event", k)
    if tapinfo["raised"]:
        for r in tapinfo["raised"]:
            ctx.count("e2e.h2.receive_data_raised", r)
        # M3: a protocol violation ends with GOAWAY / close
        ctx.count("e2e.h2.goaway_on_violation", view["goaway"] is not None)
        if res["closed_at"] is None:
            ctx.violation("h2_violation_not_closed", rcase, {"raised": tapinfo["raised"], "goaway": view["goaway"]}, sig)
        elif tapinfo.get("goaway_queued") and view["goaway"] is None:
            # h2 had queued a GOAWAY when it raised: it must have been flushed before the close
            ctx.violation("h2_violation_goaway_not_flushed", rcase, {"raised": tapinfo["raised"]}, sig)
    return view


def sibling_view(view: dict, sid: int) -> dict:
    st = view["streams"].get(str(sid)) or {}
    return {"status": st.get("status"), "headers": st.get("headers"), "data": st.get("data"), "ended": st.get("ended"), "reset": st.get("reset")}


# ------------------------------------------------------------------------------------------------------------
# generators: end-to-end
# ------------------------------------------------------------------------------------------------------------
def h2_session(rng, odd_kind: Optional[str], idx: int) -> dict:
    """a legal-but-rare HTTP/2 session around ordinary sibling requests, as a list of semantic actions (the bytes are
    produced by `build_session`, with a fresh HPACK encoder, so that the odd stream can be left out for the comparison run)"""
    acts: List[list] = [["preface", {"4": rng.choice([65535, 100, 1 << 20])} if rng.random() < 0.3 else None]]
    sid = 1
    sibs: List[list] = []          # [sid, expected body]
    scripts: List[str] = []
    odd_sid = None

    def sibling(kind: str) -> None:
        nonlocal sid
        body = kind in ("post", "te_trailers")
        tag = f"s{sid}"
        acts.append(["headers", tag, sid, kind, not body, rng.choice([0, 0, 7]), rng.choice([None, None, [0, 20, False]]), rng.choice([0, 0, 2])])
        if body:
            acts.append(["data", tag, sid, "x" * rng.choice([0, 1, 100]), False, rng.choice([0, 3])])
            if kind == "te_trailers" and rng.random() < 0.5:
                acts.append(["trailers", tag, sid])
            else:
                acts.append(["data", tag, sid, "", True, 0])
        sibs.append([sid, "" if kind == "head" else "ok"])
        scripts.append("ok")
        sid += 2

    for _ in range(rng.choice([0, 1, 2])):
        sibling(rng.choice(["get", "post", "head", "query", "te_trailers", "no_authority_host", "big_headers"]))
    if odd_kind is not None:
        odd_sid = sid
        tag = f"odd{sid}"
        if odd_kind in H.ODD_KINDS:
            end = rng.random() < 0.5
            acts.append(["headers", tag, sid, odd_kind, end, 0, None, rng.choice([0, 2])])
            if not end:
                acts.append(["data", tag, sid, "tail", rng.random() < 0.5, 0])
            if rng.random() < 0.3:
                acts.append(["rst", tag, sid])
        elif odd_kind == "late_data":
            # the application answers without reading; the rest of the request body arrives after the response completed
            acts.append(["headers", f"s{sid}", sid, "post", False, 0, None, 0])
            acts.append(["wait", "wait"])
            acts.append(["data", tag, sid, "late body", False, rng.choice([0, 5])])
            acts.append(["data", tag, sid, "", rng.random() < 0.7, 0])
            scripts.append("early")
            sibs.append([sid, "ok"])   # its response is compared too (it is the *late data* that is odd, not the request)
        sid += 2
    for _ in range(rng.choice([1, 2])):
        sibling(rng.choice(["get", "post", "head"]))
    return {"acts": acts, "sibs": sibs, "scripts": scripts, "odd_sid": odd_sid, "odd_kind": odd_kind}


def build_session(s: dict, drop_odd: bool) -> List[Tuple[str, bytes]]:
    F = H.Frames()
    odd_tag = f"odd{s['odd_sid']}"
    out: List[Tuple[str, bytes]] = []
    for a in s["acts"]:
        k = a[0]
        if k == "preface":
            out.append(("conn", F.preface({int(x): v for x, v in a[1].items()} if a[1] else None)))
            continue
        tag = a[1]
        if drop_odd and tag == odd_tag:
            continue
        if k == "wait":
            out.append(("wait", b""))
        elif k == "headers":
            _, _, sid, kind, end, pad, prio, cont = a
            out.append((tag, F.headers(sid, H.req_headers(kind), end_stream=end, pad=pad, prio=tuple(prio) if prio else None, cont=cont)))
        elif k == "data":
            _, _, sid, payload, end, pad = a
            out.append((tag, F.data(sid, payload.encode(), end_stream=end, pad=pad)))
        elif k == "trailers":
            out.append((tag, F.headers(a[2], [("x-trailer", "1")], end_stream=True)))
        elif k == "rst":
            out.append((tag, F.rst(a[2])))
    return out


RARE = ["priority_before_headers", "priority_flood", "priority_chain", "priority_reprioritize_deep", "rst_idle", "rst_closed", "window_closed",
        "window_idle", "settings_churn", "continuation", "zero_data", "ping", "goaway_then_more", "headers_on_closed", "trailers_no_end",
        "data_on_idle", "unknown_frame", "ws_over_h2", "ws_bad_handshake", "connect_lower", "push_promise", "window_overflow", "self_dependency",
        "max_streams"]


def h2_rare(rng, kind: str) -> dict:
    F = H.Frames()
    fr: List[bytes] = [F.preface()]
    scripts = ["ok"]
    legal = True        # does the sequence stay within the protocol (the final probe request must then be answered)
    if kind == "priority_before_headers":
        fr += [F.priority(1, 0, 200), F.priority(3, 1, 10, True), F.headers(1, H.req_headers("get")), F.headers(3, H.req_headers("get"))]
    elif kind == "priority_flood":
        n = rng.choice([50, 300, 1001, 1200])
        fr += [b"".join(F.priority(2 * i + 1001, rng.choice([0, 0, 2 * i + 999]), rng.randrange(256)) for i in range(n))]
    elif kind == "priority_chain":
        n = rng.choice([20, 99, 101, 150, 400])
        fr += [b"".join(F.priority(2 * i + 1001, 2 * i + 999 if i else 0) for i in range(n))]
    elif kind == "priority_reprioritize_deep":
        n = rng.choice([101, 150])
        fr += [b"".join(F.priority(2 * i + 1001, 2 * i + 999 if i else 0) for i in range(n)), F.priority(5001, 0), F.priority(5001, 2 * n + 999),
               F.priority(1001, 2 * n + 999)]
    elif kind == "rst_idle":
        fr += [F.rst(9)]
        legal = False
    elif kind == "rst_closed":
        fr += [F.headers(1, H.req_headers("get")), b"WAIT", F.rst(1), F.rst(1)]
    elif kind == "window_closed":
        fr += [F.headers(1, H.req_headers("get")), b"WAIT", F.window_update(1, 100), F.window_update(0, 100)]
    elif kind == "window_idle":
        fr += [F.window_update(11, 5)]
        legal = False
    elif kind == "settings_churn":
        fr += [F.settings({4: v}) for v in (0, 1, 65535, 0, 1 << 20)] + [F.settings({3: 1}), F.settings(ack=True), F.headers(1, H.req_headers("get"))]
    elif kind == "continuation":
        fr += [F.headers(1, H.req_headers("big_headers"), cont=5)]
    elif kind == "zero_data":
        fr += [F.headers(1, H.req_headers("post"), end_stream=False), F.data(1, b""), F.data(1, b"", pad=10), F.data(1, b"", end_stream=True)]
    elif kind == "ping":
        fr += [F.ping(), F.ping(ack=True)]
    elif kind == "goaway_then_more":
        fr += [F.headers(1, H.req_headers("get")), F.goaway(1), F.headers(3, H.req_headers("get"))]
        legal = False
    elif kind == "headers_on_closed":
        fr += [F.headers(1, H.req_headers("get")), b"WAIT", F.headers(1, H.req_headers("get"))]
        legal = False
    elif kind == "trailers_no_end":
        fr += [F.headers(1, H.req_headers("post"), end_stream=False), F.headers(1, [("x-t", "1")], end_stream=False)]
        legal = False
    elif kind == "data_on_idle":
        fr += [F.data(7, b"zz")]
        legal = False
    elif kind == "unknown_frame":
        fr += [b"\x00\x00\x03\xfa\x00\x00\x00\x00\x01abc", F.headers(1, H.req_headers("get"))]
    elif kind == "ws_over_h2":
        wc = C.WsClient(rng)
        fr += [F.headers(1, H.req_headers("connect_ws"), end_stream=False), b"WAIT", F.data(1, wc.message("text", [b"hi"])),
               F.data(1, wc.close(1000))]
        scripts = ["ws", "ok"]
    elif kind == "ws_bad_handshake":
        fr += [F.headers(1, H.req_headers("connect_ws_bad"), end_stream=False), F.data(1, b"\x81\x02hi")]
    elif kind == "connect_lower":
        fr += [F.headers(1, H.req_headers("connect_lower"), end_stream=False), F.data(1, b"xx", end_stream=True)]
    elif kind == "push_promise":
        fr += [b"\x00\x00\x05\x05\x04\x00\x00\x00\x01\x00\x00\x00\x02\x82"]
        legal = False
    elif kind == "window_overflow":
        fr += [F.window_update(0, (1 << 31) - 1)]
        legal = False
    elif kind == "self_dependency":
        fr += [F.priority(5, 5)]
        legal = False
    elif kind == "max_streams":
        fr += [b"".join(F.headers(2 * i + 1, H.req_headers("post"), end_stream=False) for i in range(101))]
        legal = False
    return {"chunks": [b2s(x) for x in fr], "scripts": scripts, "legal": legal, "rare": kind}


def mutate(rng, data: bytes, how: str, other: bytes = b"") -> bytes:
    if not data:
        return data
    b = bytearray(data)
    if how == "bit":
        for _ in range(rng.choice([1, 1, 2, 5])):
            i = rng.randrange(len(b))
            b[i] ^= 1 << rng.randrange(8)
    elif how == "byte":
        for _ in range(rng.choice([1, 2, 8])):
            b[rng.randrange(len(b))] = rng.randrange(256)
    elif how == "insert":
        i = rng.randrange(len(b) + 1)
        b[i:i] = bytes(rng.randrange(256) for _ in range(rng.choice([1, 2, 9])))
    elif how == "delete":
        i = rng.randrange(len(b))
        del b[i:i + rng.choice([1, 2, 9])]
    elif how == "truncate":
        del b[rng.randrange(len(b)):]
    elif how == "splice":
        i, j = rng.randrange(len(b) + 1), rng.randrange(len(other) + 1)
        b = bytearray(bytes(b[:i]) + other[j:])
    elif how == "dup":
        i = rng.randrange(len(b))
        j = min(len(b), i + rng.choice([4, 9, 30]))
        b[j:j] = b[i:j]
    return bytes(b)


MUTATIONS = ["bit", "byte", "insert", "delete", "truncate", "splice", "dup"]


def valid_sessions(rng) -> Dict[str, Tuple[str, bytes, List[str]]]:
    """recorded valid sessions: name → (proto, bytes, scripts)"""
    F = H.Frames()
    h2a = F.preface() + F.headers(1, H.req_headers("get")) + F.headers(3, H.req_headers("post"), end_stream=False) + F.data(3, b"hello", end_stream=True)
    F2 = H.Frames()
    wc = C.WsClient(rng)
    h2ws = (F2.preface() + F2.headers(1, H.req_headers("connect_ws"), end_stream=False) + F2.data(1, wc.message("text", [b"hi"])) +
            F2.headers(3, H.req_headers("get")) + F2.data(1, wc.close(1000)))
    F3 = H.Frames()
    h2p = (F3.preface() + F3.priority(3, 0, 5) + F3.headers(1, H.req_headers("te_trailers"), end_stream=False, prio=(3, 10, False)) +
           F3.data(1, b"abc", pad=4) + F3.headers(1, [("x-t", "v")], end_stream=True) + F3.window_update(0, 1000) + F3.ping())
    h1a = C.h1_request("GET", "/a?b=1", [(b"host", b"x")]) + C.h1_request("POST", "/p", [(b"host", b"x")], b"body") + \
        C.h1_request("POST", "/c", [(b"host", b"x")], chunks=[b"ab", b"cde"])
    h1b = C.h1_request("POST", "/e", [(b"host", b"x"), (b"expect", b"100-continue")], b"expected") + \
        C.h1_request("GET", "/z", [(b"host", b"x"), (b"connection", b"close")])
    w1 = C.WsClient(rng)
    h1ws = w1.h1_request() + w1.message("text", [b"he", b"llo"]) + w1.ping(b"p") + w1.message("binary", [b"\x00\x01"]) + w1.close(1000)
    h2c = C.h1_request("GET", "/", [(b"host", b"x"), (b"upgrade", b"h2c"), (b"connection", b"Upgrade, HTTP2-Settings"),
                                    (b"http2-settings", b"AAMAAABkAAQAAP__")]) + H.Frames().preface()
    prior = H.Frames().preface() + H.Frames().headers(1, H.req_headers("get"))
    return {"h2_plain": ("h2", h2a, ["ok"]), "h2_ws": ("h2", h2ws, ["ws", "ok"]), "h2_prio_trailers": ("h2", h2p, ["ok"]),
            "h1_pipeline": ("h1", h1a, ["ok"]), "h1_expect_close": ("h1", h1b, ["ok"]), "h1_ws": ("h1", h1ws, ["ws"]),
            "h1_h2c": ("h1", h2c, ["ok"]), "h1_prior_knowledge": ("h1", prior, ["ok"])}


H2C_KINDS = ["plain", "unknown_server_name", "invalid_ws_handshake", "invalid_ws_handshake_lower", "nonascii_path", "head", "unknown_name_ws"]


def h2c_opening(rng, kind: str, settings: str, follow: str) -> dict:
    """an HTTP/1 `Upgrade: h2c` request whose (synthetic) HTTP/2 stream 1 is answered by the stream itself — unknown
    server name (404), invalid websocket handshake (400) — or refused by h11 (non-ASCII target), optionally followed by the
    client's HTTP/2 preface and an ordinary request on stream 3"""
    method, target, host, cfg = "GET", b"/", b"x", {}
    if kind in ("unknown_server_name", "unknown_name_ws"):
        host, cfg = b"other", {"server_names": ["x"]}
    if kind in ("invalid_ws_handshake", "unknown_name_ws"):
        method = "CONNECT"
    if kind == "invalid_ws_handshake_lower":
        method = "connect"
    if kind == "nonascii_path":
        target = b"/caf\xc3\xa9"
    if kind == "head":
        method = "HEAD"
    req = (method.encode() + b" " + target + b" HTTP/1.1\r\nHost: " + host + b"\r\nUpgrade: h2c\r\nConnection: Upgrade, HTTP2-Settings\r\nHTTP2-Settings: " +
           settings.encode() + b"\r\n\r\n")
    reads = [req]
    if follow != "none":
        F = H.Frames()
        tail = F.preface() + F.headers(3, H.req_headers("get"))
        if follow == "same_read":
            reads = [req + tail]
        else:
            reads = [req, tail]
    return {"family": "h2c_opening", "proto": "h1", "kind": kind, "settings": settings, "follow": follow, "reads": [b2s(x) for x in reads],
            "cfg": cfg, "scripts": ["ok"], "eof": True, "waits": {"1": 0.3} if len(reads) > 1 else {}}


def corpus() -> List[dict]:
    """minimised past failures (each was an unhandled exception in the connection handler before its fix) and the probes of
    DESIGN.md section 5"""
    F = H.Frames
    out: List[dict] = []

    def h2case(name: str, chunks: List[bytes], scripts=("ok",), **kw) -> None:
        out.append({"family": "corpus", "name": name, "proto": "h2", "reads": [b2s(c) for c in chunks], "scripts": list(scripts), **kw})

    def h1case(name: str, chunks: List[bytes], scripts=("ok",), **kw) -> None:
        out.append({"family": "corpus", "name": name, "proto": "h1", "reads": [b2s(c) for c in chunks], "scripts": list(scripts), **kw})

    f = F()
    h2case("F02_connect_without_path", [f.preface() + f.headers(1, H.req_headers("connect_plain")), f.headers(3, H.req_headers("get"))])
    f = F()
    h2case("F03_nonascii_path", [f.preface() + f.headers(1, H.req_headers("nonascii_path")), f.headers(3, H.req_headers("get"))])
    f = F()
    h2case("F03_nonascii_path_ws", [f.preface() + f.headers(1, H.req_headers("nonascii_path_ws"), end_stream=False), f.headers(3, H.req_headers("get"))])
    f = F()
    h2case("F03_nonascii_method", [f.preface() + f.headers(1, H.req_headers("nonascii_method")), f.headers(3, H.req_headers("get"))])
    f = F()
    h2case("F04_priority_flood_1001", [f.preface() + b"".join(f.priority(2 * i + 1, 0) for i in range(1001)), f.headers(3001, H.req_headers("get"))])
    f = F()
    h2case("F04_priority_loop_deep_chain", [f.preface() + b"".join(f.priority(2 * i + 1, max(0, 2 * i - 1)) for i in range(150)) + f.priority(1001, 0) + f.priority(1001, 299),
                                            f.headers(3001, H.req_headers("get"))])
    f = F()
    h2case("F44_priority_chain_998_recursion", [f.preface() + b"".join(f.priority(2 * i + 1, max(0, 2 * i - 1)) for i in range(998)), f.headers(3001, H.req_headers("get"))])
    f = F()
    h2case("F01_data_after_response", [f.preface() + f.headers(1, H.req_headers("post"), end_stream=False), f.data(1, b"late body"), f.data(1, b"", end_stream=True),
                                       f.headers(3, H.req_headers("get"))], scripts=("early", "ok"), waits={1: 0.5})
    f = F()
    h2case("F41_authority_not_utf8_server_names", [f.preface() + f.headers(1, H.req_headers("nonascii_authority"))], cfg={"server_names": ["x"]})
    f = F()
    h2case("F42_shutdown_request_and_goaway_in_one_read", [f.preface() + f.headers(1, H.req_headers("get")), f.headers(3, H.req_headers("get")) + f.goaway(0)],
           scripts=("slow",), terminate_at=0.5, waits={1: 1.0}, cfg={"keep_alive_timeout": 30})
    ws = C.h1_request("GET", "/ws", [(b"host", b"x"), (b"upgrade", b"websocket"), (b"connection", b"Upgrade"), (b"sec-websocket-key", HS.WS_KEY),
                                     (b"sec-websocket-version", b"13")])
    for name, script in (("more", "ws_reject_more"), ("done", "ws_reject_done"), ("close403", "ws_close_403")):
        h1case(f"F40_ws_data_during_rejection_{name}", [ws, b"\x81\x02hi"], scripts=(script,), waits={1: 0.2})
    # the handshake and a frame in ONE read, the application answering (or leaving) at once: the answer is being written while the
    # reader handles the early data (F98: 500 of a finished application; F99: head of a rejection; close / accept for completeness)
    frame = b"\x81\x82\x00\x00\x00\x00hi"
    for name, script in (("F98_ws_app_exit_500_with_early_data", "ws_return_now"), ("F98_ws_app_raise_500_with_early_data", "ws_raise_now"),
                         ("F99_ws_rejection_head_with_early_data", "ws_reject_now"), ("F99_ws_rejection_more_with_early_data", "ws_reject_more_now"),
                         ("ws_close_at_once_with_early_data", "ws_close_now"), ("ws_accept_at_once_with_early_data", "ws_accept_now")):
        h1case(name, [ws + frame], scripts=(script,))
    h1case("F41_host_not_utf8_server_names", [b"GET / HTTP/1.1\r\nhost: \xff\r\n\r\n"], cfg={"server_names": ["x"]})
    h1case("F43_h2c_settings_not_utf8", [b"GET / HTTP/1.1\r\nhost: x\r\nupgrade: h2c\r\nhttp2-settings: \xff\xfe\r\n\r\n"])
    h1case("F43_h2c_settings_short", [b"GET / HTTP/1.1\r\nhost: x\r\nupgrade: h2c\r\nhttp2-settings: AAAA\r\n\r\n"])
    h1case("F43_h2c_settings_bad_padding", [b"GET / HTTP/1.1\r\nhost: x\r\nupgrade: h2c\r\nhttp2-settings: AAMAAABkAAQAAP\r\n\r\n"])
    h1case("F43_h2c_settings_value_out_of_range", [b"GET / HTTP/1.1\r\nhost: x\r\nupgrade: h2c\r\nhttp2-settings: AAUAAAAA\r\n\r\n", b"PRI * HTTP/2.0\r\n\r\nSM\r\n\r\n"])
    out.append({**h2c_opening(None, "unknown_server_name", "", "none"), "family": "corpus", "name": "F82_h2c_unknown_server_name_deadlock", "bounded": True})
    out.append({**h2c_opening(None, "invalid_ws_handshake", "", "later_read"), "family": "corpus", "name": "F82_h2c_invalid_ws_handshake_deadlock", "bounded": True})
    # a byte 0x80-0xff (h11 accepts obs-text in field values) in the VALUE of each header hypercorn interprets itself, on a plain
    # request and on a WebSocket handshake; a second request follows on the same connection
    follow = b"GET /after HTTP/1.1\r\nHost: x\r\n\r\n"
    for k, name in enumerate(HT.INTERPRETED):
        how = HT.OBS_HOWS[k % len(HT.OBS_HOWS)]
        ob = HT.OBS_BYTES[(3 * k + 6) % len(HT.OBS_BYTES)]
        h1case(f"obs_text_{name.decode().lower()}_{how}", [HT.obs_text(HT.request_bytes(None, "plain"), name, how, ob), follow], waits={1: 0.2},
               cfg={"server_names": ["x"]} if name == b"Host" else {})
        h1case(f"obs_text_ws_{name.decode().lower()}_{how}", [HT.obs_text(ws, name, how, ob)], scripts=("ws",))
    # header names in the case the client chose, handed to the streams as written (`h11_pass_raw_headers`): each handshake header alone in
    # another style than the rest, all in one style; complete handshakes (accepted) and one without key (400); a frame follows
    for pname, style in [("all_Cap", lambda n: "Cap"), ("all_UPPER", lambda n: "UPPER"), ("all_mIxEd", lambda n: "mIxEd")] + \
            [(f"only_{nm.decode()}_{st}", (lambda n, nm=nm, st=st: st if n == nm else ("Cap" if st == "lower" else "lower")))
             for nm in (b"upgrade", b"connection", b"sec-websocket-key", b"sec-websocket-version", b"host") for st in ("Cap", "lower")]:
        h1case(f"ws_header_names_raw_{pname}", [HT.recase_names(ws, style), b"\x81\x82\x00\x00\x00\x00hi"], scripts=("ws",), waits={1: 0.2},
               cfg={"h11_pass_raw_headers": True})
    h1case("ws_header_names_raw_no_key_only_upgrade_Cap", [HT.recase_names(ws.replace(b"sec-websocket-key: " + HS.WS_KEY + b"\r\n", b""),
                                                                           lambda n: "Cap" if n == b"upgrade" else "lower")],
           scripts=("ws",), cfg={"h11_pass_raw_headers": True})
    h1case("ws_header_names_normalised_only_upgrade_Cap", [HT.recase_names(ws, lambda n: "Cap" if n == b"upgrade" else "lower"), b"\x81\x82\x00\x00\x00\x00hi"],
           scripts=("ws",), waits={1: 0.2})
    h1case("obs_text_connection_keep_alive", [b"GET / HTTP/1.1\r\nHost: x\r\nConnection: k\xe9ep-alive\r\n\r\n", follow], waits={1: 0.2})
    h1case("obs_text_connection_close_token", [b"GET / HTTP/1.1\r\nHost: x\r\nConnection: close, \xff\r\n\r\n"])
    h1case("obs_text_h2c_connection", [b"GET / HTTP/1.1\r\nHost: x\r\nUpgrade: h2c\r\nConnection: Upgrade, HTTP2-Settings, \xa0\r\nHTTP2-Settings: AAMAAABkAAQAAP__\r\n\r\n"])
    h1case("h1_malformed_request_line", [b"GET\r\n\r\n"])
    h1case("h1_bad_header", [b"GET / HTTP/1.1\r\nhost x\r\n\r\n"])
    h1case("h1_oversized_head", [b"GET / HTTP/1.1\r\nhost: x\r\nx: " + b"a" * 20000 + b"\r\n\r\n"])
    h1case("h1_garbage_then_eof", [b"\x16\x03\x01\x02\x00\x01\x00"])
    h1case("h1_bad_chunk", [b"POST / HTTP/1.1\r\nhost: x\r\ntransfer-encoding: chunked\r\n\r\nzz\r\n"])
    return out


def gen_e2e(ctx: Ctx) -> List[dict]:
    rng = ctx.rng
    cases: List[dict] = []
    # grammar: odd stream among siblings (each is run with and without the odd stream's frames)
    odd_kinds = H.ODD_KINDS + ["late_data", "late_data"]
    for i in range(ctx.budget(30, 250)):
        ok = odd_kinds[i % len(odd_kinds)]
        s = h2_session(rng, ok, i)
        cases.append({"family": "h2_odd_stream", "proto": "h2", "session": s, "seg": rng.choice(["one", "frames", "frames", "random", "bytewise"]),
                      "seed": rng.randrange(1 << 30)})
    # grammar: legal-but-rare and illegal frame sequences, then a probe request
    for i in range(ctx.budget(2 * len(RARE), 400)):
        kind = RARE[i % len(RARE)]
        r = h2_rare(rng, kind)
        cases.append({"family": "h2_rare", "proto": "h2", "rare": r, "seg": rng.choice(["frames", "frames", "one", "random", "bytewise"]),
                      "seed": rng.randrange(1 << 30)})
    # mutations of recorded valid sessions
    sessions = valid_sessions(rng)
    names = sorted(sessions)
    for i in range(ctx.budget(168, 3000)):
        name = names[i % len(names)]
        proto, data, scripts = sessions[name]
        how = MUTATIONS[(i // len(names)) % len(MUTATIONS)]
        other = sessions[rng.choice(names)][1]
        # keep the connection preface / request line region intact half of the time so that mutations land deeper
        keep = rng.choice([0, 0, 24, 40]) if proto == "h2" else rng.choice([0, 0, 16])
        mutated = data[:keep] + mutate(rng, data[keep:], how, other)
        cases.append({"family": "mutation", "proto": proto, "name": name, "how": how, "reads": [b2s(x) for x in cut(rng, mutated, rng.choice(["one", "random", "random", "bytewise"]))],
                      "scripts": scripts, "eof": rng.random() < 0.7})
    # h2c openings x self-answering requests
    k = 0
    for kind in H2C_KINDS:
        for settings in ("", "AAMAAABkAAQAAP__"):
            for follow in ("none", "same_read", "later_read"):
                k += 1
                if ctx.thorough or k % 2 == ctx.seed % 2 or kind in ("unknown_server_name", "invalid_ws_handshake"):
                    c = h2c_opening(rng, kind, settings, follow)
                    if rng.random() < 0.3:
                        c["reads"] = [b2s(x) for r in c["reads"] for x in cut(rng, s2b(r), "random")]
                        c["waits"] = {}
                    c["bounded"] = True
                    cases.append(c)
    # WebSocket over HTTP/1: the handshake with frames right behind it (same read or the next one) x applications that answer the
    # handshake at once or leave - the answer is being written while the reader handles the early data (F45, F98, F99)
    wsreq = C.h1_request("GET", "/ws", [(b"host", b"x"), (b"upgrade", b"websocket"), (b"connection", b"Upgrade"), (b"sec-websocket-key", HS.WS_KEY),
                                        (b"sec-websocket-version", b"13")])
    answers = ["ws_return_now", "ws_raise_now", "ws_reject_now", "ws_reject_more_now", "ws_close_now", "ws_accept_now", "ws", "ws_reject_done", "ws_close_403"]
    for i in range(ctx.budget(2 * len(answers), 20 * len(answers))):
        frames = HT.ws_frames(rng, rng.choice([1, 1, 2, 4]))
        seg = rng.choice(["one", "one", "two", "random"])
        data = wsreq + frames
        reads = [data] if seg == "one" else ([wsreq, frames] if seg == "two" else cut(rng, data, "random"))
        cases.append({"family": "ws_answer_race", "proto": "h1", "name": answers[i % len(answers)], "seg": seg, "reads": [b2s(x) for x in reads],
                      "scripts": [answers[i % len(answers)]], "eof": rng.random() < 0.7})
    # valid HTTP/1 sessions with obs-text put into the value of a header hypercorn interprets itself
    h1names = [n for n in names if sessions[n][0] == "h1"]
    for i in range(ctx.budget(22, 400)):
        name = h1names[i % len(h1names)]
        _, data, scripts = sessions[name]
        hname = HT.INTERPRETED[i % len(HT.INTERPRETED)]
        how, ob = rng.choice(HT.OBS_HOWS), rng.choice(HT.OBS_BYTES)
        # the head to touch: the first one, or (pipelines) a later one
        heads = [j for j in range(len(data)) if data.startswith(b" HTTP/1.1\r\n", j)]
        start = 0
        if len(heads) > 1 and rng.random() < 0.5:
            j = rng.choice(heads[1:])
            start = data.rfind(b"\r\n", 0, j) + 2 if data.rfind(b"\r\n", 0, j) >= 0 else 0
            start = max(start, data.rfind(b"\r\n\r\n", 0, j) + 4 if data.rfind(b"\r\n\r\n", 0, j) >= 0 else 0)
        touched = data[:start] + HT.obs_text(data[start:], hname, how, ob)
        cases.append({"family": "h1_obs_text", "proto": "h1", "name": name, "how": f"{hname.decode().lower()}:{how}",
                      "reads": [b2s(x) for x in cut(rng, touched, rng.choice(["one", "random", "random", "bytewise"]))], "scripts": scripts,
                      "eof": rng.random() < 0.7})
    # random bytes
    for i in range(ctx.budget(24, 250)):
        n = rng.choice([1, 3, 9, 24, 60, 300, 5000, 20000])
        blob = bytes(rng.randrange(256) for _ in range(n))
        proto = rng.choice(["h1", "h2"])
        if proto == "h2" and rng.random() < 0.6:
            blob = H.PREFACE + blob
        if proto == "h1" and rng.random() < 0.3:
            blob = b"GET / HTTP/1.1\r\n" + blob
        cases.append({"family": "random", "proto": proto, "reads": [b2s(x) for x in cut(rng, blob, rng.choice(["one", "random"]))], "scripts": ["ok"],
                      "eof": rng.random() < 0.7})
    return cases


def materialise(case: dict, drop_odd: bool = False) -> dict:
    """family-specific case → the generic e2e case (reads, scripts, waits)"""
    rng = random.Random(case.get("seed", 0))
    if case["family"] == "h2_odd_stream":
        s = case["session"]
        chunks: List[bytes] = []
        waits: Dict[int, float] = {}
        frames = build_session(s, drop_odd)
        if case["seg"] == "frames":
            for t, b in frames:
                if t == "wait":
                    waits[len(chunks)] = 0.5
                elif b:
                    chunks.append(b)
        else:
            # a wait marker forces a cut at that point; the rest is cut by the segmentation class
            part = b""
            for t, b in frames:
                if t == "wait":
                    chunks += cut(rng, part, case["seg"])
                    waits[len(chunks)] = 0.5
                    part = b""
                else:
                    part += b
            chunks += cut(rng, part, case["seg"])
        return {**case, "reads": [b2s(c) for c in chunks], "scripts": s["scripts"], "waits": waits, "eof": True, "linger": 1.0}
    if case["family"] == "h2_rare":
        r = case["rare"]
        chunks = []
        waits = {}
        part = b""
        F = H.Frames()
        probe = None
        for c in [s2b(x) for x in r["chunks"]]:
            if c == b"WAIT":
                chunks += ([part] if case["seg"] == "one" else cut(rng, part, case["seg"])) if part else []
                waits[len(chunks)] = 0.5
                part = b""
            elif case["seg"] == "frames":
                if part:
                    chunks.append(part)
                part = c
            else:
                part += c
        if part:
            chunks += [part] if case["seg"] in ("one", "frames") else cut(rng, part, case["seg"])
        return {**case, "reads": [b2s(c) for c in chunks], "scripts": r["scripts"], "waits": waits, "eof": True, "linger": 1.0}
    return case


def check_e2e(ctx: Ctx, cases: List[dict]) -> None:
    for case0 in cases:
        case = materialise(case0)
        for worker in (case0.get("worker"),) if case0.get("worker") else ("asyncio", "trio"):
            res = run_e2e(case, worker)
            ctx.evaluations += 1
            ctx.count("e2e.family", case["family"])
            ctx.count("e2e.worker", worker)
            if case["family"] == "mutation":
                ctx.count("e2e.mutation", f"{case['name']}:{case['how']}")
            if case["family"] == "h2_rare":
                ctx.count("e2e.rare", case["rare"]["rare"])
            ctx.count("e2e.segments", min(len(case["reads"]), 50))
            ctx.distinct(["e2e", case["family"], case.get("name") or (case.get("rare") or {}).get("rare") or (case.get("session") or {}).get("odd_kind"),
                          case.get("how"), case.get("seg"), worker])
            ctx.sample({k: v for k, v in case0.items() if k not in ("reads", "session", "rare")} | {"worker": worker}, cap=3)
            view = monitor_e2e(ctx, {**case0, **{k: case[k] for k in ("reads", "scripts", "waits", "eof", "linger") if k in case}}, worker, res)
            if view is None:
                continue
            rcase = {**case0, "worker": worker}
            if case["family"] == "h2_odd_stream":
                s = case["session"]
                sig = {"family": case["family"], "proto": "h2", "odd": s["odd_kind"]}
                # M4a: every sibling completed normally
                for sib, want in s["sibs"]:
                    v = sibling_view(view, sib)
                    if not (v["status"] == 200 and v["ended"] and v["data"] == want and v["reset"] is None):
                        ctx.violation("sibling_incomplete", rcase, {"sid": sib, "view": v, "goaway": view["goaway"]}, {**sig, "clause2": "sibling"})
                if view["goaway"] is not None and view["goaway"]["error_code"] != 0:
                    ctx.violation("stream_fault_became_connection_fault", rcase, view["goaway"], sig)
                # the odd request itself is answered on its own stream (not ignored, not a reset of the connection)
                # (unless the client reset that stream itself: then there is nobody to answer)
                client_reset = any(a[0] == "rst" and a[2] == s["odd_sid"] for a in s["acts"])
                if s["odd_kind"] in H.ODD_KINDS and not client_reset:
                    v = sibling_view(view, s["odd_sid"])
                    ctx.count("e2e.odd_answer", f"{s['odd_kind']}:{v['status']}")
                    if v["status"] is None or not (400 <= v["status"] < 500) or not v["ended"]:
                        ctx.violation("odd_request_not_answered", rcase, v, sig)
                # M4b: equal to the run without the odd stream
                res2 = run_e2e(materialise(case0, drop_odd=True), worker)
                ctx.evaluations += 1
                if res2["error"] or res2["loop_errors"]:
                    ctx.violation("handler_exception", {**rcase, "drop_odd": True}, {"error": res2["error"], "loop": res2["loop_errors"]},
                                  {"family": case["family"], "proto": "h2", "error": err_sig(res2), "trigger": "other"})
                    continue
                view2 = parse_h2_out(res2["out"])
                for sib, _ in s["sibs"]:
                    a, b = sibling_view(view, sib), sibling_view(view2, sib)
                    if a != b:
                        ctx.violation("sibling_differs_from_run_without_odd_stream", rcase, {"sid": sib, "with": a, "without": b}, {**sig, "clause2": "noninterference"})
                ctx.traces_validated += 1
            elif case["family"] == "h2_refused":
                sig = {"family": case["family"], "proto": "h2", "name": case["name"]}
                # the fault stays on its stream: every ordinary request completed, no application ran for the refused one, it was
                # not answered as if served, and the connection was not failed (GOAWAY only as NO_ERROR / in answer to the client's)
                for sib in case["sibs"]:
                    v = sibling_view(view, sib)
                    if not (v["status"] == 200 and v["ended"] and v["data"] == "ok" and v["reset"] is None):
                        ctx.violation("sibling_incomplete", rcase, {"sid": sib, "view": v, "goaway": view["goaway"]}, {**sig, "clause2": "sibling"})
                if view["goaway"] is not None and view["goaway"]["error_code"] != 0:
                    ctx.violation("stream_fault_became_connection_fault", rcase, view["goaway"], sig)
                v = sibling_view(view, case["refused"])
                ctx.count("e2e.refused_request", f"{case['how']}:{'reset ' + str(v['reset']) if v['reset'] is not None else 'status ' + str(v['status'])}")
                if len(res["apps"]) != len(case["sibs"]) or v["status"] is not None:
                    ctx.violation("refused_request_reached_application", rcase, {"apps": [a["scope"]["path"] for a in res["apps"]], "view": v}, sig)
                if case["how"] in ("plain", "rst_next_read") and v["reset"] != 7:
                    ctx.violation("refused_request_not_refused", rcase, v, sig)
                ctx.traces_validated += 1
            elif case["family"] == "h2_rare":
                r = case["rare"]
                sig = {"family": case["family"], "proto": "h2", "rare": r["rare"]}
                tapinfo = res.get("client_result") or {"raised": []}
                if r["legal"] and tapinfo["raised"]:
                    ctx.count("e2e.rare_thought_legal_but_h2_refused", r["rare"])
                ctx.traces_validated += 1


# ------------------------------------------------------------------------------------------------------------
# layer 1: direct drive + model replay
# ------------------------------------------------------------------------------------------------------------
HTTP_MSGS = [{"type": "http.response.start", "status": 200, "headers": [(b"content-length", b"2")]}, {"type": "http.response.body", "body": b"ok"}, None]
HTTP_STREAMING = [{"type": "http.response.start", "status": 200, "headers": []}, {"type": "http.response.body", "body": b"a" * 20000, "more_body": True},
                  {"type": "http.response.body", "body": b"b" * 40000, "more_body": True}, {"type": "http.response.body", "body": b""}, None]
HTTP_ABANDON = [{"type": "http.response.start", "status": 200, "headers": []}, {"type": "http.response.body", "body": b"partial", "more_body": True}, None]
HTTP_CRASH_EARLY = [None]
WS_MSGS = [{"type": "websocket.accept"}, {"type": "websocket.send", "text": "hi"}, {"type": "websocket.close", "code": 1000}, None]
WS_DENY = [{"type": "websocket.http.response.start", "status": 403, "headers": []}, {"type": "websocket.http.response.body", "body": b"no"}, None]
APP_FAMILIES = {"ok": HTTP_MSGS, "streaming": HTTP_STREAMING, "abandon": HTTP_ABANDON, "crash_early": HTTP_CRASH_EARLY, "ws": WS_MSGS, "ws_deny": WS_DENY,
                "silent": []}


# ------------------------------------------------------------------------------------------------------------
# a request refused for want of room in the priority tree whose stream (or connection) is already closed
# ------------------------------------------------------------------------------------------------------------
# Set to False to leave the family out (direct drive and end to end).
REFUSED_CLOSED_FAMILY = True
REFUSED_HOWS = ["plain", "rst_same_read", "goaway_same_read", "rst_next_read", "two_one_reset", "rst_same_read_body"]


def refused_session(n_before: int, flood: int, how: str, chain: bool = False) -> Tuple[List[bytes], int, List[int]]:
    """reads: preface, `n_before` ordinary requests, PRIORITY frames for `flood` idle streams (the tree holds 1000), then a
    request the tree has no room for - alone (`plain`: reset with REFUSED_STREAM), with the client's own RST_STREAM or GOAWAY
    behind it in the SAME read (h2 has parsed the whole read before the first event is handled: by then the stream / the
    connection is closed and `reset_stream` raises ProtocolError), reset in the next read, or next to a second refused request
    that is not reset; then one more request.  Returns (reads, the refused stream, the ordinary streams)"""
    F = H.Frames()
    reads = [F.preface()]
    sibs = [2 * i + 1 for i in range(n_before)]
    for sid in sibs:
        reads.append(F.headers(sid, H.req_headers("get")))
    reads.append(b"".join(F.priority(3001 + 2 * i, (3001 + 2 * i - 2) if (chain and i and i < 90) else 0, (i * 7) % 256) for i in range(flood)))
    # an ordinary request that is answered meanwhile leaves the tree: a few more idle streams take its place
    reads.append(b"".join(F.priority(9001 + 2 * i, 0) for i in range(n_before + 3)))
    sid = 2 * n_before + 1
    if how == "plain":
        reads.append(F.headers(sid, H.req_headers("get")))
    elif how == "rst_same_read":
        reads.append(F.headers(sid, H.req_headers("get")) + F.rst(sid, 8))
    elif how == "rst_same_read_body":
        reads.append(F.headers(sid, H.req_headers("post"), end_stream=False) + F.data(sid, b"abc") + F.rst(sid, 8))
    elif how == "goaway_same_read":
        reads.append(F.headers(sid, H.req_headers("get")) + F.goaway(sid))
    elif how == "rst_next_read":
        reads += [F.headers(sid, H.req_headers("get")), F.rst(sid, 8)]
    elif how == "two_one_reset":
        reads.append(F.headers(sid, H.req_headers("get")) + F.headers(sid + 2, H.req_headers("get")) + F.rst(sid, 8))
    if how != "goaway_same_read":
        reads.append(F.headers(sid + 4, H.req_headers("get")))
    return reads, sid, sibs


def refused_direct_cases() -> List[dict]:
    out = []
    for n_before in (0, 1, 2):
        for k, how in enumerate(REFUSED_HOWS):
            for flood in ((1001, 1100)[(k + n_before) % 2],):
                reads, sid, sibs = refused_session(n_before, flood, how, chain=(k + n_before) % 2 == 1)
                steps: List[dict] = []
                for i, r in enumerate(reads):
                    if i == n_before + 2 and sibs:
                        # the first ordinary request is answered while the tree is full, before the last idle streams and the refused
                        # request arrive
                        steps += [{"app": [sibs[0], m]} for m in HTTP_MSGS]
                    steps.append({"read": b2s(r)})
                for s_ in sibs[1:]:
                    steps += [{"app": [s_, m]} for m in HTTP_MSGS]
                out.append({"family": "direct", "name": f"refused_{how}", "steps": steps, "cfg": {"keep_alive_max_requests": 1000}, "acts": ["refused", how, n_before, flood],
                            "expect": {"refused": sid, "raises": how in ("rst_same_read", "goaway_same_read", "two_one_reset", "rst_same_read_body"),
                                       "complete": [] if how == "goaway_same_read" else sibs, "complete_early": sibs[:1]}})
    return out


def refused_e2e_cases() -> List[dict]:
    out = []
    for n_before in (1, 2):
        for k, how in enumerate(REFUSED_HOWS):
            reads, sid, sibs = refused_session(n_before, 1001 + 99 * (k % 2), how, chain=k % 2 == 0)
            # the ordinary requests travel with the preface, their applications answer while the rest arrives
            head = b"".join(reads[:1 + n_before])
            out.append({"family": "h2_refused", "name": f"refused_{how}", "proto": "h2", "reads": [b2s(x) for x in [head] + reads[1 + n_before:]], "scripts": ["ok"],
                        "waits": {"2": 0.3, "3": 0.1}, "eof": True, "bounded": True, "refused": sid, "sibs": sibs, "how": how, "n_before": n_before})
    return out


def gen_direct(rng, idx: int) -> dict:
    """a frame-level session for the direct drive: actions on up to 5 streams, PRIORITY traffic, resets, window updates,
    settings changes, interleaved with application progress"""
    F = H.Frames()
    steps: List[dict] = [{"read": b2s(F.preface())}]
    live: List[int] = []
    opened: List[int] = []
    ended: Dict[int, bool] = {}
    apps: Dict[int, List] = {}
    sid_next = 1
    n = rng.choice([4, 8, 12, 20])
    kinds_used = []
    for _ in range(n):
        act = rng.choices(["open", "open_odd", "data", "end", "rst", "window", "priority", "priority_idle", "settings", "app", "app", "app", "late", "ping",
                           "flood", "garbage", "terminate", "closed", "goaway"],
                          weights=[8, 4, 4, 3, 2, 2, 3, 3, 1, 6, 6, 6, 2, 1, 1, 1, 1, 1, 1])[0]
        kinds_used.append(act)
        if act in ("open", "open_odd"):
            kind = rng.choice(H.PLAIN_KINDS + H.WS_KINDS) if act == "open" else rng.choice(H.ODD_KINDS)
            end = rng.random() < 0.5 and kind not in H.WS_KINDS
            sid = sid_next
            sid_next += 2
            pr = rng.choice([None, None, (rng.choice([0] + opened + [sid + 20]), rng.randrange(256), rng.random() < 0.3)])
            if pr is not None and pr[0] == sid:
                pr = None
            steps.append({"read": b2s(F.headers(sid, H.req_headers(kind), end_stream=end, prio=pr, cont=rng.choice([0, 0, 3])))})
            opened.append(sid)
            ended[sid] = end
            fam = rng.choice(["ws", "ws", "ws_deny", "silent"]) if kind in H.WS_KINDS else rng.choice(["ok", "ok", "streaming", "abandon", "crash_early", "silent"])
            apps[sid] = list(APP_FAMILIES[fam])
            live.append(sid)
        elif act == "data" and opened:
            sid = rng.choice(opened)
            if not ended.get(sid):
                steps.append({"read": b2s(F.data(sid, b"d" * rng.choice([0, 1, 50]), pad=rng.choice([0, 0, 4])))})
        elif act == "end" and opened:
            sid = rng.choice(opened)
            if not ended.get(sid):
                steps.append({"read": b2s(F.data(sid, b"", end_stream=True))})
                ended[sid] = True
        elif act == "late" and opened:
            # body bytes for a stream whatever its state on our side (the library decides whether an event comes out)
            sid = rng.choice(opened)
            steps.append({"read": b2s(F.data(sid, b"late"))})
        elif act == "rst" and opened:
            sid = rng.choice(opened)
            steps.append({"read": b2s(F.rst(sid, rng.choice([0, 8])))})
            ended[sid] = True
        elif act == "window":
            sid = rng.choice([0] + opened) if opened else 0
            steps.append({"read": b2s(F.window_update(sid, rng.choice([1, 1000])))})
        elif act == "priority" and opened:
            sid = rng.choice(opened)
            dep = rng.choice([0] + opened + [sid_next + 40])
            if dep != sid:
                steps.append({"read": b2s(F.priority(sid, dep, rng.randrange(256), rng.random() < 0.3))})
        elif act == "priority_idle":
            sid = sid_next + rng.choice([100, 102, 104])
            dep = rng.choice([0] + opened + [sid + 2])
            steps.append({"read": b2s(F.priority(sid, dep, rng.randrange(256)))})
        elif act == "flood":
            k = rng.choice([30, 120, 1100])
            base = 3001 + 4000 * (idx % 3)
            chain = rng.random() < 0.5
            steps.append({"read": b2s(b"".join(F.priority(base + 2 * i, (base + 2 * i - 2 if chain and i else 0)) for i in range(k)))})
            if chain and k >= 120:
                steps.append({"read": b2s(F.priority(base + 2 * k + 10, 0) + F.priority(base + 2 * k + 10, base + 2 * k - 2))})
        elif act == "settings":
            steps.append({"read": b2s(F.settings({4: rng.choice([0, 10, 65535, 1 << 20])}))})
        elif act == "ping":
            steps.append({"read": b2s(F.ping())})
        elif act == "garbage":
            steps.append({"read": b2s(bytes(rng.randrange(256) for _ in range(rng.choice([9, 20]))))})
        elif act == "goaway":
            steps.append({"read": b2s(F.goaway(0) + (F.headers(sid_next, H.req_headers("get")) if rng.random() < 0.5 else b""))})
        elif act == "terminate":
            steps.append({"terminate": 1})
        elif act == "closed":
            # `handle(Closed)` ends the session: TCPServer reads nothing after it
            steps.append({"closed": 1})
            break
        elif act == "app" and live:
            sid = rng.choice(live)
            if apps.get(sid):
                m = apps[sid].pop(0)
                steps.append({"app": [sid, m]})
                if m is None:
                    live.remove(sid)
    # let the applications finish
    for sid in list(live):
        for m in apps.get(sid, []):
            steps.append({"app": [sid, m]})
    return {"family": "direct", "steps": steps, "cfg": {"keep_alive_max_requests": rng.choice([1000, 1000, 2, 0])}, "acts": kinds_used}


def _steps_py(steps: List[dict]) -> List[dict]:
    out = []
    for st in steps:
        if "read" in st:
            out.append({"read": s2b(st["read"])})
        elif "app" in st:
            sid, m = st["app"]
            if m is not None:
                m = dict(m)
                for k in ("body",):
                    if isinstance(m.get(k), dict) and "$b" in m[k]:
                        m[k] = s2b(m[k]["$b"])
                if "headers" in m:
                    m["headers"] = [(s2b(a["$b"]) if isinstance(a, dict) else a, s2b(b["$b"]) if isinstance(b, dict) else b) for a, b in m["headers"]]
            out.append({"app": [sid, m]})
        else:
            out.append(st)
    return out


def check_direct(ctx: Ctx, cases: List[dict]) -> None:
    # in batches, so that tap logs of thousands of sessions are not held at once
    for k in range(0, len(cases), 500):
        _check_direct(ctx, cases[k:k + 500])


def _check_direct(ctx: Ctx, cases: List[dict]) -> None:
    runs = []
    reqs = []
    for case in cases:
        r = H.run(H.drive_h2(case["cfg"], _steps_py(case["steps"])))
        ops, seen = H.to_ops(r["log"])
        mops = [{k: v for k, v in o.items() if not k.startswith("_")} for o in ops if o["op"] not in ("stray", "unsupported")]
        reqs.append({"cmd": "c04.h2recv", "ka_max": case["cfg"].get("keep_alive_max_requests", 1000), "allow_recursion": True, "ops": mops})
        runs.append((case, r, ops, seen))
    model = ctx.model(reqs)
    for i, (case, r, ops, seen) in enumerate(runs):
        ctx.evaluations += 1
        sig = {"family": "direct"}
        # evidence: (event kind, stream-state class) sequences that reached the glue (classes from the model's dictionaries)
        seq = []
        mres_ev = (model[i].get("ok") if model is not None and "ok" in model[i] else None) or []
        live: set = set()
        ever: set = set()
        j = 0
        for o in ops:
            if o["op"] in ("stray", "unsupported"):
                continue
            mr = mres_ev[j] if j < len(mres_ev) else {}
            j += 1
            if o["op"] == "ev":
                sid = o.get("sid")
                cls = "conn" if not sid else ("live" if sid in live else ("forgotten" if sid in ever else "unknown"))
                extra = ""
                if o["k"] == "request":
                    extra = ":odd" if mr.get("odd") is not None else (":refused" if o.get("ins") == "priority.TooManyStreamsError" else "")
                seq.append(f"{o['k']}/{cls}{extra}")
                ctx.count("direct.event", seq[-1])
            elif o["op"] == "recvRaised":
                seq.append("recvRaised")
            if mr.get("ok"):
                live = set(mr["st"]["streams"])
                ever |= live
        for e in r["log"]:
            if e[0] == "recv" and e[1] is not None:
                ctx.count("direct.receive_data_raised", e[2])
            elif e[0] == "prio" and e[4] is not None:
                ctx.count("direct.priority_refusal", f"{e[1]}:{e[4]}")
            elif e[0] == "next":
                ctx.count("direct.send_task", e[1])
        for k in range(0, max(1, len(seq) - 7)):
            w = seq[k:k + 8]
            if any(("forgotten" in x or "unknown" in x or ":" in x or x.startswith("priority") or x.startswith("reset") or x == "recvRaised") for x in w):
                ctx.distinct(w)
        ctx.sample({"family": "direct", "acts": case["acts"], "events": seq[:12]}, cap=3)
        if case.get("name"):
            ctx.distinct(["direct", case["name"], case["acts"]])
        # monitor on the implementation itself: nothing escaped the reader, the applications' final send or the send task
        if r.get("stuck"):
            ctx.count("direct.reader_waits_for_send_task", 1)
        exp = case.get("expect")
        if exp is not None and not r["error"]:
            # the refused request stays on its stream: the tree refused it (`insert_stream` TooManyStreamsError), `reset_stream` was
            # tried (and raised exactly when the client had already closed the stream / the connection in the same read), no
            # application was started for it, and every ordinary request was answered to the end
            ins = [e for e in r["log"] if e[0] == "prio" and e[1] == "insert_stream" and e[2] == exp["refused"]]
            rst = [e for e in r["log"] if e[0] == "h2" and e[1] == "reset_stream" and e[2] == exp["refused"]]
            reached = bool(ins) and ins[0][4] == "priority.TooManyStreamsError" and len(rst) == 1 and (rst[0][3] is not None) == exp["raises"]
            ctx.count("direct.refused_request", f"{case['name']}:{'reset_stream raised ' + str(rst[0][3]) if rst and rst[0][3] else 'reset sent' if rst else 'no reset'}")
            ended = {e[2] for e in r["log"] if e[0] == "h2" and e[1] == "end_stream" and e[3] is None}
            if not reached:
                ctx.violation("refused_request_not_refused", case, {"insert": ins, "reset": rst}, {**sig, "name": case["name"]})
            if exp["refused"] in r["apps"]:
                ctx.violation("refused_request_reached_application", case, r["apps"][exp["refused"]]["scope"], {**sig, "name": case["name"]})
            lost = [s_ for s_ in exp["complete"] if s_ not in ended]
            if lost:
                ctx.violation("sibling_incomplete", case, {"not_ended": lost, "ended": sorted(ended)}, {**sig, "name": case["name"], "clause2": "sibling"})
        if r["error"]:
            trigger = "priority_next_recursion" if any(e[0] == "next" and e[1] == "raised" and e[2] == "RecursionError" for e in r["log"]) else "other"
            ctx.violation("handler_exception", case, {"error": r["error"], "events": seq[-6:]},
                          {**sig, "error": r["error"].split(".")[-1], "trigger": trigger})
            ctx.count("error_kind", r["error"])
        if model is None:
            continue
        m = model[i]
        ctx.disagreements_checked += 1
        if "ok" not in m:
            ctx.disagree("c04.h2recv(driver)", case, m, None)
            continue
        mres = m["ok"]
        j = 0
        model_error = None
        first_bad = None
        for o, sn in zip(ops, seen):
            if o["op"] in ("stray", "unsupported"):
                continue
            mr = mres[j]
            j += 1
            if mr.get("skipped"):
                continue
            if not mr.get("wf", True) and first_bad is None:
                first_bad = {"what": "LibWf", "op": o, "seen": sn}
            if not mr["ok"]:
                model_error = mr["error"]
                break
            if H.model_calls(mr["outs"]) != sn and first_bad is None:
                first_bad = {"what": "calls", "op": o, "model": H.model_calls(mr["outs"]), "seen": sn}
        # final dictionaries / tree
        if model_error is None and first_bad is None and mres and not r["error"]:
            last = next((x for x in reversed(mres) if x.get("ok")), None)
            fin = r["states"][-1]
            if last is not None and (sorted(last["st"]["streams"]) != fin["streams"] or sorted(last["st"]["buffers"]) != fin["buffers"]
                                     or sorted(last["st"]["prio"]) != fin["prio"] or sorted(last["st"]["active"]) != fin["active"] or last["st"]["kar"] != fin["kar"]):
                first_bad = {"what": "final state", "model": last["st"], "impl": {k: fin[k] for k in ("streams", "buffers", "prio", "active", "kar")}}
        if (model_error is None) != (r["error"] is None) or (model_error and model_error != r["error"]):
            ctx.disagree("c04.h2recv(uncaught)", case, {"model_error": model_error}, {"impl_error": r["error"]})
        elif first_bad is not None:
            ctx.disagree("c04.h2recv(" + first_bad["what"] + ")", case, first_bad, None)
        else:
            ctx.traces_validated += 1


def run(ctx: Ctx) -> None:
    # corpus first
    check_e2e(ctx, corpus())
    direct = [gen_direct(ctx.rng, i) for i in range(ctx.budget(500, 8000))]
    if REFUSED_CLOSED_FAMILY:
        direct = refused_direct_cases() + direct
        check_e2e(ctx, refused_e2e_cases())
    check_direct(ctx, direct)
    # HTTP/1 + WebSocket whole flow: LibWf / escape sites of total_h1 on adversarial direct-drive sessions of the real H11Protocol
    HT.check(ctx, HT.obs_corpus() + HT.names_corpus() + [HT.gen_case(ctx.rng, i) for i in range(ctx.budget(250, 5000))])
    check_e2e(ctx, gen_e2e(ctx))


def search(ctx: Ctx) -> None:
    """a proof obligation or the correspondence broke: corpus of unusual-but-legal sequences, then grammar fuzz again"""
    check_e2e(ctx, corpus())
    check_direct(ctx, [gen_direct(ctx.rng, i) for i in range(ctx.budget(400, 12000))])
    HT.check(ctx, HT.obs_corpus() + HT.names_corpus() + [HT.gen_case(ctx.rng, i) for i in range(ctx.budget(400, 8000))])
    check_e2e(ctx, gen_e2e(ctx))


def replay(ctx: Ctx, case: dict) -> None:
    if case.get("family") == "direct":
        check_direct(ctx, [case])
    elif case.get("family") == "h1direct":
        HT.check(ctx, [case.get("case", case)])
    else:
        check_e2e(ctx, [case])
