"""C03 — exactly-once disconnect and access record; sends after close are no-ops.

Session histories (HTTP/1 requests and pipelines, WebSocket sessions, HTTP/2 with 1-3 streams; every close source
striking at a random point; applications finishing before / after / while, or raising; small queues) are run through the
REAL `TCPServer` of both workers under virtual time with taps on the parsers and on the application queues.  The ordered
label list of each run is (a) replayed by the Lean acceptor on `HC.Conn.Server` - the model the theorems of
`HC/Props/C03.lean` are about - and the projections compared, (b) judged directly by the monitors below."""
from __future__ import annotations

import random
from typing import Any, Dict, List

from ..core import conn as K
from ..core.framework import Ctx

SPEC = {
    "modules": ["HC.Props.C03", "HC.Props.C07"],
    "extracted": ["ConnGuards", "WsSeq"],
    "technique": "Lean 4 invariants of an executable timed model of one connection (reader, applications, idle timer, closer tasks; bounded application queues with FIFO blocked putters; programs resumed after a blocked put) proved for every instruction from every invariant state, hence for all operation sequences, schedules, queue capacities and timeouts; tied by trace acceptance of the real TCPServer's label lists (both workers, virtual time, taps on h11/h2/wsproto and on the queues), by monitors on the implementation's observations, and by guards regenerated from the AST",
    "level_text": "Proved for every configuration and every operation sequence: at most one disconnect is ever handed to an application instance and nothing after it (stated on the message lists: the disconnect occurs only as the last element, what the application received is a FIFO prefix); the disconnect is handed over in the same atomic action that closes the stream, whatever the queue's fill state; when the handler finishes every instance has exactly one; protocol.handle(Closed) is, from any state and for any reporter (failed write, reader's end, idle timer), the program that tells every stream registered at that moment - also on a connection already marked closed (HTTP/2 registers streams on a closed connection), and telling an open stream hands over its disconnect; a closed WebSocket accepts every message as a no-op, a closed HTTP stream accepts every state-valid message (HTTP/1: unless h11 itself refuses - sampled); an HTTP request never has more than one access record and has exactly one once its stream is closed or its response ended, hence exactly one at handler completion; every path through WSStream.handle / app_send that closes the stream (written out step by step by the extractor) ends, with the connection lost during any one of its awaits or none, with the stream closed and exactly one disconnect handed to its application, nothing after it.  Tie: generated histories x both workers replayed by the model's acceptor (close / completion instants, per-instance received and handed-over message lists, access counts, blocked tasks compared), monitors on the implementation alone, extractor for the closed-flag guards and for the closing sequences of WSStream.",
    "level_note": "Trusted: Lean kernel; the model HC/Conn/Server.lean (payload-abstracted; tied by trace acceptance only); the atomicity assumption (a task suspends only in app_put on a full queue); h11/h2/wsproto (events are inputs); asyncio/trio scheduling; the harness's transports, taps and monitors.  Model guards that mirror code structure rather than a literal test (noted in design_notes/C03.md) are validated by the acceptance of every run.",
    "rule": "family x close source x phase at close x application behaviour x queue capacity x worker; distinct = (family, app kinds, closer, where, cap, T); non-trivial = a close raced with a live instance (a disconnect was handed over while the application had not finished)",
    "trusted": ["taps on asyncio.Queue / trio memory channels as the record of what was handed to an application"],
    "partial": ["access_once for WebSocket requests is judged by the monitor and the differential only (F41 known: no record when the client leaves during the handshake)",
                "exactly-once at completion uses 'no stream registered when the handler exits', validated on every trace rather than proved",
                "F08 (known): disconnect put blocks for ever on a full queue whose application has gone",
                "'exactly one disconnect at the end of the connection' is a monitor judgement (>= 1 s after the server read EOF / reset or closed the transport); the model proves it at handler completion and per report of Closed"],
    "assumptions": ["'sent exactly one disconnect' is judged on what is handed to the application queue; an application that stops receiving cannot observe it",
                    "a stream-valid send after closure must return normally; whether bytes still reach a half-closed client is not part of the statement"],
}


def monitor(ctx: Ctx, case: dict, sc: dict, an: dict) -> None:
    done = an["done_at"] is not None
    raced = False
    # the connection is over (the server has read the end of the client's stream / a reset, or has closed the transport) and
    # the observation went on for seconds of virtual time after it: every instance must have been sent its disconnect by now
    ends = [t for t in (an["closed_at"], an["read_gone_at"]) if t is not None]
    over = min(ends) if ends else None
    blocked = [p[1] for p in an["blocked_puts"]]
    blocked_put = "disconnect" if "disconnect" in blocked else ("data" if blocked else None)
    for x in an["instances"].values():
        sig = {"kind": x["kind"], "proto": sc["proto"]}
        types = [p[2] for p in x["puts"]]
        nd = types.count("disconnect")
        if nd > 1:
            ctx.violation("disconnect_at_most_once", case, {"inst": x["i"], "puts": types}, sig)
        if nd >= 1 and types.index("disconnect") != len(types) - 1:
            ctx.violation("nothing_after_disconnect", case, {"inst": x["i"], "puts": types}, sig)
        rt = [r[1] for r in x["recv"]]
        if rt.count("disconnect") > 1 or ("disconnect" in rt and rt.index("disconnect") != len(rt) - 1):
            ctx.violation("nothing_after_disconnect", case, {"inst": x["i"], "received": rt}, {**sig, "side": "receive"})
        if x["app"] is not None:
            if nd == 1 and x["exit"] is None or (nd == 1 and x["t_exit"] is not None and x["disc_at"] is not None and x["t_exit"] >= x["disc_at"]):
                raced = True
            if done and nd != 1:
                ctx.violation("disconnect_exactly_once", case, {"inst": x["i"], "puts": types, "done_at": an["done_at"]}, {**sig, "count": nd})
            elif not done and over is not None and nd == 0 and an["end"] - over >= 1000:
                ctx.violation("disconnect_exactly_once", case, {"inst": x["i"], "puts": types, "connection_over_at": over, "observed_until": an["end"], "done_at": None,
                                                                "received": [r[1] for r in x["recv"]], "app_exit": x["exit"]},
                              {**sig, "count": 0, "at": "connection_end", "blocked_put": blocked_put})
            # sends after the disconnect was received: state-valid by construction of the scripts
            got = next((r[0] for r in x["recv"] if r[1] == "disconnect"), None)
            if got is not None:
                for s in x["sends"]:
                    if s[0] >= got and s[2] != "ok":
                        ctx.violation("send_after_close_ok", case, {"inst": x["i"], "send": s}, {**sig, "message": s[1], "error": s[2]})
        if done and len(x["access"]) != 1:
            phase = "n/a"
            if x["kind"] == "ws":
                answered = [s for s in x["sends"] if s[1] in ("websocket.accept", "websocket.close", "websocket.http.response.body") and s[2] == "ok"
                            and (x["disc_at"] is None or s[0] < x["disc_at"])]
                phase = "answered" if answered else "handshake"
            ctx.violation("access_once", case, {"inst": x["i"], "records": x["access"]}, {**sig, "count": len(x["access"]), "phase": phase,
                                                                                          "app_exit": x["exit"] if x["kind"] == "ws" else None})
    if an["error"] or an["loop_errors"]:
        ctx.violation("handler_exception", case, {"error": an["error"], "loop": an["loop_errors"]}, {"proto": sc["proto"], "error": str(an["error"])})
    if raced:
        ctx.distinct([case.get("family"), sc["proto"], sc.get("cap"), sc["T"], case["worker"], case.get("key")])


def gen(ctx: Ctx, n: int) -> List[dict]:
    cases = []
    fault = random.Random(ctx.seed * 7919 + 3)      # a stream of its own: the histories themselves stay what they were
    for k in range(n):
        T = ctx.rng.choice([0.01, 1, 1, 5, 5, 3600])
        fam = ctx.rng.choice(["h1", "h1", "h1", "ws", "h2"])
        sc = {"h1": K.gen_h1, "ws": K.gen_ws, "h2": K.gen_h2}[fam](ctx.rng, T)
        if fam == "ws" and fault.random() < 0.35:
            # the peer resets at one of the first writes of the session: the 101 / the stream's own 4xx / 500, a frame, the close echo
            sc["fail_at_write"] = fault.choice([1, 1, 2, 2, 3])
            ctx.count("ws_fail_at_write", sc["fail_at_write"])
        sc["family"] = fam
        sc["key"] = k
        cases.append(sc)
        ctx.count("family", fam)
        ctx.sample({"family": fam, "T": T, "client": [a[0] for a in sc["client"]], "cap": sc.get("cap")}, cap=3)
    return cases


def grid() -> List[dict]:
    """close source x phase grid with one instance (exhaustive), also with a small queue"""
    out = []
    head, chunks = K.h1_req_bytes(0, "POST", 30)
    for closer in ("eof", "reset", "fail_eof", "none"):
        for where in range(0, 5):
            for kind in K.APP_KINDS:
                for cap in (10, 1):
                    client = [["send", head]] + [["send", c] for c in chunks] + [["sleep", 0.5]]
                    ins = [[closer]] if closer in ("eof", "reset") else ([["fail_writes"], ["sleep", 0.2], ["reset"]] if closer == "fail_eof" else [])
                    client[where:where] = ins
                    out.append({"family": "grid", "key": [closer, where, kind, cap], "proto": "h1", "T": 1, "cap": cap, "server_names": None, "terminate_at": None,
                                "apps": [K.app_script(kind, 0.3)], "client": client + [["sleep", 7], ["eof"]], "tail": 12})
    return out


def run(ctx: Ctx) -> None:
    g = grid()
    if not ctx.thorough:
        g = g[:: 5]
    ctx.exhaustive = ctx.thorough
    # deterministic corpus first: the connection is lost at every write of a response / while the end of an HTTP/2 body waits
    wf = K.write_fault_corpus()
    for c in wf:
        ctx.count("write_fault", c["key"][0])
    K.run_cases(ctx, wf, monitor)
    # … HTTP/2: Closed reported twice (failed write, then the reader's end) with streams opened in between
    ct = K.closed_twice_corpus()
    for c in ct:
        ctx.count("closed_twice", c["key"][-1] if c["key"][-1] in ("alpn", "prior") else "alpn")
    K.run_cases(ctx, ct, monitor)
    # … WebSocket: the connection is lost at every write of the sequences in which the stream answers and closes on its own
    wsq = K.ws_sequence_fault_corpus()
    for c in wsq:
        ctx.count("ws_sequence_fault", c["key"][1])
    K.run_cases(ctx, wsq, monitor)
    K.run_cases(ctx, g, monitor)
    K.run_cases(ctx, gen(ctx, ctx.budget(300, 9000)), monitor)


def replay(ctx: Ctx, case: dict) -> None:
    w = case.get("worker")
    K.run_cases(ctx, [{k: v for k, v in case.items() if k != "worker"}], monitor, workers=(w,) if w else ("asyncio", "trio"))
