"""C14 — lifespan ordering, failure handling, state isolation.  Whole-worker runner (harness/core/worker.py): the real
`worker_serve` of both worker classes on a loopback socket, a scripted lifespan application, threaded clients."""
from __future__ import annotations

import json
from typing import Any, Callable, Dict, List, Optional, Tuple

from ..core import worker as wk
from ..core.framework import Ctx

SPEC = {
    "modules": ["HC.Props.C14"],
    "extracted": ["Guards", "LifespanSend", "LifespanSites"],
    "technique": "Lean 4: executable model of both Lifespan classes and of worker_serve (one timed state machine; every worker / "
                 "CPython / code-path difference a Runtime field, re-measured on the code under test on every run); invariants proved "
                 "preserved by every operation and lifted to every operation list (HC.inv_runOps); `decide` examples and history "
                 "witnesses — tied to the code by running the real worker_serve of both worker classes on loopback sockets with "
                 "scripted lifespan applications and comparing with the model's prediction",
    "level_text": "Proved in Lean for every schedule (operation list), every lifespan script, every time-out and queue bound, for both "
                  "worker classes as the code is now (Current) and in general over the runtime flags (_of_flags): serving (listening, "
                  "any connection, any scope) implies the application is unsupported (raised) or lifespan.startup was put and the "
                  "application completed start-up or left the lifespan scope (startup_before_serving); lifespan.startup is the first "
                  "message received and is put at most once; startup.failed before startup.complete: no accept, no scope, never a "
                  "normal return, only the matching error, also when the application awaits while it unwinds "
                  "(failed_or_timeout_aborts); a start-up time-out is punctual and precedes any listening "
                  "(startup_deadline_not_overrun, startup_timeout_fires, timeout_aborts); an application that raises is unsupported: "
                  "serving starts and no lifespan.shutdown is ever put afterwards (raised_is_unsupported, unsupported_serving_starts, "
                  "unsupported_continues); lifespan.shutdown is put at most once, with no handler alive, not before the trigger, and "
                  "not before trigger+graceful_timeout if a handler had to be cancelled (shutdown_once_after_drain); these handlers are all the "
                  "connections there are: once terminated is set the listeners are closed, no connect is enabled and none has happened since "
                  "(listeners_closed_before_drain), and the order of the exit path - terminated.set(), listeners closed, THEN the bounded wait "
                  "for the handlers (a snapshot of the connection tasks), wait_for_shutdown(), lifespan task cancelled - is read off asyncio "
                  "worker_serve on every run and proved to be the model's (exit_path_order_is_source; trio: the listeners run in the nursery "
                  "that is joined before terminated is set); every abnormal "
                  "end of worker_serve is attributable (serve_error_justified), an application that left the lifespan scope without "
                  "a failure never makes worker_serve fail (serve_returns_normally: every WSGI application on both workers) and "
                  "worker_serve never ends with CancelledError (no_cancelled_error); a write through one connection's scope state "
                  "changes neither the lifespan state nor another connection's, new connections start from a copy (state_isolated, "
                  "lifespan_write_isolated, state_copied_at_connect).  History witnesses about Runtime.asyncioBeforeFixes / "
                  "trioBeforeFixes (F16, F17, F29, all fixed): f16_run_before_fix, startup_before_serving_failed_before_fix, "
                  "f17_run_before_fix, f17_run_wsgi_before_fix, serve_returns_normally_failed_before_fix, "
                  "noreturn_after_shutdown_cancelled_before_fix.  Tie: 18 lifespan scripts x both worker classes x clients "
                  "connecting before/during/after start-up and holding a request across the trigger, real worker_serve on loopback; "
                  "model outcome compared and property monitors evaluated on every run; the failure messages are sent with and without their "
                  "optional `message` key, and the if/elif chain of asgi_send of both workers is regenerated from the source and proved to be the "
                  "model's send alphabet (asgi_send_dispatch).  What escapes the application is a TREE of exceptions (HC/Worker/Escape.lean: leaves = "
                  "exceptions, inner nodes = exception groups, one per task group / nursery the application runs its lifespan in): the except "
                  "chain of handle_lifespan of both workers is regenerated from the source (HC/Extracted/LifespanSites.lean: classes of the two "
                  "clauses, how a group is searched) and proved to re-raise every tree that contains a LifespanFailureError leaf at any depth, next "
                  "to anything (failure_leaf_aborts), to file a tree of other exceptions only under 'unsupported' (other_only_unsupported), to "
                  "re-raise a cancellation inside groups (cancelled_leaf_reraised), and a script run inside any nest of groups is, for the server, "
                  "the script itself (wrapped_script_is_script: every theorem about scripts is a theorem about wrapped scripts); a scan of the "
                  "direct members only would miss depth 2 (direct_scan_misses_nested).  Tie: scripts whose failure / exception leaves through "
                  "synthetic groups of depth 1..3, mixed with sibling exceptions, and through REAL nested asyncio.TaskGroups / trio nurseries, in the "
                  "whole-worker grid; and handle_lifespan of both workers called directly on generated exception trees (deterministic corpus + "
                  "random) against the model's verdict.  The per-connection state: `ConnectionState(self.state.copy())` in TCPServer.run of both "
                  "workers is read off the source as an unconditional copy (conn_state_unconditional_copy); isolation scenarios run with a lifespan "
                  "state that is EMPTY when connections are accepted as well as with a seeded one, with sequential and overlapping connections.",
    "level_note": "Trusted: Lean kernel; the hand-written worker model HC/Worker/{Lifespan,Run}.lean (tied by differential runs only); "
                  "the Runtime flags are measured by probes on the code and interpreter under test and must equal the Lean constants "
                  "Runtime.asyncio / Runtime.trio (a mismatch is reported as a disagreement); the trio lifespan task's two aclose() "
                  "checkpoints are modelled as a window in which worker_serve runs but no client event or timer fits (two scheduler "
                  "rounds); real-clock runs assert order exactly and instants with slack; the kernel accept queue (trio listens before "
                  "serving) is not 'accepting': the observation point is the first scope / response; the state copy is shallow "
                  "(top-level keys); report rule of the real-clock scenarios (worker.judge_with_reruns): a scenario about which a monitor or the "
                  "model comparison says something is run again alone before anything is reported and only what it says again is reported - "
                  "what does not come back is counted (not_reproduced_on_rerun) and sampled in the evidence.",
    "rule": "scenario = lifespan script (bare, or leaving through exception groups) x worker x client set (connect before / during / after "
            "start-up with a state probe each, one request held across the trigger; drain scenarios: a client connecting after the trigger while the held request is still in progress, with a request that outlives it; isolation scenarios: two more connections after start-up, "
            "one of which writes while the other's request is in progress, with an empty and with a seeded lifespan state; thorough: each "
            "client phase alone, two await durations, beyond-grace holder); unit: exception tree x worker; "
            "distinct = (script, worker, client phase); non-trivial = the script leaves the happy path or a client is refused / queued / "
            "held across the trigger",
    "trusted": ["asyncio / trio scheduling, socket and timer behaviour (measured, real clock)",
                "the harness's threaded blocking-socket clients and its scripted ASGI application"],
    "partial": ["the _of_flags theorems carry hypotheses on runtime flags; they are discharged for the current runtimes (Current); the flag "
                "values are measured, not extracted",
                "how worker_serve ends after lifespan.shutdown.failed is not judged (the property is silent); recorded in the distribution"],
    "assumptions": ["max_app_queue_size >= 2 (default 10): the two lifespan puts never block",
                    "exit window of the trio lifespan task treated as atomic w.r.t. clients and timers (see level_note)"],
}

T_START, T_SHUT, T_GRACE = 0.4, 0.4, 0.4
DRAIN_CONNECT = 0.05        # a client of phase `drain` connects this long after the trigger (the held request ends 0.2 s after it)
# scripts of the `drain` scenarios in every tier (thorough: every script after which the worker listens)
DRAIN_SCRIPTS = ("complete", "complete_late_state", "return_after_complete", "raise_before_complete", "shutdown_hang", "complete_taskgroups2")
AWAIT = 0.15
SLACK = 1.0

# name -> (harness script, facts about it used by the monitors)
SCRIPTS: Dict[str, List[str]] = {
    "complete": ["recv", "await", "startup_complete", "recv", "shutdown_complete", "return"],
    "complete_late_state": ["recv", "await", "startup_complete", "await", "set_late", "recv", "shutdown_complete", "return"],
    "failed": ["recv", "await", "startup_failed"],
    "failed_await_in_cleanup": ["recv", "await", "startup_failed", "await"],
    "raise_immediately": ["raise"],
    "raise_before_complete": ["recv", "await", "raise"],
    "unknown_message": ["recv", "await", "unknown"],
    "hang_in_startup": ["recv", "hang"],
    "return_immediately": ["return"],
    "return_before_complete": ["recv", "await", "return"],
    "return_after_complete": ["recv", "await", "startup_complete", "return"],
    "shutdown_failed": ["recv", "await", "startup_complete", "recv", "shutdown_failed"],
    "shutdown_failed_await_in_cleanup": ["recv", "await", "startup_complete", "recv", "shutdown_failed", "await"],
    "shutdown_hang": ["recv", "await", "startup_complete", "recv", "hang"],
    "shutdown_raise": ["recv", "await", "startup_complete", "recv", "raise"],
    "shutdown_unknown": ["recv", "await", "startup_complete", "recv", "unknown"],
    "complete_then_hang": ["recv", "await", "startup_complete", "recv", "shutdown_complete", "hang"],
    "hang_after_startup": ["recv", "await", "startup_complete", "hang"],
    # the failure messages without the `message` key (optional in the ASGI specification): the same clauses apply
    "failed_nomsg": ["recv", "await", "startup_failed_nomsg"],
    "failed_nomsg_await_in_cleanup": ["recv", "await", "startup_failed_nomsg", "await"],
    "shutdown_failed_nomsg": ["recv", "await", "startup_complete", "recv", "shutdown_failed_nomsg"],
    # the application runs its lifespan inside task groups / nurseries (anyio, Starlette): what it raises leaves it wrapped in
    # exception groups, one per level, possibly next to other exceptions (ESCAPES: how).  The same clauses apply.
    "failed_group1": ["recv", "await", "startup_failed"],
    "failed_group2": ["recv", "await", "startup_failed"],
    "failed_group3": ["recv", "await", "startup_failed"],
    "failed_group2_mixed": ["recv", "await", "startup_failed"],
    "failed_group3_mixed_await_in_cleanup": ["recv", "await", "startup_failed", "await"],
    "failed_nomsg_group2": ["recv", "await", "startup_failed_nomsg"],
    "failed_taskgroups2": ["recv", "await", "startup_failed"],
    "failed_taskgroups3_await_in_cleanup": ["recv", "await", "startup_failed", "await"],
    "raise_group2": ["recv", "await", "raise"],
    "raise_group3_mixed": ["recv", "await", "raise"],
    "raise_taskgroups2": ["recv", "await", "raise"],
    "unknown_group2": ["recv", "await", "unknown"],
    "shutdown_failed_group2": ["recv", "await", "startup_complete", "recv", "shutdown_failed"],
    "shutdown_failed_taskgroups2": ["recv", "await", "startup_complete", "recv", "shutdown_failed"],
    "shutdown_raise_group2": ["recv", "await", "startup_complete", "recv", "raise"],
    "complete_taskgroups2": ["recv", "await", "startup_complete", "recv", "shutdown_complete", "return"],
    "complete_then_hang_taskgroups2": ["recv", "await", "startup_complete", "recv", "shutdown_complete", "hang"],
}

# how the exception of a script leaves the application (worker.make_app `escape`): a template of nested exception groups built by
# the harness ("own" = the script's exception, "sibling" = another exception next to it, a list = one group), or the script run
# inside that many real nested asyncio.TaskGroups / trio nurseries
ESCAPES: Dict[str, Any] = {
    "failed_group1": ["own"],
    "failed_group2": [["own"]],
    "failed_group3": [[["own"]]],
    "failed_group2_mixed": ["sibling", ["sibling", "own"]],
    "failed_group3_mixed_await_in_cleanup": [["sibling"], [["own", "sibling"], "sibling"]],
    "failed_nomsg_group2": [["own"]],
    "failed_taskgroups2": {"taskgroups": 2},
    "failed_taskgroups3_await_in_cleanup": {"taskgroups": 3},
    "raise_group2": [["own"]],
    "raise_group3_mixed": ["sibling", [["own"], "sibling"]],
    "raise_taskgroups2": {"taskgroups": 2},
    "unknown_group2": [["own"]],
    "shutdown_failed_group2": [["own"]],
    "shutdown_failed_taskgroups2": {"taskgroups": 2},
    "shutdown_raise_group2": [["own"]],
    "complete_taskgroups2": {"taskgroups": 2},
    "complete_then_hang_taskgroups2": {"taskgroups": 2},
}

# scripts after which requests are served, used for the state-isolation scenarios (two more connections after start-up, one
# writing while the other's request is in progress) - with a lifespan state that is EMPTY when connections are accepted (the
# application stores nothing, or does not support lifespan) and with a seeded one
ISOLATION: List[Tuple[str, bool]] = [("complete", False), ("complete", True), ("complete_late_state", False), ("raise_immediately", False),
                                    ("return_immediately", False), ("raise_before_complete", False)]


def script_facts(script: List[str]) -> dict:
    """Static facts of a script (a sequential program): what it sends before it completes start-up, how it leaves."""
    f = {"complete": False, "failed_before_complete": False, "raise_before_complete": False, "return_before_complete": False,
         "hang_before_complete": False, "sends_failed": False, "shutdown_complete": False, "hang_in_shutdown": False,
         "runs_after_shutdown_complete": False, "failed_then_await": False, "leaves": None}
    recvs = 0
    pending = False
    script = [wk.base_act(a) for a in script]       # a failure message is one with or without its optional `message` key
    for i, a in enumerate(script):
        if pending:
            if a == "await":
                continue
            break
        if a == "recv":
            recvs += 1
        elif a == "startup_complete":
            f["complete"] = True
        elif a == "shutdown_complete":
            f["shutdown_complete"] = True
        elif a in ("startup_failed", "shutdown_failed"):
            f["sends_failed"] = True
            if a == "startup_failed" and not f["complete"]:
                f["failed_before_complete"] = True
                if i + 1 < len(script) and script[i + 1] == "await":
                    f["failed_then_await"] = True
            pending, f["leaves"] = True, "failure"
        elif a in ("raise", "unknown"):
            if not f["complete"]:
                f["raise_before_complete"] = True
            pending, f["leaves"] = True, "raise"
        elif a == "return":
            if not f["complete"]:
                f["return_before_complete"] = True
            f["leaves"] = "return"
            break
        elif a == "hang":
            if not f["complete"]:
                f["hang_before_complete"] = True
            elif recvs >= 2 and not f["shutdown_complete"]:
                f["hang_in_shutdown"] = True
            elif f["shutdown_complete"]:
                f["runs_after_shutdown_complete"] = True
            else:
                f["hang_in_shutdown"] = True      # never receives lifespan.shutdown: the shutdown wait times out
            f["leaves"] = "hang"
            break
    else:
        if f["leaves"] is None:
            f["leaves"] = "return"
    return f


def scenario(name: str, worker: str, phases: List[str], await_s: float = AWAIT, hold: str = "short", ls_writes: bool = True) -> dict:
    """Timing discipline (as C15): the scenario clock is anchored to the lifespan application's own first recorded event
    (`ls_start` = script time 0, `clock_anchor`), not to the wall clock of the process: what a client is meant to meet - the
    application still inside its start-up `await`, the listener, a request in progress - is then a matter of the script's and
    the worker's own events.  `before`: not gated at all (its connect precedes or coincides with the start of `worker_serve`);
    `during`: a fraction of the application's start-up await after `ls_start`; `after` / `hold`: at their instant, but - when
    the script is one after which a correct worker listens - not before the worker said it is listening; the trigger: at its
    instant, but not before the requests that are to be in progress / done by then have reached the application.  These waits
    never concern what is judged: when the worker does not do what the script lets expect, they run out (2 s), the run is
    marked `harness_late`, repeated, and the last observation is judged as it is."""
    clients = []
    facts = script_facts(SCRIPTS[name])
    listens = not (facts["failed_before_complete"] or facts["hang_before_complete"])    # what a correct worker does with this script
    t_of = {"before": 0.0, "during": await_s * 0.45, "after": 2 * await_s + 0.1}
    immediate = SCRIPTS[name][:2] != ["recv", "await"]      # serving starts at once: "before" would race with the server's start
    expected: Dict[str, int] = {}                           # requests that have reached the application before the trigger
    for cid, ph in enumerate(["before", "during", "after"]):
        if ph in phases and not (immediate and ph == "before"):
            # (a script that leaves the lifespan scope at once: serving starts at once, `during` is after that too)
            serving_by_then = listens and (ph == "after" or (ph == "during" and immediate))
            when = ["at_counts", t_of[ph], {"listening": 1}] if serving_by_then else ["at", t_of[ph]]
            c = {"id": cid, "kind": "h1", "phase": ph,
                 "steps": [when, ["connect"], ["get", f"/state/{cid}"], ["read", 1.5], ["wait_close", 3.0]]}
            if ph == "before":
                c["ungated"] = True
            clients.append(c)
            # asyncio refuses what comes before it listens; trio's listening socket queues it for the time serving starts
            if serving_by_then or (listens and worker == "trio"):
                expected[f"scope:/state/{cid}"] = 1
    if "iso" in phases and listens:
        # state isolation between connections that are both served: 4 writes, keeps its request open for 100 ms and reads its
        # state again; 5 connects and writes in between
        for cid, (dt, path) in ((4, (0.03, "/state/4/100")), (5, (0.06, "/state/5"))):
            clients.append({"id": cid, "kind": "h1", "phase": "iso",
                            "steps": [["at_counts", t_of["after"] + dt, {"listening": 1}], ["connect"], ["get", path], ["read", 1.5], ["wait_close", 3.0]]})
            expected[f"scope:{path}"] = 1
    trigger = 2 * await_s + 0.35
    if "hold" in phases:
        path = "/d/300/3" if hold == "short" else "/hang/3"
        when = ["at_counts", trigger - 0.1, {"listening": 1}] if listens else ["at", trigger - 0.1]
        clients.append({"id": 3, "kind": "h1", "phase": "hold",
                        "steps": [when, ["connect"], ["get", path], ["read", 2.0], ["wait_close", 2.0]]})
        if listens:
            expected[f"scope:{path}"] = 1
    if "drain" in phases and "hold" in phases and listens:
        # somebody connects DURING the drain: after the trigger, while the held request is still in progress, with a request that
        # outlives it (but not the grace period).  Once shutdown has begun nothing is accepted any more; were it accepted, its
        # handler would be one more connection `lifespan.shutdown` has to wait for.
        clients.append({"id": 6, "kind": "h1", "phase": "drain",
                        "steps": [["after_trigger", DRAIN_CONNECT], ["connect"], ["get", "/d/300/6"], ["read", 1.0], ["wait_close", 2.0]]})
    sc = {"property": "C14", "name": name, "worker": worker, "lifespan": SCRIPTS[name], "await_s": await_s,
          "config": {"startup_timeout": T_START, "shutdown_timeout": T_SHUT, "graceful_timeout": T_GRACE},
          "clients": clients, "phases": phases, "hold": hold, "trigger_at": trigger,
          "clock_anchor": "ls_start", "late_tolerance": round(min(0.05, 0.4 * await_s), 3),
          "observe_until": trigger + T_GRACE + T_SHUT + SLACK + 0.3, "client_grace": 0.3}
    if expected:
        sc["trigger_after"] = expected
    if name in ESCAPES:
        sc["escape"] = ESCAPES[name]
    if not ls_writes:
        sc["ls_writes"] = False
    if name == "complete_late_state":
        sc["set_late_at"] = 2 * await_s
    return sc


def gen(ctx: Ctx) -> List[dict]:
    out = []
    for worker in ("asyncio", "trio"):
        for name in SCRIPTS:
            out.append(scenario(name, worker, ["before", "during", "after", "hold"]))
        for name, writes in ISOLATION:
            out.append(scenario(name, worker, ["before", "during", "after", "iso", "hold"], ls_writes=writes))
        for name in DRAIN_SCRIPTS:
            out.append(scenario(name, worker, ["after", "hold", "drain"]))
    if ctx.thorough:
        for worker in ("asyncio", "trio"):
            for name in SCRIPTS:
                f_ = script_facts(SCRIPTS[name])
                if name not in DRAIN_SCRIPTS and not (f_["failed_before_complete"] or f_["hang_before_complete"]):
                    out.append(scenario(name, worker, ["after", "hold", "drain"]))
            for name in ("complete", "raise_before_complete"):
                out.append(scenario(name, worker, ["before", "during", "after", "hold", "drain"], await_s=0.1))
        for worker in ("asyncio", "trio"):
            for name in SCRIPTS:
                for ph in ("before", "during", "after"):
                    out.append(scenario(name, worker, [ph, "hold"]))
                for aw in (0.1, 0.25):
                    out.append(scenario(name, worker, ["before", "during", "after", "hold"], await_s=aw))
                out.append(scenario(name, worker, ["after"]))
                if script_facts(SCRIPTS[name])["leaves"] != "failure" or script_facts(SCRIPTS[name])["complete"]:
                    out.append(scenario(name, worker, ["after", "iso", "hold"], ls_writes=False))
        # a handler that outlives the grace period: lifespan.shutdown only after trigger + graceful_timeout
        for worker in ("asyncio", "trio"):
            for name in ("complete", "return_after_complete", "raise_before_complete", "shutdown_failed"):
                out.append(scenario(name, worker, ["after", "hold"], hold="hang"))
    return out


# --------------------------------------------------------------------------------------------------------------
# monitors: the property, evaluated on the implementation's own observation
# --------------------------------------------------------------------------------------------------------------
def signature(sc: dict, facts: dict, **kw: Any) -> dict:
    shape = ("startup_failed_then_await" if facts["failed_then_await"] else
             "lifespan_returned_early" if facts["leaves"] == "return" and not facts["shutdown_complete"] else
             "lifespan_task_running_at_end" if facts["runs_after_shutdown_complete"] or
             (facts["sends_failed"] and not facts["failed_before_complete"] and sc["lifespan"][-1] == "await") else
             "other")
    return {"worker": sc["worker"], "script": sc["name"], "shape": shape, **kw}


def monitors(ctx: Any, sc: dict, obs: dict, iv: dict) -> None:      # ctx: Ctx or worker.Findings
    facts = script_facts(sc["lifespan"])
    ev = obs["events"]
    case = {"scenario": sc}
    G, S = sc["config"]["graceful_timeout"], sc["config"]["shutdown_timeout"]

    def viol(clause: str, detail: Any, **kw: Any) -> None:
        ctx.violation(clause, case, detail, signature(sc, facts, **kw))

    t_complete = wk.first_t(obs, "ls_send", type="lifespan.startup.complete")
    t_exit = wk.first_t(obs, "ls_exit")
    exit_how = next((e[3] for e in ev if e[2] == "ls_exit"), None)
    # the instant from which serving is legitimate: start-up completed, or the application left the lifespan scope by
    # raising (unsupported) or returning (weaker reading: leaving the scope shows it does not take part in lifespan)
    legit = [t for t in (t_complete, t_exit if exit_how and not (exit_how["how"] == "raise" and exit_how.get("cls") == "LifespanFailureError") else None)
             if t is not None]
    t_legit = min(legit) if legit else None
    served = [(t, d) for t, d in iv["scopes"]]
    responses = [(cid, r) for cid, p in iv["per"].items() for r in p["responses"] if r["status"] is not None]
    first_served = min([t for t, _ in served] + [r["t"] for _, r in responses], default=None)

    # 1. startup before serving
    if first_served is not None and (t_legit is None or first_served < t_legit - 0.002):
        viol("startup_before_serving", {"first_scope_or_response_at": first_served, "startup_complete_at": t_complete,
                                        "lifespan_left_at": t_exit, "how": exit_how})
    if iv["received"] and iv["received"][0] != "lifespan.startup":
        viol("startup_first_message", iv["received"])
    if iv["received"].count("lifespan.startup") > 1:
        viol("startup_once", iv["received"])

    # 2. startup.failed aborts, nothing served
    if facts["failed_before_complete"]:
        ok_err = iv["outcome"] == "raise" and set(iv["classes"]) <= {"LifespanFailureError", "LifespanTimeoutError"} and iv["classes"]
        if served or responses or not ok_err:
            viol("failed_aborts", {"scopes": [d.get("path") for _, d in served], "responses": [(c, r["status"]) for c, r in responses],
                                   "serve": [iv["outcome"], iv["classes"]]})
    # 3. start-up time-out aborts, punctually, nothing served
    if facts["hang_before_complete"]:
        T = sc["config"]["startup_timeout"]
        ok = (iv["outcome"] == "raise" and iv["classes"] == ["LifespanTimeoutError"] and iv["return_s"] is not None
              and T - 0.05 <= iv["return_s"] <= T + SLACK)
        if served or responses or not ok:
            viol("timeout_aborts", {"scopes": len(served), "serve": [iv["outcome"], iv["classes"], iv["return_s"]]})
    # 4. an application that raises is unsupported: serving goes on, no lifespan.shutdown, normal return
    if facts["raise_before_complete"]:
        after = iv["per"].get(2)
        served_after = bool(after and any(r["status"] == 200 and r["complete"] for r in after["responses"]))
        if (after is not None and not served_after) or "lifespan.shutdown" in iv["received"] or iv["outcome"] != "return":
            viol("unsupported_continues", {"client_after_served": served_after, "received": iv["received"], "serve": [iv["outcome"], iv["classes"]]})
    # 5. lifespan.shutdown at most once, only after the handlers have drained or the grace period is over
    if iv["received"].count("lifespan.shutdown") > 1:
        viol("shutdown_once", iv["received"])
    t_sd = wk.first_t(obs, "ls_recv", type="lifespan.shutdown")
    t_trig = iv["trigger_s"]
    if t_sd is not None:
        starts = {d.get("path"): t for t, d in served}
        ended = {p: t for t, k, p in iv["ends"]}
        alive = [p for p, t in starts.items() if t <= t_sd and (p not in ended or ended[p] > t_sd + 0.002)]
        if t_trig is None or t_sd < t_trig - 0.002 or (alive and t_sd < t_trig + G - 0.02):
            viol("shutdown_after_drain", {"shutdown_received_at": t_sd, "trigger_at": t_trig, "handlers_alive": alive})
    # 5b. once shutdown has begun no connection is accepted: a client that connects after the trigger (phase `drain`: while an older
    #     request is still in progress) never reaches the application and is never answered
    for c in sc["clients"]:
        if c["phase"] == "drain":
            p = iv["per"].get(c["id"], {})
            paths = [st[1] for st in c["steps"] if st[0] == "get"]
            reached = [(t, d.get("path")) for t, d in served if d.get("path") in paths]
            answered = [r["status"] for r in p.get("responses", []) if r["status"] is not None]
            if reached or answered:
                viol("accepts_after_trigger", {"client": c["id"], "connect": p.get("connect"), "connected_at": p.get("connect_t"), "trigger_at": t_trig,
                                               "request_reached_application_at": reached, "answered": answered,
                                               "lifespan_shutdown_received_at": t_sd})
    # 6. worker_serve ends abnormally only for a reason the application gave
    allowed = set()
    if facts["sends_failed"]:
        allowed.add("LifespanFailureError")
    if facts["hang_before_complete"] or facts["hang_in_shutdown"] or facts["failed_before_complete"]:
        allowed.add("LifespanTimeoutError")
    # (the property is silent on `lifespan.shutdown.failed`: how worker_serve ends then is not judged, only recorded)
    judged = not (facts["sends_failed"] and not facts["failed_before_complete"] and facts["complete"])
    if not judged:
        ctx.count("shutdown_failed_outcome", f"{sc['worker']}:{iv['outcome']}:{','.join(iv['classes'])}")
    if judged and iv["outcome"] == "raise" and not set(iv["classes"]) <= allowed:
        viol("serve_returns_normally", {"raised": iv["classes"], "message": iv["message"], "at": iv["return_s"],
                                        "allowed_for_this_script": sorted(allowed)})
    if iv["outcome"] == "stuck":
        viol("serve_returns_normally", {"serve": "did not return", "observed_until": sc["observe_until"]})
    # 7. state isolation
    # (what the lifespan application stored under `boot`: "L", or nothing at all - the state the connections copy is then empty)
    ls_boot = "L" if sc.get("ls_writes", True) else None
    probes = [e[3] for e in ev if e[2] == "state_probe"]
    for p in probes:
        foreign = {k: v for k, v in p["before"].items() if k == "who" or (k == "boot" and v != ls_boot)}
        own_ok = p["after"].get("who") == p["tag"] and p["after"].get("boot") == "C" + p["tag"]
        if foreign or not own_ok or p["before"].get("boot") != ls_boot:
            viol("state_isolated", {"probe": p, "lifespan_wrote": ls_boot})
    for e in ev:
        if e[2] == "ls_recv" and e[3]["type"] == "lifespan.shutdown":
            st = e[3]["state"]
            if st.get("boot") != ls_boot or "who" in st:
                viol("state_isolated", {"lifespan_state_at_shutdown": st, "lifespan_wrote": ls_boot})


# --------------------------------------------------------------------------------------------------------------
# model vs implementation
# --------------------------------------------------------------------------------------------------------------
def compare(ctx: Any, sc: dict, iv: dict, m: dict) -> None:      # ctx: Ctx or worker.Findings
    mv = wk.model_view(m)
    diffs = []
    cls = {"LifespanFailureError": "LifespanFailureError", "LifespanTimeoutError": "LifespanTimeoutError",
           "ClosedResourceError": "ClosedResourceError", "CancelledError": "CancelledError"}
    if mv["outcome"] != iv["outcome"]:
        diffs.append(("serve outcome", mv["outcome"], iv["outcome"]))
    elif mv["outcome"] == "raise" and [cls.get(mv["error"])] != sorted(set(iv["classes"])):
        diffs.append(("serve error", mv["error"], iv["classes"]))
    # the model triggers at the instant the trigger is due, the harness when the requests that are to be in progress have
    # reached the application: a return after the trigger is compared on the clock of the actual trigger
    m_ret = mv["return_s"]
    if m_ret is not None and mv["trigger_s"] is not None and iv["trigger_s"] is not None and m_ret >= mv["trigger_s"] - 1e-9:
        m_ret += iv["trigger_s"] - mv["trigger_s"]
    if mv["outcome"] == iv["outcome"] and m_ret is not None and iv["return_s"] is not None \
            and abs(m_ret - iv["return_s"]) > 0.5:
        diffs.append(("return instant", m_ret, iv["return_s"]))
    if mv["received"] != iv["received"]:
        diffs.append(("lifespan messages received", mv["received"], iv["received"]))
    warn_impl = sum(1 for _, lvl, msg in iv["logs"] if lvl == "warning" and "continuing without" in msg)
    if mv["warnings"] != warn_impl:
        diffs.append(("'continuing without Lifespan support' warnings", mv["warnings"], warn_impl))
    for c in sc["clients"]:
        cid = c["id"]
        ip = iv["per"].get(cid, {"accepted": False, "responses": [], "connect": None})
        mp = mv["per"].get(cid)
        i_served = any(r["status"] == 200 and r["complete"] for r in ip["responses"])
        m_served = bool(mp and mp.get("delivered"))
        if i_served != m_served:
            diffs.append((f"client {cid} ({c['phase']}) served", m_served, i_served))
        if sc["worker"] == "asyncio" and ip.get("connect") is not None:
            i_ref = ip.get("connect") == "refused"
            m_ref = mp is None
            if i_ref != m_ref:
                diffs.append((f"client {cid} ({c['phase']}) connection refused", m_ref, i_ref))
    # the states the connections saw / left
    names = {v: k for k, v in wk.KEYS.items()}

    def kv(d):
        out = {}
        for k, v in d:
            out[names[k]] = "L" if v == wk.VAL_L else ("C%d" % (v - 200) if v >= 200 else str(v))
        return out
    m_after: Dict[int, dict] = {}
    m_before: Dict[int, dict] = {}
    for cid, what, st in m["states"]:
        if st is not None:
            if what == "connect":
                m_before[cid] = kv(st)
            m_after[cid] = kv(st)
    probes = {int(e[3]["tag"]): e[3] for e in sc.get("_obs_events", [])}
    for tag, p in probes.items():
        if tag in m_after and m_after[tag] != p["after"]:
            diffs.append((f"state of connection {tag} after its write", m_after[tag], p["after"]))
        if tag in m_before and m_before[tag] != p["before"]:
            diffs.append((f"state connection {tag} started from", m_before[tag], p["before"]))
    ctx.disagreements_checked += 1
    if diffs:
        ctx.disagree("c14.run", {"scenario": {k: v for k, v in sc.items() if k != "_obs_events"}}, diffs, None)


FLAGS: Dict[str, dict] = {}


def evaluate(ctx: Ctx, scs: List[dict], procs: int = 14) -> None:
    flags = FLAGS.get("v") or FLAGS.setdefault("v", wk.probe_flags())
    ctx.extra["runtime_flags_measured"] = flags
    if not ctx.extra.get("runtime_constants_checked"):
        ctx.extra["runtime_constants_checked"] = True
        wk.check_runtime_constants(ctx, flags)
    obs = wk.run_disciplined(ctx, scs, procs)       # timing discipline: see worker.run_disciplined and `scenario`
    reqs = [wk.model_request(sc, "c14.run", flags) for sc in scs]
    # a script whose exceptions leave the application through exception groups: the model (HC/Worker/Escape.lean `translate`, with the
    # except chain the extractor read off this worker's handle_lifespan) says what script that is for the server
    esc = [i for i, sc in enumerate(scs) if sc.get("escape") is not None]
    if esc:
        tr = ctx.model([{"cmd": "c14.escape_script", "worker": scs[i]["worker"], "wrap": wk.escape_wrap(scs[i]["escape"]),
                         "script": reqs[i]["script"]} for i in esc])
        for i, r in zip(esc, tr or []):
            ctx.count("escape", json.dumps(scs[i]["escape"]))
            ctx.disagreements_checked += 1
            if "ok" not in r:
                # the except chain the extractor found has a shape the model cannot speak about (an EXTRACT-FAIL says so too): the
                # script is then run in the model as it is (what the chain should make of it) and the comparison speaks for itself
                ctx.disagree("c14.escape_script", {"scenario": {k: scs[i][k] for k in ("name", "worker", "lifespan", "escape")}}, r,
                             "handle_lifespan of this worker, as extracted")
                continue
            reqs[i]["script"] = r["ok"]["script"]
    model = ctx.model(reqs)

    def judge(f: Any, i: int, sc: dict, o: dict) -> None:
        """one run of one scenario: the property monitors and the model comparison, collected in `f`"""
        iv = wk.impl_view(o)
        monitors(f, sc, o, iv)
        if model is not None:
            r = model[i]
            if "ok" not in r:
                raise wk.HarnessFailure(f"hcdriver rejected scenario {sc['name']}/{sc['worker']}: {r}")
            sc2 = dict(sc)
            sc2["_obs_events"] = [e for e in o["events"] if e[2] == "state_probe"]
            compare(f, sc2, iv, r["ok"])

    # report rule (worker.judge_with_reruns): a scenario about which the monitors or the comparison say something is first run
    # again alone; only what it says again is reported (with the re-run's observation), the rest is counted as not reproduced
    obs = wk.judge_with_reruns(ctx, scs, obs, judge)
    for sc, o in zip(scs, obs):
        iv = wk.impl_view(o)
        facts = script_facts(sc["lifespan"])
        ctx.evaluations += 1
        ctx.traces_validated += 1
        ctx.count("script", sc["name"])
        ctx.count("worker", sc["worker"])
        ctx.count("serve_outcome", iv["outcome"] + ("" if not iv["classes"] else ":" + ",".join(sorted(set(iv["classes"])))))
        for c in sc["clients"]:
            ip = iv["per"].get(c["id"], {})
            ctx.count("client_phase", c["phase"])
            ctx.count("client_connect", f"{sc['worker']}:{c['phase']}:{ip.get('connect')}")
            nontrivial = facts["leaves"] != "return" or not facts["shutdown_complete"] or ip.get("connect") != "ok" or c["phase"] in ("before", "during", "hold")
            if nontrivial:
                ctx.distinct([sc["name"], sc["worker"], c["phase"], sc.get("hold"), sc["await_s"], sc.get("ls_writes", True)])
        ctx.sample({"scenario": sc, "serve": o["serve"], "events": [e for e in o["events"] if e[2] != "log"][:40]}, cap=3)


# --------------------------------------------------------------------------------------------------------------
# unit level: handle_lifespan of both workers on a TREE of exceptions leaving the application
# --------------------------------------------------------------------------------------------------------------
LEAVES = ("failure:startup", "failure:shutdown", "cancelled", "other")
# depth 1, 2, 3 of every kind of leaf, alone and next to other exceptions at every level
TREE_CORPUS: List[Any] = (
    list(LEAVES)
    + [[x] for x in LEAVES] + [[[x]] for x in LEAVES] + [[[[x]]] for x in LEAVES]
    + [["other", x] for x in LEAVES] + [["other", [x]] for x in LEAVES] + [[["other"], [[x], "other"]] for x in LEAVES]
    + [["other", ["other", ["other", [x]]]] for x in LEAVES]
    + [["failure:startup", "cancelled"], [["failure:startup"], ["cancelled"]], ["other", "other"], [["other"], ["other", ["other"]]],
       [["failure:startup", "failure:shutdown"]], [["cancelled"], "other"], ["failure:shutdown", ["other", ["failure:startup"]]]])


def gen_tree(rng, depth: int = 0) -> Any:
    if depth >= 4 or rng.random() < (0.25 if depth else 0.05):
        return rng.choice(LEAVES + ("other",))
    return [gen_tree(rng, depth + 1) for _ in range(rng.choice([1, 1, 2, 3]))]


def tree_leaves(t: Any, depth: int = 0) -> List[Tuple[str, int]]:
    if isinstance(t, list):
        return [x for c in t for x in tree_leaves(c, depth + 1)]
    return [(t, depth)]


def run_escape_unit(worker: str, trees: List[Any]) -> List[dict]:
    """the real `Lifespan.handle_lifespan` of `worker` around an application that raises each tree; what comes out of it"""
    from hypercorn.app_wrappers import ASGIWrapper
    from hypercorn.config import Config
    from hypercorn.utils import LifespanFailureError

    def cfg() -> Any:
        c = Config()
        c.accesslog = None
        c.errorlog = None
        return c

    def build(t: Any, cancelled: BaseException) -> BaseException:
        if isinstance(t, list):
            return BaseExceptionGroup("scripted group", [build(x, cancelled) for x in t])
        if t.startswith("failure:"):
            return LifespanFailureError(t.split(":")[1], "scripted")
        return cancelled if t == "cancelled" else wk.ScriptedRaise("scripted")

    def shape(e: BaseException, cancelled_cls: type) -> Any:
        if isinstance(e, BaseExceptionGroup):
            return [shape(x, cancelled_cls) for x in e.exceptions]
        if isinstance(e, LifespanFailureError):
            return "failure:" + ("startup" if "in startup" in str(e) else "shutdown")
        return "cancelled" if isinstance(e, cancelled_cls) else ("other" if isinstance(e, wk.ScriptedRaise) else "?" + type(e).__name__)

    async def one(make: Callable, t: Any, cancelled: BaseException) -> dict:
        async def app(scope, receive, send) -> None:
            raise build(t, cancelled)
        lf = make(ASGIWrapper(app))
        try:
            await lf.handle_lifespan()
        except BaseException as e:  # noqa
            return {"verdict": "reraise", "tree": shape(e, type(cancelled)), "supported": lf.supported,
                    "events_set": [lf.startup.is_set(), lf.shutdown.is_set()]}
        return {"verdict": "unsupported" if not lf.supported else "returned", "supported": lf.supported,
                "events_set": [lf.startup.is_set(), lf.shutdown.is_set()]}

    if worker == "asyncio":
        import asyncio

        async def amain() -> List[dict]:
            from hypercorn.asyncio.lifespan import Lifespan
            loop = asyncio.get_event_loop()
            return [await one(lambda a: Lifespan(a, cfg(), loop, {}), t, asyncio.CancelledError()) for t in trees]
        return asyncio.run(amain())
    import trio

    async def tmain() -> List[dict]:
        from hypercorn.trio.lifespan import Lifespan
        caught: List[BaseException] = []
        with trio.CancelScope() as cs:              # a genuine trio.Cancelled (the class has no public constructor)
            cs.cancel()
            try:
                await trio.lowlevel.checkpoint()
            except trio.Cancelled as c:
                caught.append(c)
        return [await one(lambda a: Lifespan(a, cfg(), {}), t, caught[0]) for t in trees]
    return trio.run(tmain)


def check_escape_unit(ctx: Ctx, cases: List[dict]) -> None:
    for worker in ("asyncio", "trio"):
        idx = [i for i, c in enumerate(cases) if c["worker"] == worker]
        if not idx:
            continue
        obs = run_escape_unit(worker, [cases[i]["tree"] for i in idx])
        model = ctx.model([{"cmd": "c14.escape", "worker": worker, "tree": cases[i]["tree"]} for i in idx])
        for k, i in enumerate(idx):
            c, o = cases[i], obs[k]
            leaves = tree_leaves(c["tree"])
            kinds = {x.split(":")[0] for x, _ in leaves}
            fdepth = [d for x, d in leaves if x.startswith("failure")]
            ctx.evaluations += 1
            ctx.count("escape_unit.worker", worker)
            ctx.count("escape_unit.leaves", "+".join(sorted(kinds)))
            ctx.count("escape_unit.failure_depth", "none" if not fdepth else f"{min(fdepth)}..{max(fdepth)}")
            ctx.count("escape_unit.verdict", o["verdict"])
            if isinstance(c["tree"], list):
                ctx.distinct(["escape_unit", worker, sorted(kinds), min(fdepth) if fdepth else None, max(d for _, d in leaves)])
            ctx.sample(c, cap=2)
            sig = {"family": "escape_unit", "worker": worker, "leaves": sorted(kinds)}
            # the property: startup.failed (a LifespanFailureError anywhere in what leaves the application) aborts - it is raised on, as a
            # failure, never filed under "does not support lifespan"; an application that (only) raised is unsupported
            if fdepth:
                out = [x for x, _ in tree_leaves(o.get("tree"))] if o["verdict"] == "reraise" else []
                if o["verdict"] != "reraise" or not any(x.startswith("failure") for x in out) or not o["supported"]:
                    ctx.violation("failed_aborts", c, o, dict(sig, failure_depth=min(fdepth)))
            elif kinds == {"other"}:
                if o["verdict"] != "unsupported":
                    ctx.violation("unsupported_continues", c, o, sig)
            if o["events_set"] != [True, True]:
                ctx.violation("serve_returns_normally", c, {"events_not_set_when_the_task_ends": o}, sig)
            if model is not None:
                ctx.disagreements_checked += 1
                m = model[k].get("ok")
                impl = {"verdict": o["verdict"], **({"tree": o["tree"]} if o["verdict"] == "reraise" else {})}
                if m != impl:
                    ctx.disagree("c14.escape", c, model[k], impl)


def gen_escape_unit(ctx: Ctx) -> List[dict]:
    trees = list(TREE_CORPUS) + [gen_tree(ctx.rng) for _ in range(ctx.budget(300, 5000))]
    return [{"family": "escape_unit", "worker": w, "tree": t} for w in ("asyncio", "trio") for t in trees]


def run(ctx: Ctx) -> None:
    check_escape_unit(ctx, gen_escape_unit(ctx))
    scs = gen(ctx)
    ctx.exhaustive = True
    ctx.extra["grid"] = {"scripts": len(SCRIPTS), "workers": 2, "scenarios": len(scs), "exception_tree_corpus": len(TREE_CORPUS)}
    evaluate(ctx, scs)
    # the Lean negation witnesses, replayed on the implementation: they must fail there too (else model and code disagree)
    ctx.notes.append("history witnesses replayed on the implementation (all pass on the code now): f16_run_before_fix = "
                     "failed_await_in_cleanup/asyncio, f17_run_before_fix = return_after_complete/trio, f17_run_wsgi_before_fix = "
                     "return_immediately/trio, noreturn_after_shutdown_cancelled_before_fix = complete_then_hang/asyncio")


def replay(ctx: Ctx, case: dict) -> None:
    if case.get("family") == "escape_unit":
        check_escape_unit(ctx, [case])
        return
    sc = case["scenario"]
    sc = {k: v for k, v in sc.items() if k != "_obs_events"}
    evaluate(ctx, [sc], procs=1)
