"""C18 — configured limits and worker recycling are enforced against any client.

Families (each a generator + a monitor that judges the implementation's observation against the statement):
  incomplete  h11_max_incomplete_size: a head crossing the limit inside a read / exactly at a read boundary / arriving
              complete in one read, after 0-2 served requests on the same connection; direct drive of H11Protocol (taps on
              h11, op-by-op comparison with HC.Proto.H11, `c18.h11buf` for the library rule) and end to end on both workers.
  ka1         keep_alive_max_requests on HTTP/1: pipelines / sequences around the limit, direct and end to end.
  ka2         keep_alive_max_requests on HTTP/2: a client that ignores GOAWAY, one or several HEADERS frames per read;
              direct drive of H2Protocol compared with HC.Proto.H2Lim (`c18.h2`), and end to end on both workers.
  h2lim       advertised SETTINGS, one stream too many, header blocks of size-1 / exactly / +1 (name + value + 32), from a
              client that ignores the advertised settings; direct and end to end.
  push        HTTP/2 server push (`http.response.push` from applications of served streams): accepted, refused (client sent
              ENABLE_PUSH = 0, push from a pushed stream, after close_connection(), after the stream's own response) - the
              request counter (every accepted push counts twice), the request maximum and GOAWAY around it; direct drive
              compared op by op with HC.Proto.H2Lim (`Op.push accepted`), and end to end on both workers.
  recycle     WorkerContext.mark_request of both workers (unit), and the whole worker (harness/core/worker.py) with
              max_requests in {None (off), 0, 1, 3} x jitter in {0, 2} over several seeds: the request index at which
              worker_serve begins its exit.
"""
from __future__ import annotations

import asyncio
import random
from typing import Any, Dict, List, Optional, Tuple

from ..core import clients as C
from ..core import h11sessions as HS
from ..core import h2raw as RH
from ..core import runner as R
from ..core import worker as wk
from ..core.framework import Ctx, b2s

SPEC = {
    "modules": ["HC.Props.C18"],
    "extracted": ["Guards", "Consts", "Limits", "H11Tables"],
    "technique": "Lean 4 theorems for every limit value and every request sequence over (i) a model of h11's incomplete-event rule "
                 "(comparator and hint extracted from the installed h11) composed with the executable model of H11Protocol and the h11 "
                 "state machine shared with C06, (ii) a model of H2Protocol's settings table, request counter and of what h2 / hpack "
                 "refuse (comparators, per-field overhead, counter increments, comparison site extracted), (iii) WorkerContext.mark_request "
                 "and the request budget of both run.py (comparator, increment, operator and randint bounds extracted) composed with the "
                 "worker model of C14/C15; tied by differential execution of the real H11Protocol / H2Protocol / WorkerContext / "
                 "worker_serve against the models, with monitors that evaluate the statement on what an independent client parser sees",
    "level_text": "Proved in Lean: feed_waits / feed_rejects / feed_accepts (for every limit L, head length and segmentation: the first "
                  "read that leaves more than L bytes of an incomplete head raises with the 431 hint, at most L keeps waiting, a head that "
                  "completes is delivered whatever its length); h11_incomplete_rejected (H11Protocol then sends exactly one 431 with "
                  "content-length 0 and connection: close, ends it, sends Closed, starts no application) and nothing_served_when_gone "
                  "(from then on, and after any response head that announced close, no op sequence starts an application instance or "
                  "enables a Request event); keep_alive_head / keep_alive_close_ends_reuse (the head of the request counted k carries "
                  "the server's connection: close iff k >= keep_alive_max_requests - extracted comparator - i.e. heads 1..max(L,1)-1 do "
                  "not and head max(L,1) does, and once h11 took that head the connection is Gone); h2_settings_advertised, "
                  "recvFrame_spec, h2_excess_stream_refused, h2_header_list_refused / _at_limit_accepted, oversized_iff (h2's running "
                  "check = total of name+value+32); onRequest_spec, keep_alive_max_h2 (request L+1 is served and the GOAWAY naming it "
                  "leaves in the same read, earlier requests cause none), goaway_covers_served (no served stream id above any GOAWAY's "
                  "last_stream_id, never more open streams than configured), nothing_served_after_goaway, "
                  "keep_alive_max_h2_count_partial (at most L+1 when reads carry at most one HEADERS frame) with the negation witness "
                  "keep_alive_max_h2_count_fails_as_is (F47), counted_once_partial / _fails_as_is (pushed streams count twice); "
                  "recycle_iff, recycle_window, recycle_off, markRequest_is_mark, recycle_starts_shutdown, recycled_worker_returns "
                  "(composition with C15.bounded); mark_request_sites_match_source (each protocol counts in _create_stream, the one "
                  "constructor of streams, which received HEADERS, the HTTP/1.1 request of an Upgrade: h2c connection and pushes all go "
                  "through - extracted), recycle_over_connections / recycle_h2c_only (terminate iff the requests taken on over ALL "
                  "connections of the worker, of every kind, exceed the budget).  Whole-worker runs offer the requests over HTTP/1.1 with "
                  "and without reuse, prior-knowledge HTTP/2, Upgrade: h2c (with and without further streams), WebSocket handshakes and "
                  "mixes of them sharing one WorkerContext.",
    "level_note": "Report rule of the real-clock whole-worker scenarios (worker.judge_with_reruns, as in C14 / C15): a scenario about which a monitor or the model comparison says something is run again alone (at most twice) before anything is reported, only what it says again is reported, the rest is counted (not_reproduced_on_rerun) and sampled in the evidence.  Trusted: Lean kernel; the models HC/Lib/H11Buf, HC/Proto/H2Lim, HC/Worker/Recycle and the shared HC/Proto/H11 + H11M; "
                  "enforcement inside h11 (byte parser; the incomplete-buffer comparison), hpack (header-list accounting) and h2 (stream "
                  "count, state machine CLOSED after close_connection) is *library behaviour*: modelled from their source, comparators "
                  "extracted from the installed packages, and sampled on every run at L-1 / L / L+1 with a client that ignores the "
                  "advertised settings; on HTTP/2 'served' is read as in DESIGN.md (nothing above a GOAWAY's last_stream_id, GOAWAY in "
                  "the read of request L+1); the strict count 'at most L+1 application instances' is stated, proved for one HEADERS "
                  "frame per read and refuted in general (known finding F47); h2_max_inbound_frame_size is outside the statement (the "
                  "assignment to DEFAULT_MAX_INBOUND_FRAME_SIZE has no effect with h2 4.4: recorded in the notes); whole-worker runs use "
                  "the real clock with >= 1 s slack.",
    "rule": "family x limit value in {0, 1, 2, default, boundary triple} x sequence that approaches / hits / exceeds it x segmentation "
            "class x layer (direct drive / end to end on asyncio and trio / whole worker); distinct = (family, layer, limit, shape, "
            "segmentation); non-trivial = the sequence reaches the limit (hits or exceeds it); family push: limit x requests per read x "
            "which application pushes how often after which read x what the client said about push x opening (h2 / h2c), distinct = "
            "(limit, reads, client setting, opening, outcomes of the push messages)",
    "trusted": ["h11 0.16 byte parser; hpack 4.x decoder accounting; h2 4.4 stream accounting and connection state machine",
                "hyperframe frame parser + hpack decoder as the independent HTTP/2 client oracle", "random.randint inclusive bounds"],
    "partial": ["F48 (known): the response of the HTTP/2 request that trips keep_alive_max_requests (and of every stream still unanswered then) is lost - "
                "close_connection() closes h2's state machine at once (response_at_max_lost for every limit, state and continuation; "
                "served_answerable_partial + served_answerable_fails_as_is); that h2 refuses every send from then on is assumed of the library and "
                "compared per read with the response heads that reach the client",
                "F112 (known): keep_alive_max_requests = 0 over Upgrade: h2c serves two requests (initiate does not compare: extracted "
                "h2InitiateCompares; keep_alive_max_h2c_count_partial for limits >= 1 + keep_alive_max_h2c_count_fails_as_is)",
                "F47 (known): HTTP/2 requests sharing a read with request keep_alive_max_requests+1 are all served "
                "(keep_alive_max_h2_count_partial + keep_alive_max_h2_count_fails_as_is)",
                "pushed streams count twice against keep_alive_max_requests (counted_once_fails_as_is): the limit is reached earlier, never later"],
    "assumptions": ["requests of the HTTP/1 families carry no Connection: close / HTTP/1.0 (so that every `connection: close` on a "
                    "response is the server's own) and their applications do not crash",
                    "direct drive feeds no read while the reader is parked and none after Closed, as TCPServer does"],
}

OK_APP = {"when": "after_body", "status": 200, "chunks": ["ok"], "content_length": True, "crash": None, "ws": "close"}
OK_SCRIPT = [["recv_body"], ["send", {"type": "http.response.start", "status": 200, "headers": [(b"content-length", b"2")]}],
             ["send", {"type": "http.response.body", "body": b"ok"}]]
HOLD_SCRIPT = [["sleep", 4.0]] + OK_SCRIPT[1:]
DEFAULTS: Dict[str, Any] = {}


def _has_close(headers: List[List[str]]) -> bool:
    return any(n.lower() == "connection" and "close" in [t.strip() for t in v.lower().split(",")] for n, v in headers)


def _split_sizes(rng, total: int, mode: str, L: int) -> List[int]:
    """read sizes for a head of `total` bytes"""
    if mode == "one" or total <= 1:
        return [total]
    if mode == "bytewise":
        return [1] * total
    if mode.startswith("first:"):
        k = max(1, min(total - 1, int(mode[6:])))
        return [k, total - k]
    if mode == "creep":        # L-1, then one byte at a time across the boundary, then the rest
        sizes, left = [], total
        first = max(1, min(L - 1, total - 1))
        sizes.append(first)
        left -= first
        for _ in range(3):
            if left > 1:
                sizes.append(1)
                left -= 1
        if left:
            sizes.append(left)
        return sizes
    k = rng.randint(2, min(8, total))
    cuts = sorted(rng.sample(range(1, total), k - 1))
    return [b - a for a, b in zip([0] + cuts, cuts + [total])]


# ==============================================================================================================
# family: incomplete
# ==============================================================================================================
HEAD_FIXED = len(b"GET /big HTTP/1.1\r\nhost: x\r\nx-pad: \r\n\r\n")


def big_request(head_len: int) -> dict:
    return {"kind": "plain", "method": "GET", "target": "/big", "headers": [["host", "x"], ["x-pad", "a" * (head_len - HEAD_FIXED)]],
            "version": "1.1", "body": "", "chunks": None}


def small_request(i: int) -> dict:
    return {"kind": "plain", "method": "GET", "target": f"/p{i}", "headers": [["host", "x"]], "version": "1.1", "body": "", "chunks": None}


def gen_incomplete(ctx: Ctx) -> List[dict]:
    rng = ctx.rng
    cases = []
    default = DEFAULTS.get("h11_max_incomplete_size", 16384)
    limits = [0, 1, 2, 40, 100, 257, default]
    n = ctx.budget(90, 1400)
    for i in range(n):
        L = limits[i % len(limits)] if i < 4 * len(limits) else rng.choice(limits + [rng.randint(3, 400)])
        H = max(HEAD_FIXED, rng.choice([L - 1, L, L + 1, L + 2, L + 40, 2 * L + 7, L // 2 + 1]))
        if L == default and i % 3:
            H = rng.choice([default + 1, default + 300])
        modes = ["one", f"first:{L}", f"first:{L + 1}", f"first:{max(1, L - 1)}", "creep", "random", "random"]
        if H <= 300:
            modes.append("bytewise")
        mode = modes[i % len(modes)] if i < 3 * len(modes) else rng.choice(modes)
        cases.append({"family": "incomplete", "L": L, "H": H, "mode": mode, "prefix": rng.choice([0, 0, 1, 2]), "seed": rng.randrange(1 << 30)})
    return cases


def incomplete_reads(case: dict) -> Tuple[List[bytes], List[int], List[dict]]:
    rng = random.Random(case["seed"])
    reqs = [small_request(i) for i in range(case["prefix"])] + [big_request(case["H"])]
    head = HS.request_bytes(reqs[-1])
    assert len(head) == case["H"], (len(head), case["H"])
    sizes = _split_sizes(rng, case["H"], case["mode"], case["L"])
    reads, pos = [HS.request_bytes(r) for r in reqs[:-1]], 0
    for s in sizes:
        reads.append(head[pos:pos + s])
        pos += s
    return reads, sizes, reqs


def must_reject(L: int, H: int, sizes: List[int]) -> bool:
    """the statement: some read leaves the head incomplete with more than L bytes received"""
    acc = 0
    for s in sizes:
        acc += s
        if acc >= H:
            return False
        if acc > L:
            return True
    return False


def check_incomplete_direct(ctx: Ctx, cases: List[dict]) -> None:
    reqs_model = []
    for case in cases:
        reads, sizes, reqs = incomplete_reads(case)
        rng = random.Random(case["seed"] + 1)
        cfg = {"h11_max_incomplete_size": case["L"]}
        # prefix requests are answered before the next read is fed: the policy never reads while an application has work
        policy = _SerialPolicy(rng, reads, reqs, [OK_APP])
        mops, obs, lib = HS.run_session(cfg, policy)
        ctx.evaluations += 1
        ctx.traces_validated += 1
        HS.compare_with_model(ctx, {**case, "layer": "direct"}, cfg, mops, obs, lib)
        flat = [e for o in obs if o is not None for e in o["outs"]]
        exc = [o["handler_exception"] for o in obs if o is not None and o.get("handler_exception")]
        must = must_reject(case["L"], case["H"], sizes)
        ctx.count("incomplete.limit", case["L"] if case["L"] in (0, 1, 2, DEFAULTS.get("h11_max_incomplete_size")) else "other")
        ctx.count("incomplete.mode", case["mode"].split(":")[0])
        ctx.count("incomplete.expect", "reject" if must else ("accept" if sum(sizes) >= case["H"] else "wait"))
        if must or case["H"] > case["L"]:
            ctx.distinct(["incomplete", "direct", case["L"], case["H"] - case["L"], case["mode"], case["prefix"]])
        ctx.sample({k: case[k] for k in ("family", "L", "H", "mode", "prefix")}, cap=2)
        # library rule: which read raises
        begins = [i for i, m in enumerate(mops) if m["op"] == "begin"]
        err_at = next((i for i, m in enumerate(mops) if m.get("k") == "protoError"), None)
        spawns = [e for e in flat if e[0] == "spawn"]
        if err_at is not None:
            impl = {"kind": "rejected", "read": len([b for b in begins if b < err_at]) - case["prefix"] - 1}
        elif len(spawns) == case["prefix"] + 1:
            impl = {"kind": "accepted"}
        else:
            impl = {"kind": "waiting"}
        reqs_model.append(({"cmd": "c18.h11buf", "L": case["L"], "H": case["H"], "buffered": 0, "reads": sizes}, case, impl))
        sig = {"family": "incomplete", "layer": "direct"}
        if exc:
            ctx.violation("handler_exception", {**case, "layer": "direct"}, exc, {**sig, "error": exc[0]})
            continue
        if must:
            errs = [e for e in flat if e[0] == "libSend" and e[1][0] == "response" and e[2] and 400 <= e[1][1] < 500]
            if not errs:
                ctx.violation("incomplete_not_rejected", {**case, "layer": "direct"}, {"outs": flat[-8:]}, sig)
            elif not _has_close(errs[-1][1][2]):
                ctx.violation("incomplete_no_close", {**case, "layer": "direct"}, errs[-1], sig)
            if not any(e[0] == "upClosed" for e in flat):
                ctx.violation("incomplete_not_closed", {**case, "layer": "direct"}, flat[-8:], sig)
            if len(spawns) > case["prefix"]:
                ctx.violation("incomplete_reached_app", {**case, "layer": "direct"}, spawns[-1], sig)
    res = ctx.model([r for r, _, _ in reqs_model])
    if res is not None:
        for (rq, case, impl), m in zip(reqs_model, res):
            ctx.disagreements_checked += 1
            mo = m.get("ok")
            if mo is None or mo["kind"] != impl["kind"] or (mo["kind"] == "rejected" and impl.get("read") != mo["read"]):
                ctx.disagree("c18.h11buf", {**case, "layer": "direct"}, mo if mo is not None else m, impl)


class _SerialPolicy(HS.Policy):
    """like HS.Policy, but an application that can make progress always goes first (requests are answered before the
    next read): the incomplete buffer then holds bytes of one head only"""

    def __call__(self, view):
        for oid in view["spawned"]:
            if oid not in self.pending:
                k = len(self.spawn_order)
                self.spawn_order.append(oid)
                self.pending[oid] = HS.app_messages(self.requests[min(k, len(self.requests) - 1)], self.apps[k % len(self.apps)])
        for k, oid in enumerate(self.spawn_order):
            if self.pending[oid] and self._ready(view, oid, k):
                return {"send": [oid, self.pending[oid].pop(0)]}
        if self.reads and not view["parked"] and not view["up_closed"]:
            return {"data": self.reads.pop(0)}
        return None


def check_incomplete_e2e(ctx: Ctx, cases: List[dict]) -> None:
    for case in cases:
        reads, sizes, reqs = incomplete_reads(case)
        must = must_reject(case["L"], case["H"], sizes)
        for worker in ("asyncio", "trio"):
            async def client(io):
                for i, chunk in enumerate(reads):
                    await io.send(chunk)
                    if i < case["prefix"]:
                        await io.sleep(0.05)
                await io.sleep(0.3)
            res = R.RUNNERS[worker]({"h11_max_incomplete_size": case["L"], "keep_alive_timeout": 3}, None, client, [OK_SCRIPT], tail=6)
            ctx.evaluations += 1
            ctx.count("e2e.worker", worker)
            c2 = {**case, "layer": "e2e", "worker": worker}
            sig = {"family": "incomplete", "layer": "e2e", "worker": worker}
            if res.get("stuck_session") or res["error"] or res["loop_errors"]:
                ctx.violation("handler_exception", c2, {"error": res["error"], "loop": res["loop_errors"], "stuck": res.get("stuck_session")},
                              {**sig, "error": str(res["error"])})
                continue
            parsed = C.parse_h1(res["out"], ["GET"] * len(reqs), server_closed=res["closed_at"] is not None)
            finals = [r for r in parsed["responses"] if not r.get("informational")]
            if must:
                ctx.distinct(["incomplete", "e2e", worker, case["L"], case["H"] - case["L"], case["mode"], case["prefix"]])
                last = finals[-1] if finals else None
                if last is None or len(finals) != case["prefix"] + 1 or not (400 <= last["status"] < 500):
                    ctx.violation("incomplete_not_rejected", c2, {"statuses": [r["status"] for r in finals]}, sig)
                elif not _has_close(last["headers"]):
                    ctx.violation("incomplete_no_close", c2, last["headers"], sig)
                if res["closed_at"] is None:
                    ctx.violation("incomplete_not_closed", c2, {"closed_at": None}, sig)
                if len(res["apps"]) > case["prefix"]:
                    ctx.violation("incomplete_reached_app", c2, {"apps": len(res["apps"])}, sig)
            elif sum(sizes) >= case["H"] and (len(res["apps"]) != len(reqs) or [r["status"] for r in finals] != [200] * len(reqs)):
                # model and statement say nothing forbids this head: an over-eager limit would be a disagreement with the theorems
                ctx.disagree("incomplete.e2e.accept", c2, {"apps": len(reqs)}, {"apps": len(res["apps"]), "statuses": [r["status"] for r in finals]})


# ==============================================================================================================
# family: ka1 (HTTP/1 request maximum)
# ==============================================================================================================
KA1_WEIGHTS = [6, 4, 3, 0, 0, 1, 2, 0, 0, 0, 0]          # plain, body_cl, body_chunked, -, -, expect, head


def gen_ka1(ctx: Ctx) -> List[dict]:
    rng = ctx.rng
    cases = []
    default = DEFAULTS.get("keep_alive_max_requests", 1000)
    for i in range(ctx.budget(120, 1800)):
        L = [0, 1, 2, 3, 5, default][i % 6]
        eff = max(L, 1)
        n = rng.choice([max(1, eff - 1), eff, eff + 1, eff + 2]) if L != default else rng.choice([2, 4])
        n = min(n, 7)
        reqs = [HS.gen_request(rng, k, {"big": False, "weights": KA1_WEIGHTS}) for k in range(n)]
        apps = [HS.gen_app(rng, r, {"no_crash": True}) for r in reqs]
        for a in apps:
            a["status"] = rng.choice([200, 200, 201, 404])
        total = sum(len(HS.request_bytes(r)) for r in reqs)
        split = rng.choice(["one", "per_request", "random", "random", "bytewise" if total < 500 else "random"])
        cases.append({"family": "ka1", "L": L, "requests": reqs, "apps": apps, "split": split, "seed": rng.randrange(1 << 30)})
    return cases


def _ka1_reads(case: dict, rng) -> List[bytes]:
    blobs = [HS.request_bytes(r) for r in case["requests"]]
    return blobs if case["split"] == "per_request" else HS.split_bytes(rng, b"".join(blobs), case["split"])


def _judge_ka1(ctx: Ctx, case: dict, heads: List[Tuple[int, List[List[str]]]], started: int, sig: dict) -> None:
    L = case["L"]
    eff = max(L, 1)
    for k, (status, headers) in enumerate(heads, start=1):
        closes = _has_close(headers)
        if k < eff and closes:
            ctx.violation("close_added_before_max", case, {"k": k, "L": L, "headers": headers}, sig)
        if k == eff and not closes:
            ctx.violation("close_missing_at_max", case, {"k": k, "L": L, "headers": headers}, sig)
    if started > eff or len(heads) > eff:
        ctx.violation("served_beyond_max", case, {"started": started, "responses": len(heads), "L": L}, sig)
    ctx.count("ka1.reach", "below" if len(heads) < eff else "at_max")


def check_ka1_direct(ctx: Ctx, cases: List[dict]) -> None:
    for case in cases:
        rng = random.Random(case["seed"])
        cfg = {"keep_alive_max_requests": case["L"]}
        policy = HS.Policy(rng, _ka1_reads(case, rng), case["requests"], case["apps"], eof=False)
        mops, obs, lib = HS.run_session(cfg, policy)
        ctx.evaluations += 1
        ctx.traces_validated += 1
        c2 = {**case, "layer": "direct"}
        HS.compare_with_model(ctx, c2, cfg, mops, obs, lib)
        flat = [e for o in obs if o is not None for e in o["outs"]]
        exc = [o["handler_exception"] for o in obs if o is not None and o.get("handler_exception")]
        sig = {"family": "ka1", "layer": "direct"}
        ctx.count("ka1.limit", case["L"])
        ctx.count("ka1.split", case["split"])
        if len(case["requests"]) >= max(case["L"], 1):
            ctx.distinct(["ka1", "direct", case["L"], len(case["requests"]), case["split"], [r["kind"] for r in case["requests"]]])
        ctx.sample({"family": "ka1", "L": case["L"], "n": len(case["requests"]), "split": case["split"]}, cap=3)
        if exc:
            ctx.violation("handler_exception", c2, exc, {**sig, "error": exc[0]})
            continue
        heads = [(e[1][1], e[1][2]) for e in flat if e[0] == "libSend" and e[1][0] == "response" and e[2] and e[1][1] >= 200]
        _judge_ka1(ctx, c2, heads, len([e for e in flat if e[0] == "spawn"]), sig)


def check_ka1_e2e(ctx: Ctx, cases: List[dict]) -> None:
    for case in cases:
        rng = random.Random(case["seed"])
        reads = _ka1_reads(case, rng)
        reqs = case["requests"]
        scripts = []
        for k, r in enumerate(reqs):
            a = case["apps"][k]
            steps: List[list] = [["recv_body"]] if a["when"] in ("after_body", "mid") else []
            steps += [["send", m] for m in HS.app_messages(r, a) if m is not None]
            scripts.append(steps)
        for worker in ("asyncio", "trio"):
            async def client(io):
                for chunk in reads:
                    await io.send(chunk)
                await io.sleep(0.5)
            res = R.RUNNERS[worker]({"keep_alive_max_requests": case["L"], "keep_alive_timeout": 3}, None, client, scripts, tail=6)
            ctx.evaluations += 1
            ctx.count("e2e.worker", worker)
            c2 = {**case, "layer": "e2e", "worker": worker}
            sig = {"family": "ka1", "layer": "e2e", "worker": worker}
            if res.get("stuck_session") or res["error"] or res["loop_errors"]:
                ctx.violation("handler_exception", c2, {"error": res["error"], "loop": res["loop_errors"]}, {**sig, "error": str(res["error"])})
                continue
            parsed = C.parse_h1(res["out"], [r["method"].upper() for r in reqs], server_closed=res["closed_at"] is not None)
            finals = [r for r in parsed["responses"] if not r.get("informational")]
            if len(reqs) >= max(case["L"], 1):
                ctx.distinct(["ka1", "e2e", worker, case["L"], len(reqs), case["split"]])
            _judge_ka1(ctx, c2, [(r["status"], r["headers"]) for r in finals], len(res["apps"]), sig)
            if len(finals) >= max(case["L"], 1) and res["closed_at"] is None:
                ctx.violation("not_closed_after_max", c2, {"responses": len(finals)}, sig)


# ==============================================================================================================
# HTTP/2: direct drive of H2Protocol
# ==============================================================================================================
def _h2_request_headers(idx: int, target_size: Optional[int] = None) -> List[Tuple[bytes, bytes]]:
    base = C.h2_headers("GET", f"/r{idx}")
    if target_size is None:
        return base
    return RH.padded_headers(base, target_size) or base


async def _drive_h2(cfg: dict, batches: List[List[List[Tuple[bytes, bytes]]]], h2c: bool = False, answer: bool = False,
                    push: Optional[List[List[list]]] = None, client: Optional[dict] = None) -> dict:
    """the real H2Protocol, one `handle(RawData)` per batch of HEADERS frames from a client that ignores the server;
    `h2c`: the connection is opened by `initiate(headers, settings)` (the HTTP/1.1 request of an `Upgrade: h2c` connection is
    served on stream 1); `answer`: after every read the applications of the streams it started send their response head and
    a first body chunk - `answered` lists the streams whose head reached the client.
    `push` (server push; the real send task runs then): `push[i]` = what the applications do after read i (`push[0]` of an h2c
    connection: after the upgrade, before the first read), a list of `["push", origin, n]` (the application of `origin` sends n
    `http.response.push` messages) and `["end", origin]` (it sends its complete response); `origin` = `"c<k>"`, the k-th stream
    opened by the client that reached an application, or `"p<k>"`, the k-th pushed stream.  Every push message is one op
    `{"op": "push", "accepted": did h2's push_stream return}` with an observation of its own.  `client`: what the client says
    in its SETTINGS about push (`enable_push`)."""
    import h2.connection
    import h2.events
    from hypercorn.asyncio.worker_context import WorkerContext
    from hypercorn.config import Config
    from hypercorn.events import Closed, RawData
    from hypercorn.protocol.h2 import H2Protocol
    from hypercorn.typing import ConnectionState
    config = Config()
    for k, v in cfg.items():
        setattr(config, k, v)
    spawned: List[int] = []
    app_sends: Dict[int, Any] = {}
    scopes: Dict[int, dict] = {}
    bg: List[Any] = []
    push_calls: List[Any] = []
    out = bytearray()
    closed = [False]
    taps: List[Any] = []

    class TG:
        async def spawn_app(self, app, config_, scope, send):
            spawned.append(send.__self__.stream_id)
            app_sends[send.__self__.stream_id] = send
            scopes[send.__self__.stream_id] = {"method": scope["method"], "raw_path": bytes(scope["raw_path"]).decode("latin1"), "http_version": scope["http_version"],
                                               "headers": [[bytes(n).decode("latin1"), bytes(v).decode("latin1")] for n, v in scope["headers"]]}

            async def app_put(message):
                pass
            return app_put

        def spawn(self, func, *a):
            # the send task is not needed where no application completes a response; with server push (responses of pushed
            # streams are completed) it is the real one
            if push is not None:
                bg.append(asyncio.ensure_future(func(*a)))

    async def send(ev):
        if isinstance(ev, RawData):
            out.extend(ev.data)
        elif isinstance(ev, Closed):
            closed[0] = True

    H = h2.connection.H2Connection
    o_recv, o_close = H.receive_data, H.close_connection

    def receive_data(conn, data):
        if conn.config.client_side:
            return o_recv(conn, data)
        try:
            evs = o_recv(conn, data)
        except Exception as e:  # noqa
            taps.append(["raise", type(e).__name__])
            raise
        taps.append(["events", [e.stream_id for e in evs if isinstance(e, h2.events.RequestReceived)]])
        return evs

    def close_connection(conn, *a, **k):
        if not conn.config.client_side:
            taps.append(["close_connection"])
        return o_close(conn, *a, **k)

    o_push = H.push_stream

    def push_stream(conn, *a, **k):
        if conn.config.client_side:
            return o_push(conn, *a, **k)
        try:
            r = o_push(conn, *a, **k)
        except Exception as e:  # noqa
            push_calls.append(type(e).__name__)
            raise
        push_calls.append(None)
        return r

    H.receive_data, H.close_connection, H.push_stream = receive_data, close_connection, push_stream
    obs: List[dict] = []
    try:
        proto = H2Protocol(object(), config, WorkerContext(None), TG(), ConnectionState({}), False, ("127.0.0.1", 1), ("10.0.0.1", 80), send)
        cl = RH.RogueH2(upgrade=h2c, **(client or {}))
        if h2c:
            await proto.initiate([(b":method", b"GET"), (b":scheme", b"http"), (b":authority", b"x"), (b":path", b"/up"), (b"host", b"x")], "")
        else:
            await proto.initiate()
        await proto.handle(RawData(cl.out()))
        cl.feed(bytes(out))
        del out[:]
        settings = dict(cl.settings)
        ops = []
        answered_by: set = set()

        async def answer_new() -> None:
            for sid_ in list(spawned):
                if sid_ in answered_by:
                    continue
                answered_by.add(sid_)
                try:
                    await app_sends[sid_]({"type": "http.response.start", "status": 200, "headers": []})
                    await app_sends[sid_]({"type": "http.response.body", "body": b"ok", "more_body": True})
                except Exception:  # noqa - judged by what reaches the client
                    pass
        pre = {"served": list(spawned), "goaways": [], "up_closed": closed[0], "kar": proto.keep_alive_requests}
        if answer and h2c:
            await answer_new()
            cl.feed(bytes(out))
            del out[:]
        push_log: List[dict] = []
        ended: set = set()

        def snapshot(kind: str) -> dict:
            return {"op": kind, "served": [s_ for s_ in spawned if s_ % 2 == 1], "pushed": [s_ for s_ in spawned if s_ % 2 == 0],
                    "goaways": [[g["last"], g["code"]] for g in cl.goaways], "up_closed": closed[0], "kar": proto.keep_alive_requests,
                    "taps": list(taps), "handler_exception": None, "answered": []}

        async def settle() -> None:
            for _ in range(8):
                await asyncio.sleep(0)
            cl.feed(bytes(out))
            del out[:]

        def origin_sid(origin: str) -> Optional[int]:
            pool = [s_ for s_ in spawned if s_ % 2 == (1 if origin[0] == "c" else 0)]
            k_ = int(origin[1:])
            return pool[k_] if k_ < len(pool) else None

        async def app_actions(actions: List[list], after_read: int) -> None:
            for act in actions:
                sid_ = origin_sid(act[1])
                if sid_ is None:
                    continue
                if act[0] == "end":
                    raised = None
                    try:
                        await app_sends[sid_]({"type": "http.response.start", "status": 200, "headers": [(b"x-sid", b"%d" % sid_)]})
                        await app_sends[sid_]({"type": "http.response.body", "body": b"pushed" if sid_ % 2 == 0 else b"ok"})
                    except Exception as e:  # noqa - judged by what reaches the client
                        raised = type(e).__name__
                    await settle()
                    ended.add(sid_)
                    push_log.append({"what": "end", "sid": sid_, "raised": raised, "after_read": after_read})
                    if sid_ % 2 == 1:
                        ops.append({"op": "done", "sid": sid_})
                        obs.append(snapshot("done"))
                    continue
                for j in range(act[2]):
                    before, n_calls, n_prom, goaway_before = list(spawned), len(push_calls), len(cl.promises), bool(cl.goaways)
                    path = f"/pushed/{sid_}/{len(push_log)}"
                    raised = None
                    try:
                        await app_sends[sid_]({"type": "http.response.push", "path": path, "headers": [(b"x-from", b"%d" % sid_)]})
                    except Exception as e:  # noqa
                        raised = type(e).__name__
                    await settle()
                    called = len(push_calls) > n_calls
                    accepted = called and push_calls[-1] is None
                    ops.append({"op": "push", "accepted": accepted})
                    o_ = snapshot("push")
                    obs.append(o_)
                    push_log.append({"what": "push", "sid": sid_, "path": path, "raised": raised, "called": called, "accepted": accepted,
                                     "refusal": push_calls[-1] if called else None, "origin_ended": sid_ in ended, "after_read": after_read,
                                     "new_instances": [x for x in spawned if x not in before],
                                     "new_promises": [[p_["parent"], p_["promised"]] for p_ in cl.promises[n_prom:]],
                                     "conn_closed_before": goaway_before,
                                     "open_pushed_before": len([x for x in before if x % 2 == 0 and x not in ended])})
        if push is not None and h2c and push:
            await app_actions(push[0], -1)
        for batch in batches:
            if closed[0]:
                break
            frames = []
            for hs in batch:
                sid = cl.request(hs)
                frames.append({"sid": sid, "fields": [[len(n), len(v)] for n, v in hs]})
            taps.clear()
            exc = None
            try:
                await proto.handle(RawData(cl.out()))
            except Exception as e:  # noqa
                exc = type(e).__name__
            for _ in range(4):
                await asyncio.sleep(0)
            if answer:
                await answer_new()
            cl.feed(bytes(out))
            del out[:]
            ops.append({"op": "read", "frames": frames})
            if push is not None:
                o_ = snapshot("read")
                o_["handler_exception"] = exc
                obs.append(o_)
                k_ = len([x for x in ops if x["op"] == "read"]) - (0 if h2c else 1)
                if k_ < len(push) and not closed[0]:
                    await app_actions(push[k_], k_ - (1 if h2c else 0))
                continue
            obs.append({"served": list(spawned), "goaways": [[g["last"], g["code"]] for g in cl.goaways], "up_closed": closed[0],
                        "kar": proto.keep_alive_requests, "taps": list(taps), "handler_exception": exc,
                        "answered": sorted(s_ for s_ in answered_by if cl.streams.get(s_, {}).get("status") == 200)})
        return {"ops": ops, "obs": obs, "settings": {str(k): v for k, v in settings.items()}, "parse_error": cl.parse_error, "pre": pre,
                "answered_by": sorted(answered_by), "push_log": push_log, "scopes": scopes,
                "client": {"promises": [{"parent": p_["parent"], "promised": p_["promised"], "headers": [[n.decode("latin1"), v.decode("latin1")] for n, v in p_["headers"]]}
                                        for p_ in cl.promises],
                           "streams": {k_: dict(v) for k_, v in cl.streams.items()}}}
    finally:
        H.receive_data, H.close_connection, H.push_stream = o_recv, o_close, o_push
        for t_ in bg:
            t_.cancel()
        for t_ in bg:
            try:
                await t_
            except BaseException:  # noqa
                pass


def _h2_model_cfg(cfg: dict) -> dict:
    return {"keep_alive_max": cfg.get("keep_alive_max_requests", DEFAULTS.get("keep_alive_max_requests", 1000)),
            "max_streams": cfg.get("h2_max_concurrent_streams", DEFAULTS.get("h2_max_concurrent_streams", 100)),
            "max_header_list": cfg.get("h2_max_header_list_size", DEFAULTS.get("h2_max_header_list_size", 65536))}


def _h2_batches(case: dict) -> List[List[List[Tuple[bytes, bytes]]]]:
    out, idx = [], 0
    for b in case["batches"]:
        batch = []
        for size in (b if isinstance(b, list) else [None] * b):
            batch.append(_h2_request_headers(idx, size))
            idx += 1
        out.append(batch)
    return out


def _judge_h2(ctx: Ctx, case: dict, cfgm: dict, per_read: List[dict], batches, settings: Dict[str, int], sig: dict) -> None:
    """per_read[i] = {"served": [sid…] so far, "goaways": [[last, code]…] so far, "up_closed": bool} after read i"""
    L, M, HL = cfgm["keep_alive_max"], cfgm["max_streams"], cfgm["max_header_list"]
    # advertised settings
    want = {"3": M, "6": HL, "8": 1}
    got = {k: settings.get(k) for k in want}
    if got != want:
        ctx.violation("settings_not_advertised", case, {"want": want, "got": got}, sig)
    sid = 1
    sizes: Dict[int, int] = {}
    read_of: Dict[int, int] = {}
    if case.get("h2c"):
        # the HTTP/1.1 request of the upgrade is request number one, served on stream 1 before the first HTTP/2 read
        sizes[1], read_of[1], sid = 0, -1, 3
        sig = {**sig, "opening": "h2c", "limit": cfgm["keep_alive_max"]}
    for i, batch in enumerate(batches):
        for hs in batch:
            sizes[sid] = RH.header_list_size(hs)
            read_of[sid] = i
            sid += 2
    final = per_read[-1] if per_read else {"served": [], "goaways": [], "up_closed": False}
    served = final["served"]
    # header blocks beyond the limit are refused
    for s in served:
        if sizes.get(s, 0) > HL:
            ctx.violation("oversized_header_block_served", case, {"sid": s, "size": sizes[s], "limit": HL}, {**sig, "limit_kind": "header_list"})
    # streams beyond the concurrent-stream limit never reach an application (no stream completes in these sessions unless `done`)
    if not case.get("streams_complete") and len(served) > M:
        ctx.violation("excess_stream_served", case, {"served": served, "limit": M}, {**sig, "limit_kind": "streams"})
    # request maximum
    first_goaway_read = next((i for i, o in enumerate(per_read) if o["goaways"]), None)
    single = all(len(b) <= 1 for b in batches)
    if len(served) > L + 1:
        ctx.violation("h2_served_beyond_max" if single else "h2_served_beyond_max_in_one_read", case,
                      {"served": served, "L": L, "batches": [len(b) for b in batches]}, {**sig, "batching": "single" if single else "batched"})
    if len(served) >= L + 1:
        trip = served[L]                       # request number L+1
        r = read_of.get(trip)
        if first_goaway_read is None or (r is not None and first_goaway_read > r):
            ctx.violation("goaway_missing_at_max", case, {"trip_sid": trip, "read": r, "first_goaway_read": first_goaway_read}, sig)
    for g in final["goaways"]:
        above = [s for s in served if s > g[0]]
        if above:
            ctx.violation("served_above_last_stream_id", case, {"goaway": g, "served_above": above}, sig)
    if first_goaway_read is not None:
        later = [s for s in served if read_of.get(s, -1) > first_goaway_read]
        if later:
            ctx.violation("served_after_goaway", case, {"first_goaway_read": first_goaway_read, "served_later": later}, sig)


def _judge_answers(ctx: Ctx, case: dict, cfgm: dict, served: List[int], answered: List[int], sig: dict) -> None:
    """every served request's response must be handed to the client (its application sent one); `when` tells a loss on a
    connection whose request maximum has been tripped (close_connection() has run: the request at the maximum and every
    stream still unanswered at that moment, known finding F48) from a loss on a connection below its maximum"""
    L = cfgm["keep_alive_max"]
    for idx, s_ in enumerate(served):
        if s_ not in answered:
            ctx.violation("response_of_served_request_lost", case, {"sid": s_, "request_number": idx + 1, "L": L, "served": served, "answered": answered},
                          {**sig, "proto": "2", "when": "request_max_tripped" if len(served) >= L + 1 else "below_request_max"})


def gen_h2(ctx: Ctx) -> List[dict]:
    rng = ctx.rng
    cases: List[dict] = []
    dka = DEFAULTS.get("keep_alive_max_requests", 1000)
    # request maximum: one HEADERS per read, then batched
    for L in [0, 1, 2, 3, 5]:
        for n in sorted({max(1, L), L + 1, L + 2, L + 4}):
            cases.append({"family": "ka2", "cfg": {"keep_alive_max_requests": L}, "batches": [1] * n})
        cases.append({"family": "ka2", "cfg": {"keep_alive_max_requests": L}, "batches": [L + 3]})
        cases.append({"family": "ka2", "cfg": {"keep_alive_max_requests": L}, "batches": [max(1, L), 3, 1]})
    cases.append({"family": "ka2", "cfg": {"keep_alive_max_requests": dka}, "batches": [1, 2, 1]})
    # the same limit on a connection opened by `Upgrade: h2c` (the upgrade request is request number one), and sessions whose
    # applications answer: is the response of every served request handed to the client?
    for L in [0, 1, 2, 3]:
        cases.append({"family": "ka2", "cfg": {"keep_alive_max_requests": L}, "batches": [1] * (L + 2), "h2c": True, "answer": True})
        cases.append({"family": "ka2", "cfg": {"keep_alive_max_requests": L}, "batches": [1] * (L + 2), "answer": True})
    cases.append({"family": "ka2", "cfg": {"keep_alive_max_requests": 2}, "batches": [2, 2], "h2c": True, "answer": True})
    for _ in range(ctx.budget(10, 300)):
        L = rng.choice([0, 1, 2, 3, 4, 6])
        cases.append({"family": "ka2", "cfg": {"keep_alive_max_requests": L}, "batches": [rng.choice([1, 1, 1, 2, 3]) for _ in range(rng.randint(1, L + 3))]})
    # concurrent streams: one too many, singly and in one read
    dms = DEFAULTS.get("h2_max_concurrent_streams", 100)
    for M in [0, 1, 2, 3, dms]:
        cases.append({"family": "h2lim", "cfg": {"h2_max_concurrent_streams": M}, "batches": [1] * (min(M, 8) + 1) if M != dms else [dms, 1]})
        cases.append({"family": "h2lim", "cfg": {"h2_max_concurrent_streams": M}, "batches": [M + 1] if M != dms else [dms + 1]})
        if M not in (0, dms):
            cases.append({"family": "h2lim", "cfg": {"h2_max_concurrent_streams": M}, "batches": [M - 1, 1] if M > 1 else [1]})
    # header list: size-1 / exactly / +1 around each limit (base header list is ~170 bytes: tiny limits refuse everything)
    dhl = DEFAULTS.get("h2_max_header_list_size", 65536)
    for HL in [0, 1, 2, 200, 1000, 4096, dhl, dhl + 5000]:
        for delta in (-1, 0, 1):
            cases.append({"family": "h2lim", "cfg": {"h2_max_header_list_size": HL}, "batches": [[max(HL + delta, 0)]]})
        cases.append({"family": "h2lim", "cfg": {"h2_max_header_list_size": HL}, "batches": [[max(HL, 300) + 777]]})
    for _ in range(ctx.budget(6, 200)):
        HL = rng.choice([150, 171, 300, 999, 5000, 20000, 70000])
        cases.append({"family": "h2lim", "cfg": {"h2_max_header_list_size": HL}, "batches": [[rng.choice([HL - 1, HL, HL + 1, HL + rng.randint(2, 3000), max(0, HL - rng.randint(2, 100))])]]})
    return cases


def check_h2_direct(ctx: Ctx, cases: List[dict]) -> None:
    model_reqs = []
    for case in cases:
        batches = _h2_batches(case)
        res = asyncio.run(_drive_h2(case["cfg"], batches, h2c=bool(case.get("h2c")), answer=bool(case.get("answer"))))
        ctx.evaluations += 1
        ctx.traces_validated += 1
        cfgm = _h2_model_cfg(case["cfg"])
        c2 = {**case, "layer": "direct"}
        sig = {"family": case["family"], "layer": "direct"}
        key = next(iter(case["cfg"]))
        ctx.count(f"{case['family']}.limit", f"{key}={case['cfg'][key]}")
        ctx.count("h2.batching", "single" if all(len(b) <= 1 for b in batches) else "batched")
        exc = [o["handler_exception"] for o in res["obs"] if o["handler_exception"]]
        if exc or res["parse_error"]:
            ctx.violation("handler_exception", c2, {"exc": exc, "parse": res["parse_error"]}, {**sig, "error": (exc or [res["parse_error"]])[0]})
            continue
        ctx.distinct([case["family"], "direct", case["cfg"], [len(b) for b in batches], [RH.header_list_size(h) for b in batches for h in b][:3]])
        ctx.sample({"family": case["family"], "cfg": case["cfg"], "batches": [len(b) for b in batches]}, cap=4)
        _judge_h2(ctx, c2, cfgm, res["obs"], batches, res["settings"], sig)
        ctx.count("h2.opening", "h2c" if case.get("h2c") else "h2")
        if case.get("answer") and res["obs"]:
            _judge_answers(ctx, c2, cfgm, res["obs"][-1]["served"], res["obs"][-1]["answered"], sig)
        model_reqs.append(({"cmd": "c18.h2", "cfg": cfgm, "ops": res["ops"], "h2c": bool(case.get("h2c"))}, c2, res))
    out = ctx.model([m for m, _, _ in model_reqs])
    if out is None:
        return
    for (rq, c2, res), m in zip(model_reqs, out):
        ctx.disagreements_checked += 1
        mo = m.get("ok")
        if mo is None:
            ctx.disagree("c18.h2", c2, m, None)
            continue
        adv = {str(k): v for k, v in mo["advertised"]}
        if any(res["settings"].get(k) != v for k, v in adv.items()):
            ctx.disagree("c18.h2.settings", c2, adv, res["settings"])
        for i, (ms, o) in enumerate(zip(mo["states"], res["obs"])):
            impl = {k: o[k] for k in ("served", "goaways", "up_closed", "kar")}
            mod = {k: ms[k] for k in ("served", "goaways", "up_closed", "kar")}
            if impl != mod:
                ctx.disagree("c18.h2", {**c2, "read": i}, mod, {**impl, "taps": o["taps"]})
                break
            if c2.get("answer"):
                # every application answered right after the read that started it: the heads that reached the client so far are the
                # streams the model says could be answered in the state after the read that served them
                can = set(ms.get("deliverable", []))
                new = [x for x in ms["served"] if x not in (mo["states"][i - 1]["served"] if i else (res["pre"]["served"]))]
                for x in new:
                    if (x in o["answered"]) != (x in can):
                        ctx.disagree("c18.h2.deliverable", {**c2, "read": i}, {"sid": x, "deliverable": x in can}, {"sid": x, "answered": x in o["answered"]})


def check_h2_e2e(ctx: Ctx, cases: List[dict]) -> None:
    for case in cases:
        if case.get("h2c"):
            continue                   # the h2c opening is driven directly (and end to end by the recycle family / C13)
        batches = _h2_batches(case)
        cfgm = _h2_model_cfg(case["cfg"])
        hold = case["family"] == "h2lim" and "h2_max_concurrent_streams" in case["cfg"]
        for worker in ("asyncio", "trio"):
            async def client(io):
                cl = RH.RogueH2()
                await io.send(cl.out())
                cl.feed(io.take())
                settings = dict(cl.settings)
                per = []
                for batch in batches:
                    if io.closed_at is not None:
                        break
                    for hs in batch:
                        cl.request(hs)
                    await io.send(cl.out())
                    cl.feed(io.take())
                    per.append({"goaways": [[g["last"], g["code"]] for g in cl.goaways], "up_closed": io.closed_at is not None})
                await io.sleep(0.4)
                cl.feed(io.take())
                return {"per": per, "settings": {str(k): v for k, v in settings.items()}, "summary": cl.summary()}
            res = R.RUNNERS[worker]({**case["cfg"], "keep_alive_timeout": 3}, "h2", client, [HOLD_SCRIPT if hold else OK_SCRIPT[1:]], tail=8)
            ctx.evaluations += 1
            ctx.count("e2e.worker", worker)
            c2 = {**case, "layer": "e2e", "worker": worker}
            sig = {"family": case["family"], "layer": "e2e", "worker": worker}
            cr = res.get("client_result")
            if res.get("stuck_session") or res["error"] or res["loop_errors"] or cr is None or cr["summary"]["parse_error"]:
                ctx.violation("handler_exception", c2, {"error": res["error"], "loop": res["loop_errors"], "client": res.get("client_error"),
                                                        "parse": cr and cr["summary"]["parse_error"]}, {**sig, "error": str(res["error"] or res.get("client_error"))})
                continue
            # which request an application instance belongs to: path /r<idx> -> stream 2*idx+1; per read: instances started so far
            starts = sorted((a["t_start"], 2 * int(a["scope"]["path"][2:]) + 1) for a in res["apps"])
            served_all = [s for _, s in starts]
            per = []
            for i, o in enumerate(cr["per"]):
                upto = sum(len(b) for b in batches[:i + 1])
                per.append({**o, "served": [s for s in served_all if (s - 1) // 2 < upto]})
            if per:
                per[-1]["goaways"] = cr["summary"]["goaways"] and [[g["last"], g["code"]] for g in cr["summary"]["goaways"]] or per[-1]["goaways"]
                per[-1]["served"] = served_all
            ctx.distinct([case["family"], "e2e", worker, case["cfg"], [len(b) for b in batches]])
            _judge_h2(ctx, c2, cfgm, per, batches, cr["settings"], sig)
            # F48 (C02/C09 territory, recorded only): is the response of the request that trips the maximum delivered?
            L = cfgm["keep_alive_max"]
            if case["family"] == "ka2" and len(served_all) >= L + 1:
                st = cr["summary"]["streams"].get(str(served_all[L]))
                ctx.count("h2.response_of_request_at_max", "delivered" if st and st["ended"] else ("reset" if st and st["reset"] is not None else "lost"))
            if case["family"] == "ka2" and not hold:
                # every application sends a complete response: it must reach the client (known finding F48 for the request at the maximum)
                done = [s_ for s_ in served_all if (cr["summary"]["streams"].get(str(s_)) or {}).get("ended")]
                _judge_answers(ctx, c2, cfgm, served_all, done, sig)


# ==============================================================================================================
# family: push (HTTP/2 server push: what `http.response.push` does to the request counter and to the connection)
# ==============================================================================================================
# Set to False to leave the family out (the generator and the judges stay in place).
PUSH_FAMILY = True
PUSH_SCRIPT = [["recv_body"], ["send", {"type": "http.response.push", "path": "/pushed", "headers": [(b"x-p", b"1")]}]] + OK_SCRIPT[1:]
PUSH2_SCRIPT = [["recv_body"], ["send", {"type": "http.response.push", "path": "/pushed", "headers": [(b"x-p", b"1")]}],
                ["send", {"type": "http.response.push", "path": "/pushed", "headers": [(b"x-p", b"2")]}]] + OK_SCRIPT[1:]


def gen_push(ctx: Ctx) -> List[dict]:
    """applications of served streams send `http.response.push`: accepted (client default), refused because the client said
    ENABLE_PUSH = 0, refused because the pushing request is itself a pushed one, refused because close_connection() has run,
    sent after the stream's own response has ended (raised into the application, never reaches h2); pushed responses are
    completed or left open; around every request maximum the pushes move (each accepted push counts twice)"""
    rng = ctx.rng
    cases: List[dict] = []

    def case(L: int, batches: List[int], push: List[List[list]], enable: Optional[bool] = None, h2c: bool = False) -> None:
        cases.append({"family": "push", "cfg": {"keep_alive_max_requests": L}, "batches": batches, "push": push, "h2c": h2c,
                      "client": {} if enable is None else {"enable_push": enable}})

    for enable in (None, True, False):
        # one request, 1..3 pushes; the pushed stream pushes too (always refused); pushed responses completed / left open
        for n in (1, 2, 3):
            case(1000, [1], [[["push", "c0", n], ["push", "p0", 1], ["end", "p0"], ["push", "c0", 1], ["end", "c0"], ["push", "c0", 1]]], enable)
        # positions: the first / a middle / the last request of a connection pushes, one frame per read and batched
        for pos in (0, 1, 2):
            case(1000, [1, 1, 1], [[["push", f"c{pos}", 1]] if i == pos else [] for i in range(3)], enable)
        case(1000, [3], [[["push", "c0", 1], ["push", "c2", 2], ["push", "p1", 1]]], enable)
        case(1000, [2, 2], [[["push", "c1", 1]], [["push", "c0", 1], ["push", "c3", 1], ["end", "p0"], ["end", "p1"]]], enable)
    # the request maximum: L client requests + pushes before / at / after the request that trips it
    for L in (0, 1, 2, 3, 5):
        for enable in (None, False):
            case(L, [1] * (L + 3), [[["push", "c0", 1]]] + [[] for _ in range(L + 2)], enable)
            case(L, [1] * (L + 3), [[["push", f"c{i}", 1]] for i in range(L + 3)], enable)
            case(L, [1] * (L + 2), [[] for _ in range(L)] + [[["push", f"c{L}", 2]], [["push", f"c{L}", 1]]], enable)
        case(L, [max(1, L), 2, 1], [[["push", "c0", L + 1]], [["push", "c0", 1]], []])
    # the connection opened by `Upgrade: h2c`: stream 1 (the upgrade request) pushes before any HTTP/2 read
    for L in (0, 1, 2, 4):
        for enable in (None, False):
            case(L, [1] * (L + 1), [[["push", "c0", 1]], [["push", "c1", 1]]] + [[] for _ in range(L)], enable, h2c=True)
    for _ in range(ctx.budget(40, 600)):
        L = rng.choice([0, 1, 2, 3, 4, 6, 1000])
        batches = [rng.choice([1, 1, 1, 2, 3]) for _ in range(rng.randint(1, min(L, 4) + 2))]
        push, total = [], 0
        h2c = rng.random() < 0.2
        for i in range(len(batches) + (1 if h2c else 0)):
            total += batches[i - (1 if h2c else 0)] if i >= (1 if h2c else 0) else 1
            acts = []
            for _ in range(rng.choice([0, 1, 1, 2])):
                kind = rng.choice(["push", "push", "push", "end"])
                origin = rng.choice(["c", "c", "c", "p"]) + str(rng.randrange(max(1, total)))
                acts.append(["push", origin, rng.choice([1, 1, 2])] if kind == "push" else ["end", origin])
            push.append(acts)
        case(L, batches, push, rng.choice([None, None, True, False]), h2c)
    return cases


def _judge_push(ctx: Ctx, case: dict, cfgm: dict, res: dict, sig: dict) -> None:
    """the statement on the implementation's observation of a session with pushes: (1) the request maximum still holds for the
    requests of the client, and the client is told to stop NO LATER than it would be were every application instance - pushed
    ones included - counted once (pushes count twice: earlier is allowed, later is not); (2) a PUSH_PROMISE reaches the client
    exactly when the push is one the protocol allows (the client did not disable push, the pushing request is one of the
    client's, its response is still open, close_connection() has not run), it names the next even stream, and exactly one
    application instance (GET, the pushed path, HTTP/2) is started for it; a refused push starts nothing and writes nothing"""
    L = cfgm["keep_alive_max"]
    enable = (case.get("client") or {}).get("enable_push")
    if case.get("h2c"):
        sig = {**sig, "opening": "h2c", "limit": L}
    # (2) per push message
    want_next = 2
    for e in res["push_log"]:
        if e["what"] != "push":
            continue
        allowed = enable is not False and e["sid"] % 2 == 1 and not e["origin_ended"] and not e["conn_closed_before"]
        why = ("client_disabled_push" if enable is False else "pushed_from_pushed_stream" if e["sid"] % 2 == 0 else
               "after_own_response_ended" if e["origin_ended"] else "after_close_connection" if e["conn_closed_before"] else "allowed")
        ctx.count("push.message", why)
        psig = {**sig, "push": why}
        if e["origin_ended"]:
            # a message after the end of the response is invalid (C12): raised into the application, nothing else happens
            if e["raised"] is None:
                ctx.violation("push_after_response_end_accepted", case, e, psig)
        elif e["raised"] is not None:
            # a push the protocol cannot perform is ignored (ASGI: "if the client does not support push, ignore"), not raised
            ctx.violation("push_raised_into_application", case, e, psig)
        if allowed:
            if e["new_promises"] != [[e["sid"], want_next]] or e["new_instances"] != [want_next]:
                ctx.violation("push_not_performed", case, {**e, "want_promised": want_next}, psig)
            else:
                sc = res["scopes"].get(want_next) or {}
                pr = next((p_ for p_ in res["client"]["promises"] if p_["promised"] == want_next), {"headers": []})
                hd = dict((n, v) for n, v in pr["headers"])
                if (sc.get("method"), sc.get("raw_path"), sc.get("http_version")) != ("GET", e["path"], "2") or hd.get(":method") != "GET" or hd.get(":path") != e["path"]:
                    ctx.violation("pushed_request_differs", case, {"push": e, "scope": sc, "promise": pr}, psig)
                want_next += 2
        elif e["new_promises"] or e["new_instances"]:
            ctx.violation("refused_push_performed", case, e, psig)
        if e["accepted"] != allowed:
            # h2's own answer (the model's oracle input) against the protocol rule as the harness computes it
            ctx.violation("push_stream_outcome_unexpected", case, e, psig)
    # pushed responses that were completed reached the client on the promised stream
    for e in res["push_log"]:
        if e["what"] == "end" and e["sid"] % 2 == 0 and not e.get("conn_closed"):
            st = res["client"]["streams"].get(e["sid"]) or {}
            closed_before = any(g for g in (res["obs"][-1]["goaways"] if res["obs"] else []))
            ctx.count("push.response", "delivered" if st.get("ended") and st.get("status") == 200 else ("lost_after_goaway" if closed_before else "lost"))
            if not (st.get("ended") and st.get("status") == 200) and not closed_before:
                ctx.violation("pushed_response_lost", case, {"sid": e["sid"], "client": st}, sig)
    # (1) "never later": the read in which the number of instances started (served + pushed, each once) first exceeds L by a
    # request of the client must be answered by a GOAWAY in that read
    reads = [o for o in res["obs"] if o["op"] == "read"]
    prev_total = len(res["pre"]["served"])
    first_goaway = next((i for i, o in enumerate(reads) if o["goaways"]), None)
    seen_before: List[int] = list(res["pre"]["served"])
    idx = -1
    for o in res["obs"]:
        if o["op"] == "read":
            idx += 1
            new_client = [x for x in o["served"] if x not in seen_before]
            if new_client and prev_total + len(new_client) > L and (first_goaway is None or first_goaway > idx):
                ctx.violation("goaway_missing_at_max", case, {"read": idx, "instances_before": prev_total, "new": new_client, "L": L, "first_goaway_read": first_goaway},
                              {**sig, "counting": "pushes_once"})
                break
        seen_before = list(o["served"])
        prev_total = len(o["served"]) + len(o["pushed"])
    if first_goaway is not None:
        at = reads[first_goaway]
        once = len(at["served"]) + len(at["pushed"])
        ctx.count("push.goaway_vs_count_once", "earlier" if once <= L and at["pushed"] else "same")


def check_push_direct(ctx: Ctx, cases: List[dict]) -> None:
    model_reqs = []
    for case in cases:
        batches = _h2_batches(case)
        res = asyncio.run(_drive_h2(case["cfg"], batches, h2c=bool(case.get("h2c")), push=case["push"], client=case.get("client") or {}))
        ctx.evaluations += 1
        ctx.traces_validated += 1
        cfgm = _h2_model_cfg(case["cfg"])
        c2 = {**case, "layer": "direct"}
        sig = {"family": "push", "layer": "direct"}
        ctx.count("push.limit", f"keep_alive_max_requests={case['cfg']['keep_alive_max_requests']}")
        ctx.count("push.client", str((case.get("client") or {}).get("enable_push")))
        ctx.count("h2.opening", "h2c" if case.get("h2c") else "h2")
        exc = [o["handler_exception"] for o in res["obs"] if o["handler_exception"]]
        if exc or res["parse_error"]:
            ctx.violation("handler_exception", c2, {"exc": exc, "parse": res["parse_error"]}, {**sig, "error": (exc or [res["parse_error"]])[0]})
            continue
        kinds = sorted({("accepted" if e["accepted"] else (e["refusal"] or e["raised"] or "not_called")) for e in res["push_log"] if e["what"] == "push"})
        ctx.distinct(["push", "direct", case["cfg"], case["batches"], case.get("client"), bool(case.get("h2c")), kinds, len(res["push_log"])])
        ctx.sample({"family": "push", "cfg": case["cfg"], "batches": case["batches"], "push": case["push"], "client": case.get("client")}, cap=6)
        reads = [o for o in res["obs"] if o["op"] == "read"]
        _judge_h2(ctx, {**c2, "streams_complete": True}, cfgm, reads, batches, res["settings"], sig)
        _judge_push(ctx, c2, cfgm, res, sig)
        model_reqs.append(({"cmd": "c18.h2", "cfg": cfgm, "ops": res["ops"], "h2c": bool(case.get("h2c"))}, c2, res))
    out = ctx.model([m for m, _, _ in model_reqs])
    if out is None:
        return
    for (rq, c2, res), m in zip(model_reqs, out):
        ctx.disagreements_checked += 1
        mo = m.get("ok")
        if mo is None or len(mo["states"]) != len(res["obs"]):
            ctx.disagree("c18.h2.push", c2, m, None)
            continue
        for i, (ms, o) in enumerate(zip(mo["states"], res["obs"])):
            impl = {k: o[k] for k in ("served", "pushed", "goaways", "up_closed", "kar")}
            mod = {k: ms[k] for k in ("served", "pushed", "goaways", "up_closed", "kar")}
            if impl != mod:
                ctx.disagree("c18.h2.push", {**c2, "op": i, "kind": o["op"]}, mod, {**impl, "ops": rq["ops"][:i + 1][-3:]})
                break


def gen_push_e2e(ctx: Ctx) -> List[dict]:
    out = []
    for L, n_req, script, enable in [(1000, 2, "push1", None), (1000, 2, "push1", False), (1000, 1, "push2", None), (3, 3, "push1", None),
                                      (3, 3, "push1", False), (0, 2, "push1", None)] + ([(2, 3, "push2", None), (1, 3, "push1", True)] if ctx.thorough else []):
        out.append({"family": "push", "cfg": {"keep_alive_max_requests": L}, "batches": [1] * n_req, "client": {} if enable is None else {"enable_push": enable},
                    "script": script})
    return out


def check_push_e2e(ctx: Ctx, cases: List[dict]) -> None:
    """the same through the real TCPServer of both workers: every instance runs a script that pushes once (or twice) before it
    answers, so the pushed instances push too (refused); the client reads PUSH_PROMISEs, responses and GOAWAYs"""
    for case in cases:
        L = case["cfg"]["keep_alive_max_requests"]
        enable = (case.get("client") or {}).get("enable_push")
        script = PUSH2_SCRIPT if case["script"] == "push2" else PUSH_SCRIPT
        batches = _h2_batches(case)
        per_req = 2 if script is PUSH2_SCRIPT else 1
        for worker in ("asyncio", "trio"):
            async def client(io):
                cl = RH.RogueH2(**case["client"])
                await io.send(cl.out())
                cl.feed(io.take())
                settings = dict(cl.settings)
                per = []
                for batch in batches:
                    if io.closed_at is not None:
                        break
                    for hs in batch:
                        cl.request(hs)
                    await io.send(cl.out())
                    await io.sleep(0.3)
                    cl.feed(io.take())
                    per.append({"goaways": [[g["last"], g["code"]] for g in cl.goaways], "up_closed": io.closed_at is not None,
                                "promises": [[p_["parent"], p_["promised"]] for p_ in cl.promises]})
                await io.sleep(0.4)
                cl.feed(io.take())
                return {"per": per, "settings": {str(k): v for k, v in settings.items()}, "summary": cl.summary()}
            res = R.RUNNERS[worker]({**case["cfg"], "keep_alive_timeout": 3}, "h2", client, [script], tail=8)
            ctx.evaluations += 1
            ctx.count("e2e.worker", worker)
            c2 = {**case, "layer": "e2e", "worker": worker}
            sig = {"family": "push", "layer": "e2e", "worker": worker}
            cr = res.get("client_result")
            if res.get("stuck_session") or res["error"] or res["loop_errors"] or cr is None or cr["summary"]["parse_error"]:
                ctx.violation("handler_exception", c2, {"error": res["error"], "loop": res["loop_errors"], "client": res.get("client_error"),
                                                        "parse": cr and cr["summary"]["parse_error"]}, {**sig, "error": str(res["error"] or res.get("client_error"))})
                continue
            ctx.distinct(["push", "e2e", worker, case["cfg"], case["batches"], case["client"], case["script"]])
            apps = sorted(res["apps"], key=lambda a: a["t_start"])
            served = [a for a in apps if a["scope"]["path"].startswith("/r")]
            pushed = [a for a in apps if a["scope"]["path"] == "/pushed"]
            promises = cr["summary"]["promises"]
            goaways = cr["summary"]["goaways"]
            streams = cr["summary"]["streams"]
            # the request maximum for the client's requests
            if len(served) > L + 1:
                ctx.violation("h2_served_beyond_max", c2, {"served": len(served), "L": L}, {**sig, "batching": "single"})
            # never later than counting every instance once: request k arrives with (k-1)*(1+pushes per request) instances before it
            for k, per in enumerate(cr["per"]):
                if k < len(served) and (k * (1 + (per_req if enable is not False else 0)) + 1) > L and not per["goaways"]:
                    ctx.violation("goaway_missing_at_max", c2, {"read": k, "L": L, "per": per}, {**sig, "counting": "pushes_once"})
                    break
            # pushes: exactly `per_req` per served request unless the client disabled push or the connection was closed for sending
            # by close_connection() before the application ran (F48 territory: requests served in the read of the GOAWAY)
            tripped = [int(p_) for g in goaways for p_ in [g["last"]]]
            for a in served:
                sid = 2 * int(a["scope"]["path"][2:]) + 1
                mine = [p_ for p_ in promises if p_["parent"] == sid]
                after_close = bool(tripped) and sid >= min(tripped)
                want = 0 if (enable is False or after_close) else per_req
                ctx.count("push.e2e", f"{'refused' if want == 0 else 'accepted'}:{len(mine)}")
                if len(mine) != want:
                    ctx.violation("push_not_performed" if len(mine) < want else "refused_push_performed", c2,
                                  {"sid": sid, "promises": mine, "want": want}, {**sig, "push": "client_disabled_push" if enable is False else ("after_close_connection" if after_close else "allowed")})
            if any(p_["parent"] % 2 == 0 for p_ in promises):
                ctx.violation("refused_push_performed", c2, promises, {**sig, "push": "pushed_from_pushed_stream"})
            if len(pushed) != len(promises) or sorted(p_["promised"] for p_ in promises) != [2 * (i + 1) for i in range(len(promises))]:
                ctx.violation("push_not_performed", c2, {"promises": promises, "pushed_instances": len(pushed)}, {**sig, "push": "allowed"})
            for p_ in promises:
                hd = dict((n, v) for n, v in p_["headers"])
                st = streams.get(str(p_["promised"])) or {}
                if hd.get(":method") != "GET" or hd.get(":path") != "/pushed":
                    ctx.violation("pushed_request_differs", c2, p_, sig)
                # the pushed response (every instance answers) arrives on the promised stream unless close_connection() came first
                if not (st.get("status") == 200 and st.get("ended")) and not goaways:
                    ctx.violation("pushed_response_lost", c2, {"promise": p_, "client": st}, sig)
            for a in pushed:
                # the pushing message of a pushed instance was refused without raising
                bad = [x for x in a["send"] if x[2] != "ok"]
                if bad and not goaways:
                    ctx.violation("push_raised_into_application", c2, bad, {**sig, "push": "pushed_from_pushed_stream"})


# ==============================================================================================================
# family: recycle
# ==============================================================================================================
def check_recycle_unit(ctx: Ctx) -> None:
    """the real WorkerContext.mark_request of both workers, n calls, against the statement and the model"""
    plans = [(m, n) for m in (None, 0, 1, 2, 3, 7) for n in ((m or 0) + 3,)]

    async def run_ctx(cls, m, n):
        c = cls(m)
        flags = []
        for _ in range(n):
            await c.mark_request()
            flags.append(c.terminate.is_set())
        return flags

    reqs = []
    for worker in ("asyncio", "trio"):
        for m, n in plans:
            if worker == "asyncio":
                from hypercorn.asyncio.worker_context import WorkerContext as WC
                flags = asyncio.run(run_ctx(WC, m, n))
            else:
                import trio
                from hypercorn.trio.worker_context import WorkerContext as WCT
                flags = trio.run(run_ctx, WCT, m, n)
            ctx.evaluations += 1
            ctx.count("recycle.unit", f"{worker}:max={m}")
            case = {"family": "recycle", "layer": "unit", "worker": worker, "max": m, "n": n}
            want = [(m is not None and k > m) for k in range(1, n + 1)]
            if flags != want:
                k = next(i for i, (a, b) in enumerate(zip(flags, want)) if a != b) + 1
                ctx.violation("terminate_iff_over_budget", case, {"flags": flags, "want": want, "first_difference_at_request": k},
                              {"family": "recycle", "layer": "unit", "worker": worker})
            ctx.distinct(["recycle", "unit", worker, m])
            reqs.append(({"cmd": "c18.recycle", "worker": worker, "base": m, "j": 0, "n": n}, case, flags))
    out = ctx.model([r for r, _, _ in reqs])
    if out is not None:
        for (rq, case, flags), m in zip(reqs, out):
            ctx.disagreements_checked += 1
            if m.get("ok") is None or m["ok"]["flags"] != flags:
                ctx.disagree("c18.recycle", case, m.get("ok", m), flags)


LS = ["recv", "startup_complete", "recv", "shutdown_complete", "return"]
REQ_GAP = 0.12


SEQ_VARIANTS = {"h2c": ["h2c"], "h2c+1": ["h2c+1"], "ws": ["ws"], "h2conns": ["h2"],
                "mixed": ["h1", "h2c", "h2", "ws", "h2c+1", "h1x2", "h2x2"], "mixed2": ["h2c", "h1", "h2c", "ws"]}


def recycle_scenario(worker: str, base: Optional[int], jitter: int, seed: int, variant: str) -> dict:
    """requests are offered strictly one after the other (each after the previous answer, plus a short pause), so the
    number of requests taken on before the listener goes away is exactly the index at which the exit began"""
    offered = (base if base is not None else 2) + jitter + 3
    pause = 0.06
    steps: List[list] = [["wait_listening", 5.0]]
    if variant == "conns":
        for i in range(offered):
            steps += [["connect"], ["get", f"/d/0/{i}"], ["read", 2.0], ["close"], ["sleep", pause]]
        clients = [{"id": 0, "kind": "h1", "steps": steps}]
    elif variant == "one":
        steps += [["connect"]]
        for i in range(offered):
            steps += [["get", f"/d/0/{i}"], ["read", 2.0], ["sleep", pause]]
        clients = [{"id": 0, "kind": "h1", "steps": steps}]
    elif variant in SEQ_VARIANTS:
        # requests that reach the worker over different kinds of connections (one WorkerContext counts them all): every
        # request of an `Upgrade: h2c` connection (the HTTP/1.1 request served on stream 1, then ordinary streams), WebSocket
        # handshakes, prior-knowledge HTTP/2, HTTP/1.1 with and without reuse
        kinds = SEQ_VARIANTS[variant]
        n, i = 0, 0
        while n < offered:
            k = kinds[i % len(kinds)]
            steps += [["conn", k, f"/d/0/{i}" if k != "ws" else "/ws"], ["sleep", pause]]
            n += 2 if k in ("h1x2", "h2x2", "h2c+1") else 1
            i += 1
        offered = n
        clients = [{"id": 0, "kind": "seq", "steps": steps}]
    else:
        steps += [["connect"]]
        for i in range(offered):
            steps += [["stream", f"/d/0/{i}"], ["pump_for", 0.2]]
        clients = [{"id": 0, "kind": "h2", "steps": steps + [["wait_close", 1.0]]}]
    trigger_at = 4.0 + 0.3 * offered
    return {"worker": worker, "lifespan": LS, "config": {"startup_timeout": 2.0, "shutdown_timeout": 0.4, "graceful_timeout": 0.4,
                                                           "max_requests": base, "max_requests_jitter": jitter},
            "rand_seed": seed, "clients": clients, "trigger_at": trigger_at, "observe_until": trigger_at + 4.0, "client_grace": 0.3,
            "family": "recycle", "layer": "worker", "variant": variant, "base": base, "jitter": jitter, "offered": offered}


def gen_recycle(ctx: Ctx) -> List[dict]:
    out = []
    seed0 = ctx.rng.randrange(1 << 20)
    for worker in ("asyncio", "trio"):
        for base in (None, 0, 1, 3):
            for jitter in (0, 2):
                for variant in ("conns", "one"):
                    out.append(recycle_scenario(worker, base, jitter, seed0, variant))
        for base in (0, 1):
            for s in range(ctx.budget(4, 24)):
                out.append(recycle_scenario(worker, base, 2, seed0 + 1 + s, "conns" if s % 2 else "one"))
        out.append(recycle_scenario(worker, 1, 0, seed0, "h2"))
        out.append(recycle_scenario(worker, 2, 2, seed0 + 3, "h2"))
        for base, jitter, variant in ((1, 0, "h2c"), (2, 2, "h2c"), (3, 0, "h2c+1"), (1, 0, "ws"), (2, 0, "h2conns"), (4, 2, "mixed"), (7, 0, "mixed"),
                                      (3, 0, "mixed2"), (None, 0, "mixed")):
            out.append(recycle_scenario(worker, base, jitter, seed0 + 7, variant))
    if ctx.thorough:
        for worker in ("asyncio", "trio"):
            for base in (2, 5):
                for jitter in (1, 3):
                    for s in range(6):
                        out.append(recycle_scenario(worker, base, jitter, seed0 + 100 + s, ["conns", "one", "h2", "h2c", "mixed", "mixed2"][s % 6]))
    return out


def judge_recycle(ctx: Any, sc: dict, obs: dict) -> Optional[dict]:      # ctx: Ctx or worker.Findings
    base, jitter = sc["base"], sc["jitter"]
    scopes = [e for e in obs["events"] if e[2] == "scope"]
    S = len(scopes)
    end = obs["serve"]
    trig = wk.first_t(obs, "trigger")
    drawn = [e[3] for e in obs["events"] if e[2] == "randint"]
    case = {k: v for k, v in sc.items()}
    sig = {"family": "recycle", "layer": "worker", "worker": sc["worker"], "variant": sc["variant"]}
    ctx.count("recycle.worker", f"{sc['worker']}:{sc['variant']}:max={base}:jitter={jitter}")
    if end["outcome"] != "return":
        ctx.violation("worker_serve_did_not_return", case, end, {**sig, "outcome": end["outcome"]})
        return None
    if base is None:
        # off: nothing but the harness trigger ends the worker, every offered request is served
        if trig is None or end["t"] < trig - 0.05 or S != sc["offered"]:
            ctx.violation("recycled_although_off", case, {"served": S, "offered": sc["offered"], "serve_end": end["t"], "trigger": trig}, sig)
        return {"j": 0, "S": S}
    lo, hi = base + 1, base + jitter + 1
    if S < lo or S > hi:
        ctx.violation("exit_outside_window", case, {"requests_taken": S, "window": [lo, hi], "serve_end": end["t"], "trigger": trig}, sig)
        return None
    if trig is not None and end["t"] >= trig:
        ctx.violation("exit_not_started_by_budget", case, {"requests_taken": S, "serve_end": end["t"], "trigger": trig}, sig)
    t_last = scopes[-1][1]
    if end["t"] > t_last + 0.4 + 0.4 + 2.5:
        ctx.violation("exit_not_prompt", case, {"last_request_at": t_last, "serve_end": end["t"]}, sig)
    j = S - base - 1
    if drawn:
        d = drawn[0]
        ctx.count("recycle.drawn", f"jitter={jitter}:j={d['value']}")
        if d["lo"] != 0 or d["hi"] != jitter or not (0 <= d["value"] <= jitter):
            ctx.violation("jitter_outside_configured_range", case, d, sig)
        elif d["value"] != j:
            ctx.violation("exit_not_at_budget", case, {"requests_taken": S, "base": base, "drawn": d["value"]}, sig)
    # the request that trips the budget is still answered (it is the C15 drain that delivers it: counted, not judged here)
    oks = [e for e in obs["events"] if e[2] == "client" and e[3]["what"] in ("response", "h2_end") and e[3].get("complete", True)]
    ctx.count("recycle.answers", "all" if len(oks) >= S else "fewer")
    return {"j": j, "S": S}


def check_recycle_worker(ctx: Ctx, scs: List[dict]) -> None:
    """Real-clock whole-worker scenarios: the report rule of worker.judge_with_reruns applies (as in C14 / C15).  A scenario about
    which a monitor or the model comparison says something is run again ALONE (at most twice) before anything is reported; only
    what it says again is reported, with the re-run's observation; the rest is counted under `not_reproduced_on_rerun` (sample in
    the evidence).  A deterministic defect says the same thing on every run."""
    obs = wk.run_many(scs, procs=wk.parallelism(12), timeout=60.0)
    # the model's answer for every draw the scenario allows (the draw that happened is read off the observation, which differs
    # from run to run): one batch, looked up by the judge
    keys = sorted({(sc["worker"], sc["base"], j, sc["offered"]) for sc in scs if sc["base"] is not None for j in range(sc["jitter"] + 1)})
    out = ctx.model([{"cmd": "c18.recycle", "worker": w, "base": b_, "j": j, "n": n} for w, b_, j, n in keys])
    model = dict(zip(keys, out)) if out is not None else None

    def judge(f: Any, i: int, sc: dict, o: dict) -> None:
        r = judge_recycle(f, sc, o)
        if r is not None and sc["base"] is not None and model is not None:
            f.disagreements_checked += 1
            m = model.get((sc["worker"], sc["base"], r["j"], sc["offered"])) or {}
            flags = (m.get("ok") or {}).get("flags")
            first = None if not flags or True not in flags else flags.index(True) + 1
            if first != r["S"]:
                f.disagree("c18.recycle.worker", sc, [("requests taken on before the exit starts", first, r["S"])], {"requests_taken": r["S"]})

    final = wk.judge_with_reruns(ctx, scs, obs, judge, timeout=60.0)
    for sc, o in zip(scs, final):
        ctx.evaluations += 1
        ctx.traces_validated += 1
        S = sum(1 for e in o["events"] if e[2] == "scope")
        if sc["base"] is not None and o["serve"]["outcome"] == "return":
            ctx.distinct(["recycle", "worker", sc["worker"], sc["variant"], sc["base"], sc["jitter"], S - sc["base"] - 1])
        ctx.sample({k: sc[k] for k in ("family", "worker", "variant", "base", "jitter", "rand_seed")}, cap=5)


# ==============================================================================================================
def load_defaults(ctx: Ctx) -> None:
    """the Config defaults the theorems are instantiated with (extracted) must be the live ones"""
    from hypercorn.config import Config
    live = {k: getattr(Config, k) for k in ("h11_max_incomplete_size", "h2_max_concurrent_streams", "h2_max_header_list_size",
                                            "h2_max_inbound_frame_size", "keep_alive_max_requests", "max_requests", "max_requests_jitter")}
    DEFAULTS.update(live)
    m = ctx.model([{"cmd": "c18.consts"}])
    if m is not None:
        ctx.disagreements_checked += 1
        mo = m[0].get("ok") or {}
        diff = {k: (mo.get(k), v) for k, v in live.items() if mo.get(k) != v}
        if diff:
            ctx.disagree("c18.consts", {"family": "consts"}, {k: a for k, (a, b) in diff.items()}, {k: b for k, (a, b) in diff.items()})


def run(ctx: Ctx) -> None:
    load_defaults(ctx)
    inc = gen_incomplete(ctx)
    check_incomplete_direct(ctx, inc)
    check_incomplete_e2e(ctx, inc[: ctx.budget(24, 500)])
    ka1 = gen_ka1(ctx)
    check_ka1_direct(ctx, ka1)
    check_ka1_e2e(ctx, ka1[: ctx.budget(24, 500)])
    h2 = gen_h2(ctx)
    check_h2_direct(ctx, h2)
    check_h2_e2e(ctx, h2 if ctx.thorough else [c for i, c in enumerate(h2) if i % 3 == 0 or c["family"] == "h2lim" and i % 2 == 0])
    if PUSH_FAMILY:
        check_push_direct(ctx, gen_push(ctx))
        check_push_e2e(ctx, gen_push_e2e(ctx))
    check_recycle_unit(ctx)
    check_recycle_worker(ctx, gen_recycle(ctx))


def search(ctx: Ctx) -> None:
    """a proof obligation or the correspondence is broken: aim at the boundary triple of every limit"""
    run(ctx)


def replay(ctx: Ctx, case: dict) -> None:
    load_defaults(ctx)
    fam, layer = case.get("family"), case.get("layer")
    base = {k: v for k, v in case.items() if k not in ("layer", "worker", "read")} if fam != "recycle" else case
    if fam == "incomplete":
        (check_incomplete_e2e if layer == "e2e" else check_incomplete_direct)(ctx, [base])
    elif fam == "ka1":
        (check_ka1_e2e if layer == "e2e" else check_ka1_direct)(ctx, [base])
    elif fam in ("ka2", "h2lim"):
        (check_h2_e2e if layer == "e2e" else check_h2_direct)(ctx, [base])
    elif fam == "push":
        base = {k: v for k, v in base.items() if k not in ("op", "kind", "streams_complete")}
        (check_push_e2e if layer == "e2e" else check_push_direct)(ctx, [base])
    elif fam == "recycle" and layer == "unit":
        check_recycle_unit(ctx)
    elif fam == "recycle":
        check_recycle_worker(ctx, [case])
