"""C02 — HTTP response delivery fidelity and legal framing.

Runner: in-memory TCPServer on both workers, HTTP/1.0, 1.1, 2; scripted applications; the bytes the server writes
are parsed by an independent client (h11 / h2 in client role) and compared with (a) the property's monitor and
(b) the view predicted by the Lean stream model for the same application messages."""
from __future__ import annotations

from typing import Any, Dict, List, Optional, Tuple

from ..core import clients as C
from ..core import runner as R
from ..core import streams as S
from ..core.framework import Ctx, b2s

SPEC = {
    "modules": ["HC.Props.C02"],
    "extracted": ["Guards", "Consts", "ReqGlue", "Atomic", "Excepts", "H2Init", "ConnGuards"],
    "technique": "Lean 4 transducer theorem (events handed to the protocol = specification of the app's messages, for every status/header list/chunking, by induction over chunks) + suppress_body and trailers gates + head-composition laws; HTTP/2 END TO END: a contents-carrying refinement of the C08/C09 send-path model (HC/Proto/H2Wire.lean: frames on the wire, FIFO buffer contents, pending trailers) with a per-stream invariant over every schedule, composed with the HTTPStream model and C09's delivery-at-quiescence theorem (h2_response_delivered, h2_response_end_to_end); tied by end-to-end runs on both workers parsed by independent h11/h2 clients, by the composed model's prediction for every HTTP/2 case, and by frame-by-frame trace acceptance of the contents model against the real H2Protocol (raw-frame ledger)",
    "level_text": "Proved in Lean for every final status, every header list that validates and every chunking (any number of chunks, empty ones included): the protocol layer is given exactly one response head with the application's headers in order, the non-empty chunks in order (none when HEAD / 1xx / 204 / 304 — the extracted suppress_body, characterised), then end-of-body, one access record and stream-closed; trailers only on HTTP/2+ with te: trailers; the HTTP/1 head is app headers ++ server headers (date/server/alt-svc only) ++ connection: close at the request maximum; the HTTP/2 head is :status ++ app ++ server headers; a WINDOW_UPDATE / INITIAL_WINDOW_SIZE change unblocks every buffered stream it concerns (tests extracted from _window_updated: connection-level = all); HTTP/2 trailers are handed to the protocol iff HTTP/2+ and te: trailers, kept until the body is out and sent as the one frame that ends the stream (exactly one END_STREAM-carrying h2 call, extracted from _end_stream).  An h2c upgrade request always gets stream 1 to be answered on: H2Protocol.initiate (test extracted) takes h2's upgrade entry point for every HTTP2-Settings value, the empty string of an empty or absent header included (h2c_response_has_a_stream).  End-to-end on every run: scripted applications (status x headers x chunking incl. chunks larger than the 16 KiB frame and 64 KiB window) on HTTP/1.0, 1.1 and 2, both workers; HTTP/2 negotiated by ALPN, by prior knowledge on a cleartext connection and by an HTTP/1.1 Upgrade: h2c request (the client's real HTTP2-Settings, an empty value, no header; the response travels on stream 1, further streams behind it); HTTP/2 client shapes: stream windows smaller / larger than the connection window, frame size, 1-3 concurrent streams, seven acknowledgement styles (automatic, paused, late, explicit connection/stream WINDOW_UPDATEs in either order, connection only); trailers with and without te: trailers; independent h11/h2 client parsers recover status, headers, body and end-of-message, compared with the monitor and with the Lean-predicted view.  HTTP/2 END TO END (theorems h2_response_delivered / h2_response_end_to_end, with wire_refines and fifo): for every final status, header list that validates, chunking (any number of chunks, empty ones included, any sizes - beyond the frame size and the windows) and EVERY schedule of the send path (any interleaving of the stream events of any number of streams with WINDOW_UPDATE / SETTINGS / PRIORITY frames, the send task's picks - whatever unblocked stream the priority tree hands out -, its suspensions inside _send_data and the wake-ups of waiting senders; the only hypothesis on schedules is C09's: the send task sleeps only at DeadlockError) that ends with the send task quiescent, the connection open, the stream not reset and credit on the stream and the connection: the frames written on that stream are EXACTLY one HEADERS frame :status ++ validated application headers ++ server headers, then DATA frames whose payloads concatenate to the concatenation of the chunks (nothing when the body must be suppressed), then exactly one frame ending the stream - the empty DATA frame with END_STREAM, or the HEADERS frame carrying all pending trailers and END_STREAM - and nothing else.  The contents model (what bytes the byte counters of the C08/C09 model stand for: push extends the buffer at the back, pop takes from the front, close() empties it; _end_stream's test extracted) is proved to refine the C08/C09 model step by step, and is tied to the code twice: (1) frame by frame against the real H2Protocol driven directly with real HTTPStreams, real send task, h2 and priority (the reconstructed op list of every run - the same one C08/C09 replay - is replayed with the applications' bytes, Response and Trailers events at their positions; the frames it writes per stream - kinds, sizes, payload, response head, trailers - must equal the raw-frame ledger of the server's byte stream and what the independent client decoded; where the theorem's hypotheses hold at the end of a run its conclusion is evaluated on the implementation's wire), (2) end to end: for every HTTP/2 case the composition itself (HTTPStream model -> stream events -> a pseudo-random schedule of the send path with the client's windows and frame size, run to quiescence) must end as the theorem says and predict the status, headers, body, end-of-stream and trailers the independent h2 client saw on the real TCPServer.  EVERY PACE OF THE APPLICATION: responses that take longer than keep_alive_timeout (theorem slow_response_not_timed_out, a corollary of C07's timed connection model and its invariant: in every reachable state with a response in progress the idle timer is not armed, cannot fire, and any amount of time may pass; the place of the prior-knowledge switch's Updated(idle=True) - before the bytes behind the preface - is extracted: prior_switch_reports_idle_before_the_request) are run end to end under keep_alive_timeout 0.3 / 0.7 / 1.1 s (virtual time): applications pausing before the status, between chunks, before the end or the trailers, and clients acknowledging a body larger than their window late, over HTTP/1.0, 1.1, HTTP/2 by ALPN, by prior knowledge (first flight - preface, SETTINGS, HEADERS - in one segment, cut behind the SETTINGS, inside / behind the preface line, inside the HEADERS frame, anywhere) and by h2c upgrade, both workers; the same monitor and model predictions apply.",
    "level_note": "Trusted: Lean kernel; stream model HC/Stream/Http.lean and head functions HC/Proto/Heads.lean (tied by differential runs); the send-path model HC/Proto/H2Send.lean (C08/C09's, tied by their trace acceptance) and its contents wrapper HC/Proto/H2Wire.lean (tied by the frame-by-frame comparison; 'written' means handed to the transport); legal HTTP/1 framing and the HTTP/2 frame encoding / HPACK are h11's and h2's (library behaviour, observed only through the independent client parsers, which raise on violations); h2 drops connection-specific fields from a head it is handed; 1xx as a final status is outside the quantifier; the end-to-end HTTP/2 theorem speaks about a stream that is neither reset nor on a closed connection (the statement's own scope).",
    "rule": "status x method x header-variant x chunking-class x protocol x pace x worker x (HTTP/2: how it was negotiated - ALPN / prior knowledge / h2c upgrade with real, empty, absent HTTP2-Settings -, initial window, frame size, concurrent streams, trailers) + slow responses: carrier x opening of the connection (first flight in one segment / cut) x worker x shape (one long pause between chunks, many short pauses, late status, slow client) x keep_alive_timeout, and random response cases with pauses; distinct = distinct (protocol, method, status class, header variant, chunking class, pace, worker); non-trivial = a body is sent or must be suppressed",
    "trusted": ["h11 / h2 client-side parsers as oracles for what a client sees"],
    "partial": ["HTTP/1: framing legality is delegated to h11 (LibM); the theorem stops at the events handed to it.  HTTP/2: the theorem goes down to the frames handed to h2 (kinds, order, payload bytes, header lists); their byte encoding is h2's"],
    "assumptions": ["applications send lower-case header names (ASGI requirement) and a content-length that matches the body when they send one"],
}

STATUSES = [200, 201, 204, 205, 301, 304, 400, 404, 500, 599]
HOP = {"connection", "transfer-encoding"}
SERVER_OWN = {"date", "server", "alt-svc"}


def gen_case(ctx: Ctx) -> dict:
    rng = ctx.rng
    proto = rng.choice(["1.0", "1.1", "1.1", "2", "2"])
    method = rng.choice(["GET", "GET", "HEAD", "POST"])
    status = rng.choice(STATUSES)
    cls = rng.choice(["empty", "one", "tiny", "with_empty", "big_frame", "big_window", "many"])
    chunks = {
        "empty": [],
        "one": [b"x"],
        "tiny": [b"ab", b"c"],
        "with_empty": [b"", b"ab", b"", b"c", b""],
        "big_frame": [bytes([65 + i % 26]) * 20000 for i in range(2)],
        "big_window": [b"w" * 70000, b"z" * 3],
        "many": [bytes([97 + i % 26]) * rng.randint(0, 300) for i in range(rng.randint(3, 30))],
    }[cls]
    body_len = sum(len(c) for c in chunks)
    suppress = method == "HEAD" or status in (204, 304)
    hv = rng.choice(["none", "cl", "repeat", "custom"])
    headers: List[Tuple[bytes, bytes]] = []
    if hv == "cl" and not (status in (204, 304)):
        headers.append((b"content-length", str(body_len).encode()))
    elif hv == "repeat":
        headers += [(b"set-cookie", b"a=1"), (b"x-b", b" padded "), (b"set-cookie", b"b=2")]
    elif hv == "custom":
        headers += [(b"content-type", b"text/plain"), (b"x-empty", b"")]
    pace = rng.choice(["immediate", "immediate", "late_ack", "paused"])
    case = {"family": "response", "proto": proto, "method": method, "status": status, "chunking": cls, "chunks": [b2s(c) for c in chunks],
            "headers": [[b2s(n), b2s(v)] for n, v in headers], "header_variant": hv, "pace": pace, "worker": rng.choice(["asyncio", "trio"]),
            "te": proto == "2" and rng.random() < 0.3}
    if proto == "2":
        # the client's flow-control shape: advertised stream window (smaller / larger than the 65535 byte connection
        # window, which SETTINGS cannot change), frame size, concurrent streams sharing the connection window, and
        # how it acknowledges: h2's automatic policy at once or late, or explicit WINDOW_UPDATE frames for the
        # connection and the stream in either order, or for the connection only
        case["pace"] = rng.choice(H2_PACES)
        case["initial_window"] = rng.choice([None, None, 1 << 20, 200000, 20000, 1000])
        case["max_frame"] = rng.choice([None, None, 32768])
        case["streams"] = rng.choice([1, 1, 1, 2, 3])
        if case["pace"] == "conn_only" and (case["initial_window"] or 65535) < body_len:
            case["initial_window"] = 1 << 20           # without stream-level updates the stream window must hold the body
        if not suppress and rng.random() < 0.25:
            case["trailers"] = rng.choice([[[["x-trailer", "t1"]]], [[["x-trailer", "t1"], ["x-sum", "2"]]], [[["x-a", "1"]], [["x-b", "2"]]]])
        # how HTTP/2 was negotiated: ALPN, prior knowledge on a cleartext connection, or an HTTP/1.1 `Upgrade: h2c` request
        # (which IS the request of stream 1) with the client's real HTTP2-Settings, an empty one, or none at all
        case["via"] = rng.choice(["alpn", "alpn", "alpn"] + list(H2_VIAS[1:]))
        normalise_via(case)
    return case


H2_VIAS = ("alpn", "prior", "h2c", "h2c_empty", "h2c_absent")


def normalise_via(case: dict) -> None:
    """an upgrade request has no body (one with a body is not upgraded) and its 101 must be readable before anything else"""
    if case.get("via", "alpn").startswith("h2c"):
        if case["method"] == "POST":
            case["method"] = "GET"
        if case["method"] == "HEAD" and any(n == "content-length" and v != "0" for n, v in case["headers"]):
            # the independent client is h2 in client role: on a stream it did not open itself (stream 1 of an upgrade) it does
            # not know that the request was a HEAD and insists on the announced body length
            case["method"] = "GET"
        if case["pace"] == "paused":
            case["pace"] = "late_ack"
        if (case.get("initial_window") or 65535) < 65535:
            # The harness client can only announce a stream window in a SETTINGS frame behind its preface, i.e. after the
            # server has begun to answer stream 1 under the default window: a smaller one then makes the window of stream 1
            # negative and h2's client-side window manager keeps back the credit it had not yet returned (it is only
            # recomputed when more data arrives) - a deadlock between two correct peers' heuristics, not a server matter.
            case["initial_window"] = None


H2_PACES = ["immediate", "immediate", "late_ack", "paused", "conn_first", "stream_first", "conn_only"]


# --------------------------------------------------------------------------------------------------------------
# responses that take longer than keep_alive_timeout ("every pace"): an application that pauses between its messages, or
# a client that takes its time over a body larger than its window, against a server configured with a small
# keep_alive_timeout - on every carrier and opening of the connection.  The response is due whole all the same: the
# keep-alive time-out is about idle connections (C07), a connection with a response in progress is not idle.
# --------------------------------------------------------------------------------------------------------------
SLOW_TS = (0.3, 0.7, 1.1)            # keep_alive_timeout values (virtual seconds); off the 0.25 s / 0.5 s grid of the client's actions
SLOW_PAUSES = (0.41, 0.83, 1.57, 2.9)
# carrier x opening: HTTP/1.0, HTTP/1.1; HTTP/2 by ALPN / prior knowledge with the first flight (preface, SETTINGS, HEADERS) in one
# segment, cut behind the client's SETTINGS, cut inside the preface's first line (7: h11 sees `PRI * HTTP/2.0` complete only with the
# second segment, which then carries the rest of the flight) / behind it (18: nothing follows in that read) / at the end of the preface
# (24) / inside the HEADERS frame (-5 = five bytes before the end); h2c upgrade with the real, an empty, no HTTP2-Settings header
SLOW_ENTRIES = [("1.0", None, None), ("1.1", None, None),
                ("2", "alpn", "one"), ("2", "alpn", "settings"),
                ("2", "prior", "one"), ("2", "prior", "settings"), ("2", "prior", 7), ("2", "prior", 18), ("2", "prior", 24), ("2", "prior", -5),
                ("2", "h2c", None), ("2", "h2c_empty", None), ("2", "h2c_absent", None)]


def first_cut(blob: bytes, first: Any) -> Optional[int]:
    """where the first flight of an HTTP/2 connection is cut: None = one segment"""
    k = None
    if first == "settings":
        k = 24 if blob.startswith(b"PRI * HTTP/2.0\r\n\r\nSM\r\n\r\n") else 0
        while k + 9 <= len(blob) and blob[k + 3] == 4:          # the client's SETTINGS frames
            k += 9 + int.from_bytes(blob[k:k + 3], "big")
    elif isinstance(first, int) and not isinstance(first, bool):
        k = first if first >= 0 else len(blob) + first
    return k if k is not None and 0 < k < len(blob) else None


def normalise_slow(case: dict) -> None:
    if case.get("first") not in (None, "settings"):
        # the client's larger MAX_FRAME_SIZE must be acknowledged before a larger frame may reach it (see `run_case`): with the
        # request in the same segment as the client's SETTINGS there is no such moment
        case["max_frame"] = None


def slow_case(entry: Tuple[str, Optional[str], Any], worker: str, shape: str, T: float, k: int = 0) -> dict:
    proto, via, first = entry
    case = {"family": "response", "slow": shape, "proto": proto, "method": "GET", "status": 200, "headers": [["x-a", "1"]], "header_variant": "custom1",
            "te": False, "worker": worker, "pace": "immediate", "T": T}
    if shape == "app_pause":
        # status and a first chunk at once, the second chunk several time-outs later, then the end
        case.update({"chunking": "tiny", "chunks": ["first chunk;", "second chunk, after a pause"], "pauses": [[2, round(3 * T + 0.17, 2)]]})
    elif shape == "app_pauses":
        # pauses everywhere: before the status, between the chunks (each shorter than the time-out, the response longer), before the end
        case.update({"chunking": "with_empty", "chunks": ["ab", "", "c" * 300, "d"], "status": 404,
                     "pauses": [[j, round(0.6 * T + 0.03 * j, 2)] for j in range(5)]})
    elif shape == "late_status":
        # the application thinks for a long time before it says anything
        case.update({"chunking": "one", "chunks": ["x"], "method": "HEAD" if k % 2 else "GET", "pauses": [[0, round(2 * T + 0.23, 2)]]})
    else:
        # "slow_client": nothing slow in the application; a body larger than the client's window, acknowledged late (HTTP/2) /
        # read after a pause (HTTP/1)
        case.update({"chunking": "big_window", "chunks": [b2s(b"w" * 70000), b2s(b"y" * 70000), "zzz"], "pace": "late_ack" if proto == "2" else "paused"})
    if proto == "2":
        case.update({"via": via, "initial_window": None, "max_frame": None, "streams": 1})
        if first is not None:
            case.update({"first": first, "gap": 0.13 if k % 3 == 2 else 0})
        if shape == "app_pauses" and via in ("alpn", "prior"):
            case.update({"te": True, "trailers": [[["x-trailer", "t1"]]], "pauses": case["pauses"] + [[5, round(0.6 * T, 2)]]})
        normalise_via(case)
    normalise_slow(case)
    return case


def slow_corpus() -> List[dict]:
    """deterministic, first in every tier: every entry x both workers x {one long pause between two chunks, the slow client};
    the other two shapes on alternating workers"""
    out = []
    k = 0
    for entry in SLOW_ENTRIES:
        for worker in ("asyncio", "trio"):
            k += 1
            T = SLOW_TS[k % len(SLOW_TS)]
            out.append(slow_case(entry, worker, "app_pause", T, k))
            if entry[2] in (None, "one", "settings"):
                out.append(slow_case(entry, worker, "slow_client", SLOW_TS[0], k))
        k += 1
        out.append(slow_case(entry, "asyncio" if k % 2 else "trio", "app_pauses", SLOW_TS[k % len(SLOW_TS)], k))
        out.append(slow_case(entry, "trio" if k % 2 else "asyncio", "late_status", SLOW_TS[(k + 1) % len(SLOW_TS)], k))
    return out


def gen_slow(ctx: Ctx) -> dict:
    """a random response case (status, method, headers, chunking, pace, HTTP/2 client shape as in `gen_case`) served by an
    application that pauses before some of its messages, under a small keep_alive_timeout, the first flight of an HTTP/2
    connection in one segment or cut anywhere"""
    rng = ctx.rng
    case = gen_case(ctx)
    case["T"] = rng.choice(SLOW_TS)
    n = len(app_msgs(case))
    at = sorted(rng.sample(range(n), min(n, rng.choice([1, 1, 2, 3]))))
    case["pauses"] = [[j, rng.choice(SLOW_PAUSES)] for j in at]
    case["slow"] = "random"
    if case["proto"] == "2" and not case["via"].startswith("h2c"):
        case["first"] = rng.choice(["one", "one", "settings", rng.randint(1, 23), 24, rng.randint(25, 60), -rng.randint(1, 8)])
        case["gap"] = rng.choice([0, 0, 0.13])
    normalise_slow(case)
    return case


def app_msgs(case: dict) -> List[dict]:
    chunks = [c.encode("latin1") for c in case["chunks"]]
    headers = [(n.encode("latin1"), v.encode("latin1")) for n, v in case["headers"]]
    msgs: List[dict] = [{"type": "http.response.start", "status": case["status"], "headers": headers}]
    trailers = case.get("trailers")
    if trailers:
        msgs[0]["trailers"] = True
    if not chunks:
        msgs.append({"type": "http.response.body"})
    for i, c in enumerate(chunks):
        msgs.append({"type": "http.response.body", "body": c, "more_body": i < len(chunks) - 1})
    for i, t in enumerate(trailers or []):
        msgs.append({"type": "http.response.trailers", "headers": [(n.encode("latin1"), v.encode("latin1")) for n, v in t],
                     "more_trailers": i < len(trailers) - 1})
    return msgs


def run_case(case: dict) -> dict:
    msgs = app_msgs(case)
    # a slow application: `pauses` = [[k, seconds], ...] - it sleeps (virtual time) before its k-th message; `T` = the
    # keep_alive_timeout the server is configured with (None: the default)
    pauses = {int(k): float(sec) for k, sec in (case.get("pauses") or [])}
    span = sum(pauses.values())
    script = [["recv_body"]]
    for k, m in enumerate(msgs):
        if pauses.get(k):
            script.append(["sleep", pauses[k]])
        script.append(["send", m])
    cfg = {} if case.get("T") is None else {"keep_alive_timeout": case["T"]}
    req_headers = [(b"host", b"x")] + ([(b"te", b"trailers")] if case["te"] else [])
    box: Dict[str, Any] = {}
    if case["proto"] == "2":
        n_streams = case.get("streams", 1)
        pace = case["pace"]
        via = case.get("via", "alpn")
        h2c = via.startswith("h2c")

        async def client(io):
            c = C.H2Client(initial_window=case.get("initial_window"), max_frame=case.get("max_frame"), auto_window=(pace in ("immediate", "paused")),
                           upgrade=h2c)
            box["c"] = c
            if h2c:
                # the HTTP/1.1 request that asks for the upgrade is the request of stream 1; the client speaks HTTP/2 (its
                # preface first) once it has read the 101
                hs = [(b"host", b"x"), (b"upgrade", b"h2c"), (b"connection", b"Upgrade, HTTP2-Settings")]
                if via == "h2c":
                    hs.append((b"http2-settings", c.upgrade_settings))
                elif via == "h2c_empty":
                    hs.append((b"http2-settings", b""))
                await io.send(C.h1_request(case["method"], "/r", hs + req_headers[1:]))
                buf = b""
                for _ in range(40):
                    await io.settle()
                    buf += io.take()
                    if b"\r\n\r\n" in buf:
                        break
                    await io.sleep(0.05)
                head, _, rest = buf.partition(b"\r\n\r\n")
                box["upgrade_head"] = head
                c._st(1)
                if head.startswith(b"HTTP/1.1 101"):
                    c.receive(rest)
            first = None if h2c else case.get("first")
            if first is None and (case.get("initial_window") is not None or case.get("max_frame") is not None):
                # the SETTINGS exchange first: h2 (client side) raises its inbound frame-size limit only between two
                # `receive_data` calls, so the server's acknowledgement must not share a read with a larger frame
                await c.pump(io)
            sids = [c.request(C.h2_headers(case["method"], "/r", extra=req_headers[1:])) for _ in range(n_streams - (1 if h2c else 0))]
            if h2c:
                sids = [1] + sids
            blob = c.out() if first is not None else b""
            k = first_cut(blob, first)
            if pace == "paused" and k is None:
                io.pause_writes()
            if first is not None:
                # the first flight of the connection (preface, SETTINGS, the HEADERS of every request) leaves the client in one
                # segment, or cut in two (`first` = "one" | "settings": behind the client's SETTINGS frames | k: after k bytes)
                box["first"] = [len(blob), k]
                if k is None:
                    await io.send(blob)
                else:
                    await io.send(blob[:k])
                    c.receive(io.take())
                    if case.get("gap"):
                        await io.sleep(case["gap"])
                    if pace == "paused":
                        # (it stops reading with the segment that completes its request: a server kept from writing by a client that
                        # has not asked for anything yet is not this property's matter)
                        io.pause_writes()
                    await io.send(blob[k:])
            await c.pump(io)

            def done() -> bool:
                return bool(c.error) or all(c.streams[x]["ended"] or c.streams[x]["reset"] is not None for x in sids)
            if pace == "paused":
                await io.sleep(1.0)
                await io.resume_writes()
                await c.pump(io)
            if span and pace in ("immediate", "paused"):
                # the application takes its time: the client keeps reading (and acknowledging) until the response has ended
                for _ in range(int((span + 2.0) / 0.25) + 1):
                    if done() or io.closed_at is not None:
                        break
                    await io.sleep(0.25)
                    await c.pump(io)
            if pace not in ("immediate", "paused"):

                async def credit(level: str, owed: Dict[int, int]) -> None:
                    """explicit WINDOW_UPDATE frames for what was received and not yet acknowledged"""
                    if level == "conn":
                        if sum(owed.values()):
                            c.conn.increment_flow_control_window(sum(owed.values()))
                    else:
                        for s_id, n in owed.items():
                            if n and not (c.streams[s_id]["ended"] or c.streams[s_id]["reset"] is not None):
                                c.conn.increment_flow_control_window(n, s_id)
                    await c.pump(io)

                for _ in range(200):
                    await io.sleep(0.5)
                    if span:
                        await c.pump(io)        # (what a slow application has sent in the meantime)
                    if done():
                        break
                    if not any(c.unacked.values()):
                        continue
                    # this round's credit is fixed now; what arrives while it is being sent waits for the next round
                    owed, c.unacked = c.unacked, {}
                    if pace == "late_ack":
                        for s_id, n in owed.items():
                            if n:
                                c.conn.acknowledge_received_data(n, s_id)
                        await c.pump(io)
                    elif pace == "conn_first":
                        await credit("conn", owed)
                        await io.sleep(0.5)
                        await credit("stream", owed)
                    elif pace == "stream_first":
                        await credit("stream", owed)
                        await io.sleep(0.5)
                        await credit("conn", owed)
                    else:       # conn_only: the stream window is large enough for the whole body
                        await credit("conn", owed)
                await c.pump(io)
            await c.pump(io)
            await io.sleep(2.0)
            await c.pump(io)
            return {"summary": c.summary(), "sids": sids, "upgrade_head": b2s(box.get("upgrade_head", b"")), "first": box.get("first")}
        res = R.RUNNERS[case["worker"]](cfg, "h2" if via == "alpn" else None, client, [script], tail=20)
        cr = res.get("client_result") or {"summary": {"streams": {}, "error": "client did not finish"}, "sids": []}
        c_error = cr["summary"]["error"]
        views = []
        for sid in cr["sids"] or [None]:
            st = cr["summary"]["streams"].get(str(sid), {})
            heads = st.get("headers")
            views.append({"status": None if heads is None else int(dict(heads)[":status"]),
                          "headers": None if heads is None else [h for h in heads if h[0] != ":status"],
                          "body": st.get("data", ""), "complete": bool(st.get("ended")), "reset": st.get("reset"), "trailers": st.get("trailers"),
                          "error": c_error, "frames": st.get("frames", []), "sid": sid})
        view = views[0]
        if h2c:
            view["upgrade_head"] = cr.get("upgrade_head", "")
    else:
        async def client(io):
            if case["pace"] == "paused":
                io.pause_writes()
            await io.send(C.h1_request(case["method"], "/r", req_headers, b"" if case["method"] != "POST" else b"body", version=case["proto"]))
            if case["pace"] == "paused":
                await io.sleep(1.0)
                await io.resume_writes()
            await io.sleep(1.0 + span)
        res = R.RUNNERS[case["worker"]](cfg, None, client, [script], tail=20)
        p = C.parse_h1(res["out"], [case["method"]])
        finals = [r for r in p["responses"] if not r.get("informational")]
        r0 = finals[0] if finals else {}
        view = {"status": r0.get("status"), "headers": r0.get("headers"), "body": r0.get("body", ""), "complete": bool(r0.get("complete")),
                "n_responses": len(finals), "trailers": r0.get("trailers"), "error": p["error"], "trailing": p["trailing"]}
        views = [view]
    return {"view": view, "views": views, "res": {k: res[k] for k in ("error", "loop_errors", "exceptions", "access", "closed_at", "handler_done", "client_error")},
            "first": (res.get("client_result") or {}).get("first") if case["proto"] == "2" else None,
            "app_send": res["apps"][0]["send"] if res["apps"] else None}


def flat_trailers(case: dict) -> List[List[str]]:
    return [list(h) for t in (case.get("trailers") or []) for h in t]


def check(ctx: Ctx, cases: List[dict]) -> None:
    reqs = []
    obs = []
    for case in cases:
        o = run_case(case)
        obs.append(o)
        init = {"method": case["method"], "version": case["proto"], "scheme": "http",
                "headers": [(b"host", b"x")] + ([(b"te", b"trailers")] if case["te"] else [])}
        reqs.append({"cmd": "stream.http_view", "init": {"method": init["method"], "version": init["version"], "scheme": "http",
                                                         "headers": S.headers_json(init["headers"])},
                     "msgs": [S.http_msg_json(m) for m in app_msgs(case)]})
    model = ctx.model(reqs)
    # HTTP/2: the composed prediction (HTTPStream model -> stream events -> send path with contents, run to quiescence under a
    # pseudo-random schedule with this client's windows and frame size): theorem `h2_response_delivered` says what it must be
    h2idx = [i for i, c in enumerate(cases) if c["proto"] == "2"]
    composed = ctx.model([predict_request(cases[i], reqs[i], i) for i in h2idx]) if h2idx else []
    composed_at = dict(zip(h2idx, composed or []))
    for i, (case, o) in enumerate(zip(cases, obs)):
        ctx.evaluations += 1
        sclass = case["status"] // 100
        suppress = case["method"] == "HEAD" or case["status"] in (204, 304)
        ctx.count("proto", case["proto"])
        ctx.count("chunking", case["chunking"])
        ctx.count("pace", case["pace"])
        ctx.count("status", case["status"])
        if case["proto"] == "2":
            ctx.count("h2.initial_window", case.get("initial_window"))
            ctx.count("h2.streams", case.get("streams", 1))
            ctx.count("h2.trailers", f"{len(case.get('trailers') or [])} te={int(bool(case['te']))}")
            ctx.count("h2.negotiated_via", case.get("via", "alpn"))
        if case["chunks"] or suppress:
            ctx.distinct([case["proto"], case["method"], sclass, case["header_variant"], case["chunking"], case["pace"], case["worker"],
                          case.get("initial_window"), case.get("streams", 1), bool(case.get("trailers")), case.get("via")]
                         + ([case.get("slow"), case["T"], str(case.get("first"))] if case.get("T") is not None else []))
        ctx.sample({k: (v2 if k != "chunks" else [len(c) for c in v2]) for k, v2 in case.items()}, cap=3)
        sig = {"family": "response", "proto": case["proto"]}
        if case.get("via", "alpn") != "alpn":
            sig["via"] = case["via"]
        if case.get("T") is not None:
            span = sum(sec for _, sec in case.get("pauses") or [])
            ctx.count("slow.shape", case.get("slow"))
            ctx.count("slow.entry", f"{case['proto']} {case.get('via') or ''} first={case.get('first')}".replace("  ", " "))
            ctx.count("slow.timing", "application pauses longer than keep_alive_timeout" if span > case["T"] else
                      ("application pauses shorter than keep_alive_timeout" if span else "no application pause (slow client)"))
            ctx.count("slow.first_flight", "n/a" if o.get("first") is None else ("one segment" if o["first"][1] is None else "cut"))
            # (what the server did to the connection, for the replay's reader; the signature says that the case is a slow one)
            sig["slow"] = True
        if case.get("via", "alpn").startswith("h2c") and not o["view"].get("upgrade_head", "").startswith("HTTP/1.1 101"):
            # "in the negotiated protocol": the upgrade must have been agreed to before anything is said in HTTP/2
            ctx.violation("h2c_upgrade_not_answered", case, {"head": o["view"].get("upgrade_head", "")[:200]}, sig)
            continue
        if o["res"]["client_error"] or o["res"]["error"] or o["res"]["loop_errors"]:
            ctx.violation("handler_error", case, o["res"], {**sig, "kind": "internal"})
            continue
        want_body = "" if suppress else "".join(case["chunks"])
        want_trailers = flat_trailers(case) if (case["proto"] == "2" and case["te"]) else []
        if want_trailers:
            sig["trailers_with_te"] = True     # (the input class of finding F80, repaired in 22ee95a)
        if len(o["views"]) != case.get("streams", 1):
            ctx.violation("end_exactly_once", case, {"streams_seen": len(o["views"])}, sig)
        for v in o["views"]:
            # --- monitor (every concurrent stream carries the same request, so the same response is due on each) ---
            brief = {k: v[k] for k in v if k != "body"}
            if v.get("error"):
                ctx.violation("client_parse_error", case, brief, sig)
            if v["status"] != case["status"]:
                ctx.violation("status", case, brief, sig)
            if not v["complete"] or v.get("n_responses", 1) != 1:
                ctx.violation("end_exactly_once", case, {"got_len": len(v["body"]), "want_len": len(want_body), "view": brief,
                                                         **({"keep_alive_timeout": case["T"], "server_closed_at_ms": o["res"]["closed_at"],
                                                             "application_sends": o["app_send"], "first_flight": o.get("first")} if case.get("T") is not None else {})}, sig)
            if v["body"] != want_body:
                ctx.violation("body", case, {"got_len": len(v["body"]), "want_len": len(want_body), "view": brief},
                              {**sig, "suppress": suppress})
            if v["headers"] is not None:
                got = [h for h in v["headers"] if h[0].lower() not in HOP]
                app = [[n.lower(), val.strip()] for n, val in case["headers"]]
                if got[:len(app)] != app or any(h[0] not in SERVER_OWN for h in got[len(app):]):
                    ctx.violation("headers", case, {"got": v["headers"], "app": app}, sig)
            if v.get("trailers") and not want_trailers:
                ctx.violation("trailers_unrequested", case, v["trailers"], sig)
            elif want_trailers and (v.get("trailers") or []) != want_trailers:
                # the client asked for trailers (te: trailers, HTTP/2) and the application sent them
                ctx.violation("trailers_lost", case, {"got": v.get("trailers"), "want": want_trailers, "view": brief}, {**sig, "got": bool(v.get("trailers"))})
            # --- correspondence with the Lean view ---
            if model is not None:
                ctx.disagreements_checked += 1
                m = model[i].get("ok")
                ok = m is not None and len(m["heads"]) == 1
                ok = ok and m["heads"][0][0] == v["status"] and m["body"] == v["body"] and m["ends"] == (1 if v["complete"] else 0)
                if ok and v["headers"] is not None:
                    got = [h for h in v["headers"] if h[0].lower() not in HOP]
                    ok = got[:len(m["heads"][0][1])] == m["heads"][0][1]
                if ok:
                    # the stream model hands the protocol exactly the trailers the statement allows, and the client gets them
                    # (HTTP/2 has one trailing block: the messages' trailers joined)
                    ok = [h for t in m["trailers"] for h in t] == want_trailers == (v.get("trailers") or [])
                if not ok:
                    ctx.disagree("stream.http_view", case, {k: (m[k] if k != "body" else len(m[k])) for k in (m or {})},
                                 {k: (v[k] if k != "body" else len(v[k])) for k in v})
            if model is not None and case["proto"] == "2" and i in composed_at:
                ctx.disagreements_checked += 1
                bad = composed_mismatch(composed_at[i], v, want_trailers)
                if bad is not None:
                    ctx.disagree("h2wire.predict", case, bad, {k: (v[k] if k != "body" else len(v[k])) for k in v})
                else:
                    ctx.count("h2.composed", "agrees")
        if o["app_send"] is not None and any(r[2] != "ok" for r in o["app_send"]):
            ctx.violation("valid_send_raised", case, o["app_send"], sig)


def predict_request(case: dict, view_req: dict, k: int) -> dict:
    body_len = sum(len(c) for c in case["chunks"])
    return {"cmd": "h2wire.predict", "init": view_req["init"], "msgs": view_req["msgs"], "srv": [], "sid": 1, "connWin": 65535,
            "streamWin": case.get("initial_window") or 65535, "maxFrame": case.get("max_frame") or 16384, "seed": k,
            "credits": [body_len // 3 + 1000] * 6}


def composed_mismatch(m: dict, v: dict, want_trailers: List[List[str]]) -> Optional[dict]:
    """the composed model's wire for the stream against what the independent client saw (None = they agree)"""
    if "ok" not in m:
        return {"what": "driver error", "detail": m}
    st = m["ok"]["stream"]
    fr = st["frames"]
    brief = {"frames": [[f[0]] + ([f[1]] if f[0] == "data" else []) for f in fr][:12], "hyp": st["hyp"], "concl": st["concl"], "left": m["ok"]["left"]}
    if not st["hyp"] or not st["concl"] or m["ok"]["left"]:
        # the schedule ended with credit available and every message sent: the theorem's hypotheses and conclusion hold in the model
        return {"what": "the composed run did not end as `h2_response_delivered` says", **brief}
    heads = [f for f in fr if f[0] == "headers"]
    ends = [f for f in fr if f[0] in ("end", "trailers_end")]
    if len(heads) != 1 or fr[0] != heads[0] or len(ends) != 1 or fr[-1] != ends[0]:
        return {"what": "shape", **brief}
    mh = heads[0][1]
    if v["headers"] is None or mh[0] != [":status", str(v["status"])]:
        return {"what": "status", **brief}
    got = [h for h in v["headers"] if h[0].lower() not in HOP]
    if got[:len(mh) - 1] != mh[1:] or any(h[0] not in SERVER_OWN for h in got[len(mh) - 1:]):
        return {"what": "headers", "model": mh, **brief}
    if st["payload"] != v["body"]:
        return {"what": "payload", "model_len": len(st["payload"]), **brief}
    mt = ends[0][1] if ends[0][0] == "trailers_end" else []
    if mt != (v.get("trailers") or []) or mt != want_trailers or not v["complete"]:
        return {"what": "end of stream", "model_trailers": mt, **brief}
    return None


# --------------------------------------------------------------------------------------------------------------
# the send path with contents against the real H2Protocol, frame by frame (direct drive of harness/core/h2drive.py)
# --------------------------------------------------------------------------------------------------------------
def wire_scenarios(ctx: Ctx, n: int) -> List[dict]:
    from ..core import h2drive as H
    rng = ctx.rng
    out = []
    for _ in range(n):
        sc = H.gen_scenario(rng, "flow")
        for act in sc["actions"]:
            if act.get("do") != "open" or "app" not in act:
                continue
            app = act["app"]
            if app and "start" in app[0]:
                app[0]["headers"] = rng.choice([[], [["x-a", "1"]], [["set-cookie", "a=1"], ["x-b", " padded "], ["set-cookie", "b=2"]]])
                ends = app[-1].get("more") is False
                if ends and rng.random() < 0.35:
                    app[0]["trailers"] = True
                    tr = rng.choice([[[["x-trailer", "t1"]]], [[["x-a", "1"]], [["x-b", "2"]]]])
                    for k, t in enumerate(tr):
                        app.append({"trailers": t, "more": k < len(tr) - 1})
                    act["te"] = rng.random() < 0.75
        out.append(sc)
    return out


def wire_request(H, sc: dict, res: dict) -> dict:
    """`h2wire.run`: the reconstructed op list of the run, the Response / Trailers events at the positions at which
    `stream_send` was called, and for every push the bytes it stands for (the scripted applications write a known pattern)"""
    heads_at: Dict[int, List[dict]] = {}
    for h in res["heads"]:
        heads_at.setdefault(h["at"], []).append({k: v for k, v in h.items() if k != "at"})
    payload = {sid: H.expected_payload(sid, H.written_sizes(sc, res, sid)) for sid in res["ids"]}
    cursor: Dict[int, int] = {}
    ops: List[dict] = []
    for k, op in enumerate(res["ops"]):
        ops += heads_at.get(k, [])
        if op["op"] == "push":
            sid, pos = op["i"], cursor.get(op["i"], 0)
            ops.append({"op": "push", "i": sid, "d": b2s(payload.get(sid, b"")[pos:pos + op["n"]])})
            cursor[sid] = pos + op["n"]
        else:
            ops.append({k2: v2 for k2, v2 in op.items() if not k2.startswith("_")})
    ops += heads_at.get(len(res["ops"]), [])
    s0 = res["snaps"][0]
    return {"cmd": "h2wire.run", "connWin": s0["connWin"], "maxFrame": s0["maxFrame"], "srv": [], "ids": res["ids"], "ops": ops}


def real_frames(order: List[list], sid: int) -> List[list]:
    """the frames the server wrote for `sid` (ledger of the raw byte stream), in the model's vocabulary"""
    out: List[list] = []
    seq = [e for e in order if e[1] == sid]
    k = 0
    while k < len(seq):
        kind, _, n = seq[k]
        nxt = seq[k + 1][0] if k + 1 < len(seq) else None
        if kind == "headers":
            out.append(["trailers_end"] if n else ["headers"])
            k += 2 if n and nxt == "end" else 1
        elif kind == "data":
            if nxt == "end":
                out += ([["data", n]] if n else []) + [["end"]]
                k += 2
            else:
                out.append(["data", n])
                k += 1
        elif kind == "rst":
            out.append(["rst"])
            k += 1
        else:
            out.append([kind])
            k += 1
    return out


def check_wire(ctx: Ctx, scenarios: List[dict]) -> None:
    from ..core import h2drive as H
    results = [H.run_scenario(sc) for sc in scenarios]
    usable = [(sc, res) for sc, res in zip(scenarios, results) if not res.get("runaway") and res.get("ghost_at") is None]
    model = ctx.model([wire_request(H, sc, res) for sc, res in usable])
    for k, (sc, res) in enumerate(usable):
        ctx.evaluations += 1
        ctx.traces_validated += 1
        case = {"family": "wire", "scenario": sc}
        if model is None:
            continue
        ctx.disagreements_checked += 1
        m = model[k].get("ok")
        if m is None or m["stopped"] is not None:
            ctx.disagree("h2wire.run", case, model[k] if m is None else {"stopped_at": m["stopped"], "op": res["ops"][min(m["stopped"], len(res["ops"]) - 1)] if res["ops"] else None},
                         "an op taken by the implementation is not enabled in the composed model")
            continue
        for sid in res["ids"]:
            ms = m["streams"].get(str(sid))
            if ms is None:
                continue
            real = real_frames(res["ledger"]["order"], sid)
            mine = [[f[0]] + ([f[1]] if f[0] == "data" else []) for f in ms["frames"]]
            pay = b2s(res["ledger"]["payload"].get(sid, b""))
            cl = res["client"]["streams"].get(str(sid), {})
            diff = None
            mt: List[Any] = []
            # "written" in the model = handed to the transport.  On a connection that closed (client EOF, or a write that
            # failed - the failing write *is* a flush) the tail of what was handed over never reached the client.
            lost_tail = m["closed"] and mine[:len(real)] == real and ms["payload"].startswith(pay)
            if mine != real and not lost_tail:
                diff = {"what": "frames", "model": mine[:14], "impl": real[:14]}
            elif ms["payload"] != pay and not lost_tail:
                diff = {"what": "payload", "model_len": len(ms["payload"]), "impl_len": len(pay)}
            elif sid not in res["client_rst"] and not m["closed"]:
                # what the independent client decoded (a client that has reset the stream ignores what still arrives);
                # h2 drops connection-specific fields (`connection`) from what it is handed
                mh = [[h for h in f[1] if h[0] not in HOP] for f in ms["frames"] if f[0] == "headers"]
                if mh and cl.get("head") is not None and cl["head"][:len(mh[-1])] != mh[-1]:
                    diff = {"what": "head", "model": mh[-1], "impl": cl["head"]}
                mt = [f[1] for f in ms["frames"] if f[0] == "trailers_end"]
                if diff is None and (mt[0] if mt else None) != cl.get("trailers"):
                    diff = {"what": "trailers", "model": mt, "impl": cl.get("trailers")}
            if diff is None and ms["hyp"]:
                # the theorem's hypotheses hold for this stream at the end of this schedule: its conclusion must be what the model
                # computed - and the client must have the whole response
                want = H.expected_payload(sid, H.written_sizes(sc, res, sid))
                if not ms["concl"]:
                    diff = {"what": "hypotheses of h2_response_delivered hold, conclusion does not (model)", "stream": ms}
                elif res["ledger"]["end"].get(sid) != 1 or res["ledger"]["payload"].get(sid, b"") != want or (
                        sid not in res["client_rst"] and not res["client"]["error"] and (not cl.get("ended") or cl.get("data") != want)):
                    # (a client that reset the stream after the server had ended it ignores what still arrives: the wire decides)
                    diff = {"what": "hypotheses hold, the client was not sent the whole response", "ended": cl.get("ended"), "end_frames": res["ledger"]["end"].get(sid),
                            "got": len(res["ledger"]["payload"].get(sid, b"")), "want": len(want)}
                ctx.count("wire.delivered", "trailers" if any(f[0] == "trailers_end" for f in ms["frames"]) else "plain")
                ctx.distinct(["wire", len(real), bool(mt), sc.get("initial_window"), sc.get("max_frame")])
            ctx.count("wire.streams", "compared")
            if diff is not None:
                ctx.disagree("h2wire.run", {**case, "sid": sid}, diff, "frames written by H2Protocol (raw-frame ledger / independent client)")
    ctx.count("wire.runs", "usable", len(usable))
    ctx.count("wire.runs", "skipped(runaway / priority library ghost)", len(results) - len(usable))


def carrier_corpus() -> List[dict]:
    """deterministic: one well-formed response over every way HTTP/2 can have been negotiated besides ALPN - prior knowledge
    on a cleartext connection and the HTTP/1.1 `Upgrade: h2c` request (whose response travels on stream 1, which only h2's
    upgrade entry point creates) with the client's real HTTP2-Settings value, an empty one and none - small and large bodies
    (larger than the window: the stream-1 window comes from HTTP2-Settings or the defaults), HEAD, a second stream behind
    the upgraded one, trailers; both workers"""
    base = {"family": "response", "proto": "2", "status": 200, "headers": [["x-a", "1"]], "header_variant": "custom1", "te": False,
            "initial_window": None, "max_frame": None}
    win = [b2s(b"w" * 70000), "zzz"]
    out = []
    for via in H2_VIAS[1:]:
        for shape in ("tiny2", "window", "head", "trailers"):
            for worker in ("asyncio", "trio"):
                c = {**base, "via": via, "worker": worker, "method": "GET", "chunking": "tiny", "chunks": ["ab", "c"], "pace": "immediate", "streams": 1}
                if shape == "tiny2":
                    c.update({"streams": 2, "status": 404})
                elif shape == "window":
                    c.update({"chunking": "big_window", "chunks": win, "pace": "late_ack"})
                elif shape == "head":
                    c.update({"method": "HEAD", "status": 204 if via == "prior" else 200})
                else:
                    c.update({"te": True, "trailers": [[["x-trailer", "t1"]], [["x-sum", "2"]]]})
                out.append(c)
    return out


def flow_corpus() -> List[dict]:
    """deterministic: the client shapes in which the connection window, not the stream window, is what stops the response
    (stream windows larger than 65535; several streams sharing the connection window), every acknowledgement style, and
    trailers with / without `te: trailers`"""
    base = {"family": "response", "proto": "2", "method": "GET", "status": 200, "headers": [["x-a", "1"]], "header_variant": "custom1", "te": False}
    big = [b2s(c) for c in (b"a" * 10000, b"", b"b" * 50000, b"c", b"d" * 70000, b"e" * 20000)]
    win = [b2s(b"w" * 70000), "zzz"]
    out = []
    k = 0
    for pace in ("late_ack", "conn_first", "stream_first", "conn_only"):
        for iw, streams, chunks, cls in ((1 << 20, 1, big, "big_window"), (None, 3, win, "big_window"), (20000, 2, win, "big_window"), (1 << 20, 2, win, "big_window")):
            if pace == "conn_only" and iw != 1 << 20:
                continue
            k += 1
            out.append({**base, "chunking": cls, "chunks": chunks, "pace": pace, "worker": "asyncio" if k % 2 else "trio", "initial_window": iw,
                        "max_frame": None if k % 3 else 32768, "streams": streams})
    for te in (True, False):
        for tr in ([[["x-trailer", "t1"], ["x-sum", "2"]]], [[["x-a", "1"]], [["x-b", "2"]]]):
            k += 1
            out.append({**base, "te": te, "chunking": "tiny", "chunks": ["ab", "c"], "pace": "immediate", "worker": "asyncio" if k % 2 else "trio",
                        "initial_window": None, "max_frame": None, "streams": 1, "trailers": tr})
    out.append({**base, "te": True, "chunking": "big_window", "chunks": win, "pace": "late_ack", "worker": "trio", "initial_window": None, "max_frame": None,
                "streams": 1, "trailers": [[["x-trailer", "after-big-body"]]]})
    return out


def check_request_max(ctx: Ctx) -> None:
    """HTTP/2 connections that reach keep_alive_max_requests: every request an application instance answers must get that
    response - also the one that trips the maximum and the ones still open at that moment (known finding F48).  A client
    that parses the server's frames itself (it does not stop at GOAWAY), one HEADERS frame per read, both workers."""
    from ..core import h2raw as RH
    ok_script = [["recv_body"], ["send", {"type": "http.response.start", "status": 200, "headers": [(b"content-length", b"2")]}],
                 ["send", {"type": "http.response.body", "body": b"ok"}]]
    for L, n in ((0, 1), (1, 2), (2, 3), (3, 2), (1000, 3)):
        for worker in ("asyncio", "trio"):
            async def client(io):
                cl = RH.RogueH2()
                await io.send(cl.out())
                cl.feed(io.take())
                for i in range(n):
                    if io.closed_at is not None:
                        break
                    cl.request(C.h2_headers("GET", f"/r{i}"))
                    await io.send(cl.out())
                    cl.feed(io.take())
                await io.sleep(0.5)
                cl.feed(io.take())
                return cl.summary()
            res = R.RUNNERS[worker]({"keep_alive_max_requests": L, "keep_alive_timeout": 3}, "h2", client, [ok_script], tail=8)
            ctx.evaluations += 1
            ctx.count("request_max.worker", worker)
            case = {"family": "request_max", "L": L, "requests": n, "worker": worker}
            cr = res.get("client_result")
            if res.get("stuck_session") or res["error"] or cr is None or cr["parse_error"]:
                ctx.violation("handler_exception", case, {"error": res["error"], "client": res.get("client_error")}, {"family": "request_max", "worker": worker})
                continue
            served = sorted(2 * int(a["scope"]["path"][2:]) + 1 for a in res["apps"])
            ctx.distinct(["request_max", L, n, worker])
            for idx, sid in enumerate(served):
                st = cr["streams"].get(str(sid)) or {}
                ctx.count("request_max.response", "complete" if st.get("ended") and st.get("status") == 200 and st.get("data") == 2 else "lost")
                if not (st.get("ended") and st.get("status") == 200 and st.get("data") == 2):
                    ctx.violation("response_of_served_request_lost", case, {"sid": sid, "request_number": idx + 1, "client_saw": st, "goaways": cr["goaways"]},
                                  {"family": "request_max", "worker": worker, "proto": "2",
                                   "when": "request_max_tripped" if len(served) >= L + 1 else "below_request_max"})


def run(ctx: Ctx) -> None:
    check_request_max(ctx)
    n = ctx.budget(500, 8000)
    cases = carrier_corpus() + flow_corpus() + [gen_case(ctx) for _ in range(n)]
    # responses that take longer than a small keep_alive_timeout, every carrier and opening, both workers
    cases += slow_corpus() + [gen_slow(ctx) for _ in range(ctx.budget(40, 1500))]
    # boundary corpus: every status x method on every protocol once (small bodies)
    for proto in ("1.0", "1.1", "2"):
        for status in STATUSES:
            for method in ("GET", "HEAD"):
                cases.append({"family": "response", "proto": proto, "method": method, "status": status, "chunking": "tiny", "chunks": ["ab", "c"],
                              "headers": [["x-a", "1"]], "header_variant": "custom1", "pace": "immediate",
                              "worker": "asyncio" if (status + len(method)) % 2 else "trio", "te": False})
    check(ctx, cases)
    check_wire(ctx, wire_scenarios(ctx, ctx.budget(150, 2500)))


def replay(ctx: Ctx, case: dict) -> None:
    if case.get("family") == "request_max":
        check_request_max(ctx)
        return
    normalise_via(case)
    normalise_slow(case)
    if case.get("family") == "wire":
        check_wire(ctx, [case["scenario"]])
    else:
        check(ctx, [case])
