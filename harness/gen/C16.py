"""C16 — protocol behaviour does not depend on the worker class.

Every generated session (client byte stream + timing + application scripts + configuration) is run through the real
`TCPServer` of BOTH workers under virtual time; the two observations (application message sequences, client-visible
protocol events with the date masked, whether and when the server closes) must be equal.  The Lean side proves the same
for the model of the connection shell parametrised by the runtime record (HC/Conn/Shell.lean) and the side conditions that
make the workers' differing primitives indistinguishable (event clear with no foreign waiter; Closed idempotent)."""
from __future__ import annotations

import json
import random
from pathlib import Path
from typing import Any, Dict, List, Optional

from ..core import clients as C
from ..core import h11sessions as HS
from ..core import twin as T
from ..core import wsrun as W
from ..core.framework import Ctx, b2s

SPEC = {
    "modules": ["HC.Props.C16"],
    "extracted": ["Runtime", "AppExit"],
    "technique": "Lean 4 simulation theorem: the connection shell (reader loop, idle single-task, send lock, close paths) parametrised by a Runtime record extracted from the two tcp_server.py / worker_context.py files yields the same observation for both records on every event sequence, under side conditions proved of the protocol models (handle(Closed) idempotent and silent afterwards; every Event.clear happens with no foreign waiter) — tied by twin runs of the real TCPServer of both workers under virtual time on generated HTTP/1, HTTP/2 and WebSocket sessions",
    "level_text": "Proved in Lean for every sequence of connection-level operations (reads of any bytes, EOF, read errors, write failures, idle expiry, terminate, protocol-initiated close, Updated(idle) in any order) and every protocol machine satisfying the stated side conditions: the asyncio and the trio connection shell hand the protocol the same event sequence up to repetitions of Closed after the first, write the same bytes, and close the transport after the same operation; the side conditions are theorems of the H11 / stream / HTTP/2-send models (Closed is absorbing and silent; an event is only ever cleared by its own sole waiter or while nobody waits), which is what makes trio's replace-on-clear and non-awaited task cancellation unobservable; the try/except/finally shapes of both task_group.py::_handle, extracted from the source, log, signal completion and re-raise alike on return, exception, cancellation and exception group, and trio's second send(None) is silent on both stream models.  Tie on every run: generated sessions (HTTP/1 pipelines with every segmentation class, pauses below/at/above the keep-alive timeout, EOF / reset / write failure at any point, terminate at any time, malformed input, request maximum, slow and failing applications; HTTP/2 multi-stream sessions with window games, resets, GOAWAY; WebSocket sessions over both carriers) run on both workers under virtual time, observations compared field by field (application scopes and message sequences, parsed client events, close instant in virtual ms).",
    "level_note": "Trusted: Lean kernel; the shell model HC/Conn/Shell.lean is hand-written (its Runtime record is regenerated from the two source files by the extractor: except tuples of the read/write paths, whether protocol_send(Closed) re-enters the protocol, whether _close stops the idle task, replace-vs-clear, awaited-vs-not cancellation); equality of the two real schedulers (task wake-up order inside one virtual instant) is sampled, not proved; close instants are compared at millisecond granularity under virtual clocks only; TLS (ALPN negotiation, SSL read errors) is outside.",
    "rule": "family (h1 / h2 / ws-h1 / ws-h2) x ending (idle timeout, EOF, reset, write failure, terminate, server close) x segmentation class x application behaviour; distinct = distinct (family, ending, request kinds, app behaviours, segmentation, config class); non-trivial = the session exercises at least one worker-specific primitive (idle task restart/stop, server-side close, EOF, write failure, event clear)",
    "trusted": ["the in-memory transports of harness/core/runner.py present the same byte/EOF/error behaviour to both workers"],
    "partial": ["real scheduler equality is sampled (virtual time, in-memory transports); the theorem is about the shell model under the proved side conditions"],
    "assumptions": ["one sequential sender per stream (ASGI applications do not call send concurrently from several tasks)"],
}


# --------------------------------------------------------------------------------------------------------------
# generators
# --------------------------------------------------------------------------------------------------------------
def _script(r: dict, a: dict) -> List[list]:
    msgs = HS.app_messages(r, a)
    sends: List[list] = []
    crashed = a["crash"] in ("before_start", "after_start", "after_first_chunk")
    for m in msgs:
        if m is None:
            break
        sends.append(["send", m])
    tail: List[list] = [["raise"]] if crashed else []
    if r["kind"] == "ws":
        pre = [["recv"]]
        post = [["recv_until_disconnect"]] if a["ws"] == "accept_echo" else []
        return pre + sends + post
    when = a["when"]
    if when == "after_body":
        return [["recv_body"]] + sends + tail
    if when == "eager":
        return sends[:1] + [["recv_body"]] + sends[1:] + tail
    if when == "mid":
        return [["recv"]] + sends + tail
    if when == "slow":
        return [["sleep", a.get("delay", 0.5)], ["recv_body"]] + sends + tail
    return sends + tail      # never_read


def gen_h1(rng: random.Random) -> dict:
    n = rng.choice([1, 1, 2, 2, 3, 4])
    big = rng.random() < 0.2
    opts = {"big": big, "weights": [6, 4, 4, 2, 2, 1, 2, 1, 1, 0, 1]}
    reqs = [HS.gen_request(rng, i, opts) for i in range(n)]
    apps = []
    for r in reqs:
        a = HS.gen_app(rng, r, {})
        if rng.random() < 0.15:
            a["when"], a["delay"] = "slow", rng.choice([0.2007, 0.9007, 1.0007, 1.1007, 3.0007])
        apps.append(a)
    T_keep = rng.choice([1, 1, 2, 5])
    cfg: Dict[str, Any] = {"keep_alive_timeout": T_keep, "keep_alive_max_requests": rng.choice([1, 2, 3, 1000, 1000])}
    if rng.random() < 0.15:
        cfg["h11_max_incomplete_size"] = rng.choice([20, 60, 200])
    if rng.random() < 0.1:
        cfg["max_app_queue_size"] = rng.choice([1, 2])
    if rng.random() < 0.2:
        cfg["read_timeout"] = rng.choice([0.4, 0.7507, 3.0007])      # never on the grid of client pauses / app delays
    if any(r["kind"] == "bad_server_name" for r in reqs):
        cfg["server_names"] = ["x"]
    data = b"".join(HS.request_bytes(r) for r in reqs)
    malformed = None
    if rng.random() < 0.12:
        malformed = rng.choice(["GARBAGE\r\n\r\n", "GET / HTTP/9.9\r\n\r\n", "GET /\x00 HTTP/1.1\r\nHost: x\r\n\r\n", "POST / HTTP/1.1\r\nHost: x\r\nContent-Length: -1\r\n\r\n",
                                "GET / HTTP/1.1\r\nHost: x\r\nTransfer-Encoding: bogus\r\n\r\n", "\r\n\r\n", "GET / HTTP/1.1\r\nHost: x\r\nHost: y\r\n\r\n"])
        pos = rng.choice(["before", "after", "instead"])
        mb = malformed.encode("latin1")
        data = mb + data if pos == "before" else (data + mb if pos == "after" else mb)
    mode = rng.choice(["one", "one", "k", "k", "two", "bytewise"]) if len(data) < 400 else rng.choice(["one", "k", "k", "two"])
    if mode == "two":
        mode = f"two:{rng.randrange(1, max(2, len(data)))}"
    reads = HS.split_bytes(rng, data, mode)
    gaps = [0, 0, 0, 0.1, T_keep - 0.001, T_keep + 0.001, 0.5 * T_keep]
    steps: List[list] = []
    pause_at = rng.randrange(len(reads)) if rng.random() < 0.12 else None
    fail_at = rng.randrange(len(reads) + 1) if rng.random() < 0.1 else None
    cut_at = rng.randrange(len(reads) + 1) if rng.random() < 0.35 else None      # EOF / reset before read k
    ending = rng.choice(["eof", "reset"]) if cut_at is not None else rng.choice(["idle", "idle", "eof_late", "reset_late"])
    together = ending == "eof" and rng.random() < 0.5     # the FIN travels with the last bytes sent
    for i, rd in enumerate(reads):
        if i == cut_at:
            if together and steps and steps[-1][0] == "send":
                steps[-1][0] = "send_eof"
            else:
                steps.append([ending])
            break
        if i == pause_at:
            steps.append(["pause"])
        if i == fail_at:
            steps.append(["fail_writes"])
        steps.append(["send", b2s(rd)])
        g = rng.choice(gaps) if (len(reads) <= 12 or rng.random() < 0.1) else 0
        if g > 0:
            steps.append(["sleep", round(g, 3)])
    else:
        if cut_at == len(reads):
            if together and steps and steps[-1][0] == "send":
                steps[-1][0] = "send_eof"
            else:
                steps.append([ending])
        if fail_at == len(reads):
            steps.append(["fail_writes"])
    if pause_at is not None:
        steps += [["sleep", rng.choice([0.2, 1.5])], ["resume"]]
    if ending == "eof_late":
        steps += [["sleep", rng.choice([0.3, T_keep - 0.001, T_keep + 0.5])], ["eof"]]
    elif ending == "reset_late":
        steps += [["sleep", rng.choice([0.3, T_keep + 0.5])], ["reset"]]
    term = rng.choice([None, None, None, None, 0.0004, 0.0504, 0.5004, 1.0004, 2.5004])
    scripts = [_script(r, a) for r, a in zip(reqs, apps)] or [[["recv_body"]]]
    return {"family": "h1", "alpn": None, "cfg": cfg, "terminate_at": term, "apps": scripts, "client": steps,
            "methods": [r["method"].upper() for r in reqs] + ["GET"] * 4, "linger": T_keep + 3.0, "tail": 10,
            "meta": {"kinds": [r["kind"] for r in reqs], "apps": [[a["when"], a["crash"]] for a in apps], "seg": mode.split(":")[0], "ending": ending + ("+data" if any(st[0] == "send_eof" for st in steps) else ""),
                     "malformed": malformed is not None, "terminate": term is not None, "pause": pause_at is not None, "fail": fail_at is not None,
                     "cfg": [T_keep, cfg["keep_alive_max_requests"], "h11_max_incomplete_size" in cfg, "max_app_queue_size" in cfg, cfg.get("read_timeout")]}}


def gen_h2(rng: random.Random) -> dict:
    nstreams = rng.choice([1, 1, 2, 3])
    T_keep = rng.choice([1, 2, 5])
    cfg: Dict[str, Any] = {"keep_alive_timeout": T_keep}
    if rng.random() < 0.2:
        cfg["keep_alive_max_requests"] = rng.choice([1, 2])
    if rng.random() < 0.15:
        cfg["h2_max_concurrent_streams"] = rng.choice([1, 2])
    if rng.random() < 0.15:
        cfg["read_timeout"] = rng.choice([0.4, 0.7507, 3.0007])
    win = rng.choice([None, None, 0, 100, 20000])
    auto = rng.random() < 0.7
    h2opts = {"initial_window": win, "auto_window": auto}
    steps: List[list] = [["h2.pump"]]
    scripts: List[list] = []
    kinds = []
    for i in range(nstreams):
        kind = rng.choice(["get", "get", "post", "post_open", "connect_ws", "bad_path" if BAD_PATH else "get", "head"])
        kinds.append(kind)
        body_n = rng.choice([0, 1, 300, 20000, 70000])
        resp_chunks = rng.choice([[], ["ok"], ["a" * 20000, "b" * 20000], ["z" * 70000], ["p", "", "q"]])
        status = rng.choice([200, 200, 204, 404, 500])
        crash = rng.choice([None, None, None, "before_start", "after_start"])
        sends: List[list] = []
        if crash != "before_start":
            sends.append(["send", {"type": "http.response.start", "status": status, "headers": [(b"x-s", str(i).encode())]}])
            if crash is None:
                if not resp_chunks:
                    sends.append(["send", {"type": "http.response.body"}])
                for j, c in enumerate(resp_chunks):
                    sends.append(["send", {"type": "http.response.body", "body": c.encode(), "more_body": j < len(resp_chunks) - 1}])
        # a bare exception or an ExceptionGroup (an application with a task group of its own): the two task groups catch them in
        # different `except` clauses (Props/C16 task_groups_agree)
        tail = [[rng.choice(["raise", "raise", "raise_group"])]] if crash else []
        when = rng.choice(["after_body", "after_body", "eager", "never_read", "slow"])
        pre = {"after_body": [["recv_body"]], "eager": [], "never_read": [], "slow": [["sleep", rng.choice([0.5007, T_keep + 0.5007])], ["recv_body"]]}[when]
        if kind == "connect_ws":
            scripts.append([["recv"], ["send", {"type": "websocket.accept"}], ["send", {"type": "websocket.send", "text": "hi"}],
                            ["send", {"type": "websocket.close", "code": 1000}]])
            hs = C.h2_headers("CONNECT", "/ws", protocol="websocket", extra=[(b"sec-websocket-version", b"13")])
            steps.append(["h2.req", i, [[b2s(n), b2s(v)] for n, v in hs], None, False])
        else:
            scripts.append(pre + sends + tail)
            method = {"get": "GET", "post": "POST", "post_open": "POST", "bad_path": "GET", "head": "HEAD"}[kind]
            path = "/p%d?q=1" % i if kind != "bad_path" else "/caf\xe9"
            hs = C.h2_headers(method, path, extra=[(b"x-i", str(i).encode())])
            body = None if kind in ("get", "bad_path", "head") else "".join(chr(97 + (k + i) % 26) for k in range(body_n))
            steps.append(["h2.req", i, [[b2s(n), b2s(v)] for n, v in hs], body, kind != "post_open"])
        if rng.random() < 0.5:
            steps.append(["h2.pump"])
        if rng.random() < 0.2:
            steps.append(["sleep", rng.choice([0.1, T_keep - 0.001, T_keep + 0.001])])
    steps.append(["h2.pump"])
    # window games / resets / endings
    for _ in range(rng.choice([0, 1, 2, 4])):
        act = rng.choice(["win_stream", "win_conn", "rst", "ack", "sleep", "settings", "prio", "data_end"])
        i = rng.randrange(nstreams)
        if act == "win_stream":
            steps.append(["h2.win", i, rng.choice([1, 100, 16384, 100000])])
        elif act == "win_conn":
            steps.append(["h2.win", 0, rng.choice([1, 100, 16384, 100000])])
        elif act == "rst":
            steps.append(["h2.rst", i])
        elif act == "ack":
            steps.append(["h2.ack"])
        elif act == "sleep":
            steps.append(["sleep", rng.choice([0.1, 0.7, T_keep + 0.2])])
        elif act == "settings":
            steps.append(["h2.settings", {"4": rng.choice([0, 10, 65535, 200000])}])
        elif act == "prio":
            steps.append(["h2.prio", i, rng.choice([0, (i + 1) % nstreams]), rng.choice([1, 16, 256]), rng.random() < 0.3])
        elif act == "data_end" and kinds[i] == "post_open":
            steps.append(["h2.data", i, "tail", True])
        steps.append(["h2.pump"])
    ending = rng.choice(["idle", "idle", "eof", "reset", "fail_writes", "ack_then_idle"])
    if ending == "ack_then_idle":
        steps += [["h2.ack"], ["h2.pump"], ["sleep", 0.5], ["h2.ack"], ["h2.pump"]]
    elif ending in ("eof", "reset"):
        steps += [["sleep", rng.choice([0, 0.2])], [ending]]
    elif ending == "fail_writes":
        steps += [["fail_writes"], ["h2.win", 0, 1000], ["h2.pump"]]
    term = rng.choice([None, None, None, 0.0004, 0.3004, 1.5004])
    return {"family": "h2", "alpn": "h2", "h2opts": h2opts, "cfg": cfg, "terminate_at": term, "apps": scripts, "client": steps,
            "linger": T_keep + 3.0, "tail": 10,
            "meta": {"kinds": kinds, "window": win, "auto": auto, "ending": ending, "terminate": term is not None, "cfg": sorted(cfg)}}


def gen_ws(rng: random.Random) -> dict:
    from . import C10
    sess = C10.gen_session(rng)
    carrier = rng.choice(["h1", "h2"])
    seg = rng.choice([["one"], ["k", rng.choice([2, 3, 5]), rng.randrange(1 << 20)], ["bytes"]])
    if seg[0] == "bytes" and sum(len(f) for m in sess["msgs"] for f in m[2]) > 600:
        seg = ["one"]
    case = C10.to_wsrun(C10.e2e_case(sess, "asyncio", carrier, seg))
    # endings beyond the orderly close of C10
    ending = rng.choice(["close", "close", "eof", "reset", "idle", "app_close", "app_raise"])
    cl = case["client"]
    if ending in ("eof", "reset"):
        cl = [c for c in cl if c[0] not in ("close", "reply_close", "eof")] + [["flush"], [ending]]
    elif ending == "idle":
        cl = [c for c in cl if c[0] not in ("close", "reply_close", "eof")] + [["flush"], ["sleep", 7.0]]
    elif ending == "app_close":
        case["app"] = case["app"][:-1] + [["recv"], ["send", {"type": "websocket.close", "code": 4000}], ["recv"]]
        cl = [c for c in cl if c[0] not in ("close", "eof")] + [["flush"], ["sleep", 0.2], ["reply_close"], ["eof"]]
    elif ending == "app_raise":
        case["app"] = case["app"][:-1] + [["recv"], [rng.choice(["raise", "raise_group"])]]
    case["client"] = cl
    case["cfg"]["keep_alive_timeout"] = rng.choice([1, 5])
    case["meta"] = {"carrier": carrier, "seg": seg[0], "ending": ending, "deflate": sess["deflate"], "over": any(m[4] in ("max+1", "2max") for m in sess["msgs"])}
    case["family"] = "ws"
    return case


BAD_PATH = True
PACE = 0.003


def paced(script: List[list]) -> List[list]:
    """The property fixes the *timing* of client and application.  Two actions at the same virtual instant have no order
    that the input determines (the reader finishing a read and the application it just woke), so the applications react a
    few virtual milliseconds after whatever they waited for, and never at an instant at which the client acts (client
    actions sit on a grid that is disjoint from k * PACE offsets)."""
    out: List[list] = [["sleep", PACE]]          # an application that acts at once does so after the read that started it
    for st in script:
        if st[0] == "send":
            out.append(["sleep", PACE])
        out.append(st)
        if st[0] in ("recv", "recv_body", "recv_until_disconnect"):
            out.append(["sleep", PACE])
    return out


# --------------------------------------------------------------------------------------------------------------
# twin execution and judgement
# --------------------------------------------------------------------------------------------------------------
WS_FIELDS = ("client", "accepted", "apps", "closed_at", "h2_error", "h2_goaway")


def _ws_norm(o: dict) -> dict:
    hs = (o.get("client") or {}).get("handshake")
    if hs and hs.get("headers"):
        # the accept token answers the client's random key; the date is excluded by the property
        hs["headers"] = [h for h in hs["headers"] if h[0].lower() not in ("date", "sec-websocket-accept")]
    return o


def twin(sess: dict) -> Dict[str, Any]:
    if sess["family"] == "ws":
        sess = {**sess, "app": paced(sess["app"])}
        oa = _ws_norm(W.run_session({**sess, "worker": "asyncio"}))
        ot = _ws_norm(W.run_session({**sess, "worker": "trio"}))
        diffs = [{"field": k, "asyncio": T._short(oa[k]), "trio": T._short(ot[k])} for k in WS_FIELDS if oa[k] != ot[k]]
        internal = {w: {k: o[k] for k in ("error", "loop_errors", "client_error", "stuck_session") if o[k]} for w, o in (("asyncio", oa), ("trio", ot))}
        return {"diffs": diffs, "internal": internal, "aux": {"handler_done": [oa["handler_done"], ot["handler_done"]], "access": [len(oa["access"]), len(ot["access"])]},
                "closed_at": oa["closed_at"], "n_apps": len(oa["apps"]),
                "shell": {"asyncio": T.shell_ops(sess, oa, "asyncio"), "trio": T.shell_ops(sess, ot, "trio")}}
    sess = {**sess, "apps": [paced(a) for a in sess["apps"]]}
    ra, rt = T.run_session("asyncio", sess), T.run_session("trio", sess)
    oa, ot = T.observation(sess, ra), T.observation(sess, rt)
    internal = {w: {k: v for k, v in o["internal"].items() if v} for w, o in (("asyncio", oa), ("trio", ot))}
    return {"diffs": T.diff(oa, ot), "internal": internal,
            "aux": {"handler_done": [oa["aux"]["handler_done"], ot["aux"]["handler_done"]], "access": [len(oa["aux"]["access"]), len(ot["aux"]["access"])],
                    "notes": [oa["aux"]["notes"], ot["aux"]["notes"]]},
            "closed_at": oa["closed_at"], "n_apps": len(oa["apps"]),
            "shell": {"asyncio": T.shell_ops(sess, ra, "asyncio"), "trio": T.shell_ops(sess, rt, "trio")}}


def judge(ctx: Ctx, sess: dict, r: Dict[str, Any]) -> None:
    ctx.evaluations += 1
    ctx.traces_validated += 2
    fam = sess["family"]
    meta = sess.get("meta", {})
    ctx.count("family", fam)
    ctx.count("ending", f"{fam}:{meta.get('ending')}")
    if fam == "h1":
        for k in meta.get("kinds", []):
            ctx.count("h1_request_kind", k)
        ctx.count("h1_seg", meta.get("seg", "corpus"))
    ctx.count("server_closed", r["closed_at"] is not None)
    ctx.count("instances", r["n_apps"])
    ctx.distinct([fam, meta])
    ctx.sample({"family": fam, "meta": meta, "closed_at": r["closed_at"], "instances": r["n_apps"], "aux": r["aux"]}, cap=4)
    sig = {"family": fam}
    for d in r["diffs"]:
        ctx.violation("worker_dependent", sess, {"diff": d, "aux": r["aux"]}, {**sig, "field": d["field"], "what": d.get("what"), "ending": meta.get("ending")})
    # an internal error in one worker only is also a worker dependence (both failing alike belongs to C04)
    ia, it = r["internal"]["asyncio"], r["internal"]["trio"]
    if bool(ia) != bool(it):
        ctx.violation("worker_dependent_internal_error", sess, r["internal"], {**sig, "field": "internal"})


def check_shell(ctx: Ctx, pending: List[tuple]) -> None:
    """trace acceptance: the boundary ops of every real run, replayed through the Lean shell model of that worker"""
    reqs, idx = [], []
    for sess, r in pending:
        for w in ("asyncio", "trio"):
            sh = (r.get("shell") or {}).get(w)
            if sh is None or r["internal"][w]:
                continue          # no taps / the handler itself failed (C04's business; the shell model has no crash)
            reqs.append({"cmd": "shell.run", "rt": w, "ops": sh["ops"]})
            idx.append((sess, w, sh))
    model = ctx.model(reqs)
    if model is None:
        return
    for (sess, w, sh), m in zip(idx, model):
        ctx.disagreements_checked += 1
        ctx.count("shell_ops", len(sh["ops"]) // 10 * 10)
        for o in sh["ops"]:
            ctx.count("shell_op_kind", o[0] + (":" + str(o[1]) if o[0] in ("readEmpty", "pUpdated") else ""))
        mo = m.get("ok")
        if mo is None:
            ctx.disagree("shell.run:error", {"worker": w, "ops": sh["ops"], "meta": sess.get("meta")}, m, sh)
            continue
        # `protocol.handle` calls made while the transport is open: exactly, in order; those made after the server closed
        # it (invisible, and their mutual order depends on where `_close()` awaits): as a multiset
        nopen = sum(1 for h in mo["handled"] if h[2])
        got = {"accepted": True, "handled_open": sh["handled"][:nopen], "handled_after_close": sorted(sh["handled"][nopen:]),
               "written": sh["written"], "closed": sh["closed"]}
        want = {"accepted": mo["accepted"], "handled_open": [h[:2] for h in mo["handled"] if h[2]],
                "handled_after_close": sorted(h[:2] for h in mo["handled"] if not h[2]), "written": mo["written"], "closed": mo["closed"]}
        # bytes the shell handed to a broken transport are not "written" for the model; the real writers count what they accepted
        if got != want:
            ctx.disagree("shell.run", {"worker": w, "ops": sh["ops"], "meta": sess.get("meta"), "family": sess["family"], "session": sess}, want, got)


def corpus() -> List[dict]:
    """hand-picked sessions that exercise each worker-specific primitive (run first, every time)"""
    ok = [["recv_body"], ["send", {"type": "http.response.start", "status": 200, "headers": [(b"content-length", b"2")]}], ["send", {"type": "http.response.body", "body": b"ok"}]]
    get = "GET / HTTP/1.1\r\nHost: x\r\n\r\n"
    partial = "POST / HTTP/1.1\r\nHost: x\r\nContent-Length: 10\r\n\r\nabc"
    out = []

    def h1(steps, name, cfg=None, term=None, apps=None, methods=None):
        out.append({"family": "h1", "alpn": None, "cfg": {"keep_alive_timeout": 2, **(cfg or {})}, "terminate_at": term, "apps": apps or [ok], "client": steps,
                    "methods": methods or ["GET"] * 6, "linger": 5.0, "tail": 8, "meta": {"corpus": name, "ending": name}})
    h1([["send", get]], "idle_timeout")
    h1([["send", get], ["sleep", 1.999], ["send", get]], "rearm_before_timeout")
    h1([["send", get], ["sleep", 2.001], ["send", get]], "after_timeout")
    h1([["send", get], ["eof"]], "eof_after_request")
    h1([["send_eof", get]], "eof+data complete")
    h1([["send_eof", partial]], "eof+data", methods=["POST"])
    h1([["send", partial], ["eof"]], "eof_truncated", methods=["POST"])
    h1([["send", "GET / HT"], ["sleep", 0.5], ["send_eof", "TP/1.1\r\nHo"]], "eof+data in head")
    h1([["send", get], ["reset"]], "reset_after_request")
    h1([["send", partial], ["reset"]], "reset_truncated", methods=["POST"])
    h1([["fail_writes"], ["send", get]], "write_failure")
    h1([["pause"], ["send", get], ["sleep", 1.0], ["resume"]], "paused_transport")
    h1([["send", get]], "terminate_idle", term=0.5004)
    h1([["send", "GET / HTTP/1.1\r\nHost: x\r\nConnection: close\r\n\r\n"]], "server_close")
    h1([["send", "GARBAGE\r\n\r\n"]], "malformed")
    h1([["send", get + get + get]], "pipeline", cfg={"keep_alive_max_requests": 2})
    h1([], "silent_client")
    # bursts larger than one read of either worker (MAX_RECV): how a burst is cut into reads decides whether a long head is ever seen
    # incomplete beyond h11_max_incomplete_size (431) and where the `http.request` messages of a body are cut
    for kb in (12, 20, 40, 60, 70, 130):
        h1([["send", "GET / HTTP/1.1\r\nHost: x\r\nCookie: " + "c" * (kb * 1024) + "\r\n\r\n"]], f"head_burst_{kb}k")
    for kb in (20, 70, 200):
        h1([["send", f"POST / HTTP/1.1\r\nHost: x\r\nContent-Length: {kb * 1024}\r\n\r\n" + "b" * (kb * 1024)]], f"body_burst_{kb}k", methods=["POST"])
    h1([["send", get]], "app_raises", apps=[[["raise"]]])
    h1([["send", get]], "app_raises_group", apps=[[["raise_group"]]])
    h1([["send", get]], "app_raises_group_after_start", apps=[[ok[1], ["raise_group"]]])
    h1([["send", get]], "slow_app_past_timeout", apps=[[["sleep", 3.0007]] + ok])
    slow = [["recv_body"], ["sleep", 1.5007]] + ok[1:]
    h1([["send", get + get]], "read_timeout_pipelined_behind_slow_response", cfg={"read_timeout": 0.5, "keep_alive_timeout": 5}, apps=[slow, ok])
    h1([["send", "POST / HTTP/1.1\r\nHost: x\r\nTransfer-Encoding: chunked\r\n\r\n" + "".join("1\r\n%s\r\n" % chr(97 + i % 26) for i in range(30)) + "0\r\n\r\n"]],
       "read_timeout_body_backpressure", cfg={"read_timeout": 0.5, "keep_alive_timeout": 5}, apps=[[["sleep", 1.2007]] + ok], methods=["POST"])
    h1([["send", get], ["sleep", 0.7]], "read_timeout_idle", cfg={"read_timeout": 0.5, "keep_alive_timeout": 5})
    # the application keeps sending after the server closed the connection itself (write after write_eof / aclose)
    streaming = [["send", {"type": "http.response.start", "status": 200, "headers": []}], ["send", {"type": "http.response.body", "body": b"a", "more_body": True}],
                 ["recv"], ["recv"], ["send", {"type": "http.response.body", "body": b"b", "more_body": True}], ["send", {"type": "http.response.body", "body": b"c"}]]
    h1([["send", "POST / HTTP/1.1\r\nHost: x\r\nTransfer-Encoding: chunked\r\n\r\n1\r\na\r\n"], ["sleep", 0.1], ["send", "zz\r\nbroken"], ["sleep", 1.0]],
       "send_after_server_close", apps=[streaming], methods=["POST"])
    # minimised past failures (each was a genuine defect, see design_notes/C16.md), kept as found and run first in every tier
    past = Path(__file__).resolve().parents[1] / "data" / "c16_corpus.json"
    if past.exists():
        from harness.core.conn import revive
        out += [revive(c) for c in json.loads(past.read_text())]
    return out


def run(ctx: Ctx) -> None:
    T.install_taps()
    rng = ctx.rng
    n = ctx.budget(600, 8000)
    sessions = corpus()
    for i in range(n):
        f = rng.choices(["h1", "h2", "ws"], weights=[5, 3, 2])[0]
        sessions.append({"h1": gen_h1, "h2": gen_h2, "ws": gen_ws}[f](rng))
    pending = []
    for s in sessions:
        r = twin(s)
        judge(ctx, s, r)
        pending.append((s, r))
    check_shell(ctx, pending)


def replay(ctx: Ctx, case: dict) -> None:
    T.install_taps()
    r = twin(case)
    judge(ctx, case, r)
    check_shell(ctx, [(case, r)])
