"""C08 — send backpressure is applied, bounded, and always released.

Layer 1 (direct, HTTP/2 flow-control pressure): the real `H2Protocol` under `harness/core/h2drive.py` — an exhaustive grid
(window 0 / 1 / exhausted) x (release by credit / RST_STREAM / client EOF / write error) x (sender waiting in push / in the
final drain) with a sibling stream that must complete, random "pressure" schedules (many writes against closed windows,
release events at random points), and two connections on one event loop.  Trace acceptance against the Lean model and the
C08 monitors (bytes held per stream below HIGH + 2*largest write, measured inside and from outside; no send still waiting
at quiescence unless its stream really has no credit; never after reset / close / write error).
Layer 2 (end-to-end, both workers): transport-level pressure (the client does not read: `ClientIO.pause_writes`) on HTTP/1,
WebSocket and HTTP/2, and window pressure on HTTP/2 and WebSocket-over-HTTP/2: while the pressure lasts the application's
sends complete only up to a bounded amount; they complete when it abates; they return on reset / EOF."""
from __future__ import annotations

import random
from typing import Any, Dict, List, Optional

from ..core import clients as C
from ..core import h2drive as H
from ..core import runner as R
from ..core.framework import Ctx
from . import C09 as G9

SPEC = {
    "modules": ["HC.Props.C08", "HC.Props.C09"],
    "extracted": ["Guards", "Consts", "Excepts", "Atomic"],
    "technique": "Lean 4 invariants over all op sequences of the HTTP/2 send-path model (shared with C09) with the water marks, the push comparison and the pop release rule EXTRACTED from StreamBuffer: buffer bound, wait at the high-water mark, no release at an exhausted window, release on credit / reset / close, isolation of a waiting sender; all of it over runs in which the priority library hands out a stream the tree does not know and the tree is rebuilt (extended machine, blocked status of the re-inserted streams extracted); tied by trace acceptance of the real H2Protocol and by monitors measuring held bytes and returned sends, plus end-to-end transport pressure on HTTP/1, WebSocket and HTTP/2 on both workers",
    "level_text": "Proved in Lean for every interleaving (any number of streams, any write sizes up to c, any schedule of the send task and the reader): a stream's buffer stays below HIGH + 2c (extracted BUFFER_HIGH_WATER, push comparison and pop release rule); a write reaching the high-water mark waits, and a pop that takes nothing at an exhausted window does not release it; with the send task quiescent on an open connection a sender still waiting has bytes buffered on a non-reset stream without credit, so credit releases it; a stream reset by the client or abandoned by the server has its waiting sender's wake-up enabled in every reachable state, and after handle(Closed) every waiting sender's wake-up is enabled and new writes do not wait; whether ops of other streams, the send task or the reader are enabled does not depend on a stream's waiting sender; every one of these also over runs in which the priority tree is rebuilt at any time the library hands out a non-member (rebuild_keeps_waiting_streams_schedulable: every buffered stream is an unblocked member of the fresh tree, its pick enabled).  Tie: closed-window cells with the client's SETTINGS_MAX_FRAME_SIZE at 16384 and 2**24-1 (the bound is fixed, not the peer's); PRIORITY dependency loops that make priority 2.0.0 schedule a completed stream whilst another stream's sender waits with credit; exhaustive grid (54 cells) + generated pressure schedules of the real H2Protocol accepted op by op by the model; monitors on held bytes (len(StreamBuffer.buffer) and accepted-minus-delivered) and on sends still waiting at quiescence; end-to-end on both workers: paused transport / closed window on HTTP/1, WebSocket, HTTP/2, WebSocket-over-HTTP/2 with release by resume, credit, RST_STREAM, EOF and connection reset.",
    "level_note": "Trusted: as C09.  The HTTP/1 and WebSocket transport-level clause (send_lock held across write + drain: at most one write outstanding per connection) is NOT modelled in Lean; it is checked by the end-to-end monitors on both workers only (partial).  'Promptly' is 'within the same quiescence' (virtual time), not wall-clock latency.  A client half-close while the TRANSPORT is paused does not release a sender blocked in drain() (the transport, not hypercorn, owns that wait); the EOF release is checked under window pressure.",
    "rule": "grid cell (window, release event, wait position[, client SETTINGS_MAX_FRAME_SIZE 16384 / 2**24-1]) + PRIORITY-loop schedules (tree rebuilt whilst a sender waits) + distinct generated (profile, window, streams, app kinds, client actions, terminal event); non-trivial = some send() actually waited",
    "trusted": ["h2 4.4.1, priority 2.0.0, wsproto, h11 as libraries", "in-memory transports' pause/fail semantics (harness/core/runner.py)"],
    "partial": ["F73 (known): WebSocket-over-HTTP/2 control-frame replies pushed by the reader task can park the reader at the high-water mark",
                "h1_held_bounded (HTTP/1 / WebSocket transport-level backpressure): monitored end-to-end on both workers, not proved in Lean"],
    "assumptions": ["one pending send per stream (sequential ASGI application)"],
}


# ------------------------------------------------------------------------------------------------------------
# layer 1: grid
# ------------------------------------------------------------------------------------------------------------
def grid() -> List[dict]:
    out = []
    for window in ("zero", "one", "exhausted"):
        for event in ("credit", "rst", "eof", "write_error", "settings", "conn_credit"):
            for pos in ("push", "drain", "push_trio"):
                iw = {"zero": 0, "one": 1, "exhausted": 20000}[window]
                if pos.startswith("push"):
                    app = [{"start": 200}] + [{"body": 20000, "more": True}] * 5 + [{"body": 10, "more": False}]
                else:
                    app = [{"start": 200}, {"body": 30000, "more": False}]      # small enough not to wait in push, waits in the final drain
                acts: List[dict] = [{"do": "open", "sid": 1, "app": app},
                                    {"do": "open", "sid": 3, "app": [{"start": 200}, {"body": 5, "more": False}]},
                                    {"do": "settle", "tag": "pressure"},
                                    {"do": "win", "sid": 3, "n": 100},         # the sibling gets credit and must complete while 1 is stalled
                                    {"do": "settle", "tag": "sibling"}]
                if event == "credit":
                    acts += [{"do": "win", "sid": 1, "n": 1}, {"do": "settle"}, {"do": "drain_all"}]
                elif event == "conn_credit":
                    acts += [{"do": "winconn", "n": 5}, {"do": "settle"}, {"do": "drain_all"}]
                elif event == "settings":
                    acts += [{"do": "settings", "v": 60000}, {"do": "settle"}, {"do": "drain_all"}]
                elif event == "rst":
                    acts += [{"do": "rst", "sid": 1}, {"do": "settle", "tag": "after_rst"}, {"do": "drain_all"}]
                elif event == "eof":
                    acts += [{"do": "closed"}, {"do": "settle", "tag": "after_close"}]
                else:
                    acts += [{"do": "fail_writes"}, {"do": "win", "sid": 1, "n": 70000}, {"do": "settle", "tag": "after_write_error"}]
                out.append({"seed": len(out), "density": 0.3, "trio_like": pos.endswith("trio"), "initial_window": iw, "max_frame": None, "profile": "grid8",
                            "actions": acts, "cell": [window, event, pos], "terminal": event in ("eof", "write_error"),
                            "apps": {"1": {"kind": "grid", "sizes": []}, "3": {"kind": "sibling", "sizes": [5]}}})
    return out


MAX_FRAME_EXTREMES = (16384, 2 ** 24 - 1)          # the range of SETTINGS_MAX_FRAME_SIZE (RFC 7540 6.5.2)


def frame_size_grid() -> List[dict]:
    """the bound is FIXED - it does not move with what the peer negotiates: the same closed-window cells with the client's
    SETTINGS_MAX_FRAME_SIZE at both extremes (and INITIAL_WINDOW_SIZE 0 / a window that is used up), an application that
    writes far more than any bound in pieces of 20 000 bytes, in the body and on the final drain"""
    out = []
    for mf in MAX_FRAME_EXTREMES:
        for window in ("zero", "exhausted"):
            for pos in ("push", "drain", "push_trio"):
                iw = {"zero": 0, "exhausted": 20000}[window]
                if pos.startswith("push"):
                    app = [{"start": 200}] + [{"body": 20000, "more": True}] * 12 + [{"body": 10, "more": False}]
                else:
                    app = [{"start": 200}, {"body": 30000, "more": False}]
                acts: List[dict] = [{"do": "open", "sid": 1, "app": app},
                                    {"do": "open", "sid": 3, "app": [{"start": 200}, {"body": 5, "more": False}]},
                                    {"do": "settle", "tag": "pressure"},
                                    {"do": "win", "sid": 3, "n": 100},
                                    {"do": "settle", "tag": "sibling"},
                                    {"do": "win", "sid": 1, "n": 1}, {"do": "settle"}, {"do": "drain_all"}]
                out.append({"seed": 100 + len(out), "density": 0.3, "trio_like": pos.endswith("trio"), "initial_window": iw, "max_frame": mf, "profile": "grid8mf",
                            "actions": acts, "cell": [window, "credit", pos, f"max_frame={mf}"], "terminal": False,
                            "apps": {"1": {"kind": "grid", "sizes": []}, "3": {"kind": "sibling", "sizes": [5]}}})
    return out


def grid_monitor(ctx: Ctx, sc: dict, res: dict) -> None:
    """cell-specific expectations on top of the generic monitors"""
    sig = {"layer": "direct", "cell": "/".join(sc["cell"])}
    qs = {q["tag"]: q for q in res["quiescent"] if q.get("tag")}
    p = qs.get("pressure")
    if p and p["quiet"]:
        a = p["apps"].get("1")
        if a and not a["waiting"] and not a["done"]:
            pass
        if a and not a["waiting"] and sc["cell"][0] != "exhausted":
            # backpressure applied: against a closed window the application cannot have finished 100 kB / its final drain
            ctx.violation("backpressure_not_applied", G9._case(sc), {"app": a, "bufs": p["bufs"]}, sig)
    sib = qs.get("sibling")
    if sib and sib["quiet"]:
        if sib["ledger"]["end"].get(3, 0) != 1 or sib["ledger"]["data"].get(3, 0) != 5:
            ctx.violation("sibling_blocked_by_waiting_send", G9._case(sc), {"ledger": sib["ledger"], "apps": sib["apps"]}, sig)
    if p and p["quiet"] and sc["cell"][2].startswith("push") and sc["profile"] == "grid8mf":
        # 240 010 bytes offered against a closed / used-up window: the writes accepted so far stay within the fixed bound,
        # whatever frame size the client advertises
        a = p["apps"].get("1")
        bound = G9._high() + 2 * 20000 + sc["initial_window"]
        if a and a["written"] > bound:
            ctx.violation("held_beyond_bound", G9._case(sc), {"accepted_whilst_the_window_is_closed": a["written"], "bound": bound, "bufs": p["bufs"],
                                                             "client_max_frame_size": sc["max_frame"]}, {**sig, "measure": "accepted"})
    final = res["quiescent"][-1]
    if final["quiet"] and final["apps"].get("1", {}).get("waiting"):
        ctx.violation("send_never_returned", G9._case(sc), {"app": final["apps"]["1"], "bufs": final["bufs"]}, {"layer": "direct", "event": sc["cell"][1]})


def check_pairs(ctx: Ctx) -> None:
    """a send blocked on one connection does not block another connection's sends"""
    for k in range(3):
        a = {"seed": 10 + k, "density": 0.3, "initial_window": 0, "profile": "pair", "actions": [
            {"do": "open", "sid": 1, "app": [{"start": 200}] + [{"body": 20000, "more": True}] * 6 + [{"body": 1, "more": False}]},
            {"do": "settle"}, {"do": "turns", "n": 300}, {"do": "settle"}]}
        b = {"seed": 20 + k, "density": 0.3, "initial_window": 65535, "profile": "pair", "actions": [
            {"do": "turns", "n": 20}, {"do": "open", "sid": 1, "app": [{"start": 200}, {"body": 30000, "more": True}, {"body": 20000, "more": False}]},
            {"do": "settle"}, {"do": "drain_all"}]}
        ra, rb = H.run_pair(a, b)
        ctx.evaluations += 1
        ctx.count("profile", "pair")
        fa, fb = ra["quiescent"][-1], rb["quiescent"][-1]
        if "1" not in fa["apps"] or "1" not in fb["apps"]:
            # the request never reached an application: the reader raised out of `handle()` (a defect of the code under test, reported
            # as such), or the harness is broken (exit 2)
            errs = {"a": ra["reader_error"], "b": rb["reader_error"]}
            if not (errs["a"] or errs["b"]):
                raise RuntimeError(f"C08 pair harness problem: no application was started: {ra['errors'][:2]} {rb['errors'][:2]}")
            ctx.violation("reader_died", {"layer": "pair", "k": k}, errs, {"layer": "pair", "error": str(errs["a"] or errs["b"]).split(":")[0]})
            continue
        if fa["apps"]["1"]["waiting"]:
            ctx.distinct(["pair", k])
        if not fa["apps"]["1"]["waiting"]:
            ctx.violation("backpressure_not_applied", {"layer": "pair", "k": k}, fa["apps"], {"layer": "pair"})
        if rb["ledger"]["data"].get(1, 0) != 50000 or rb["ledger"]["end"].get(1, 0) != 1 or fb["apps"]["1"]["waiting"]:
            ctx.violation("other_connection_blocked", {"layer": "pair", "k": k}, {"b": fb["apps"], "data": rb["ledger"]["data"]}, {"layer": "pair"})


# ------------------------------------------------------------------------------------------------------------
# layer 2: end-to-end on both workers
# ------------------------------------------------------------------------------------------------------------
CH = 20000
NCH = 8


def e2e_grid() -> List[dict]:
    out = []
    for proto in ("h1", "ws", "h2"):
        for phase in ("from_start", "mid_body"):
            for release in ("resume", "reset"):
                out.append({"layer": "e2e", "proto": proto, "pressure": "transport", "phase": phase, "release": release})
    for proto in ("h2", "wsh2"):
        for phase in ("mid_body", "final_drain"):
            for release in ("credit", "rst", "eof", "reset"):
                if proto == "wsh2" and phase == "final_drain":
                    continue
                out.append({"layer": "e2e", "proto": proto, "pressure": "window", "phase": phase, "release": release})
    # the bound does not move with the frame size the client advertises (SETTINGS_MAX_FRAME_SIZE at its maximum)
    for release in ("credit", "rst"):
        out.append({"layer": "e2e", "proto": "h2", "pressure": "window", "phase": "mid_body", "release": release, "max_frame": 2 ** 24 - 1})
    return out


def _app(case: dict) -> List[list]:
    proto = case["proto"]
    steps: List[list] = []
    if proto in ("ws", "wsh2"):
        steps += [["recv"], ["send", {"type": "websocket.accept"}]]
        for k in range(NCH):
            steps += [["sleep", 0.1], ["send", {"type": "websocket.send", "bytes": bytes([65 + k]) * CH}]]
        steps += [["send", {"type": "websocket.close", "code": 1000}]]
        return steps
    steps.append(["send", {"type": "http.response.start", "status": 200, "headers": []}])
    if case["phase"] == "final_drain":
        steps.append(["send", {"type": "http.response.body", "body": b"Z" * 30000}])
        return steps
    for k in range(NCH):
        steps += [["sleep", 0.1], ["send", {"type": "http.response.body", "body": bytes([65 + k]) * CH, "more_body": True}]]
    steps.append(["send", {"type": "http.response.body", "body": b""}])
    return steps


SIB = [["send", {"type": "http.response.start", "status": 200, "headers": []}], ["send", {"type": "http.response.body", "body": b"sibling"}]]


def run_e2e(case: dict, worker: str) -> dict:
    proto, release = case["proto"], case["release"]
    marks: Dict[str, Any] = {}

    async def client(io):
        t = io.rec.t
        h2c: Optional[C.H2Client] = None
        sid = sib = 0
        ws: Optional[C.WsClient] = None
        window_pressure = case["pressure"] == "window"
        if proto in ("h2", "wsh2"):
            h2c = C.H2Client(initial_window=(0 if window_pressure and case["phase"] == "final_drain" else (CH + 5000 if window_pressure else 1 << 20)),
                             auto_window=not window_pressure, max_frame=case.get("max_frame"))
            if not window_pressure:
                h2c.conn.increment_flow_control_window(1 << 20)
        if case["pressure"] == "transport" and case["phase"] == "from_start":
            io.pause_writes()
            marks["paused_at"] = t()
        if proto == "h1":
            await io.send(C.h1_request("GET", "/", [(b"host", b"x")]))
        elif proto == "ws":
            ws = C.WsClient(random.Random(1))
            await io.send(ws.h1_request())
        elif proto == "h2":
            sid = h2c.request(C.h2_headers("GET", "/a"))
            await h2c.pump(io)
        else:
            ws = C.WsClient(random.Random(1))
            sid = h2c.request(ws.h2_request_headers(), end=False)
            await h2c.pump(io)
        if window_pressure and proto == "h2":
            sib = h2c.request(C.h2_headers("GET", "/sib"))
            h2c.conn.increment_flow_control_window(1000, stream_id=sib)      # the sibling has credit whatever the initial window
            await h2c.pump(io)
        if case["pressure"] == "transport" and case["phase"] == "mid_body":
            await io.sleep(0.25)
            if h2c is not None:
                await h2c.pump(io)
            io.pause_writes()
            marks["paused_at"] = t()
        if window_pressure:
            marks["paused_at"] = t()       # no credit is ever granted beyond the initial window
        await io.sleep(3.0)
        if h2c is not None and window_pressure:
            await h2c.pump(io)
            await io.sleep(1.0)
            await h2c.pump(io)
            if sib:
                marks["sibling"] = dict(h2c.streams.get(sib, {}))
                marks["sibling"]["data"] = bytes(marks["sibling"].get("data", b""))
        marks["released_at"] = t()
        if release == "resume":
            await io.resume_writes()
        elif release == "credit":
            for _ in range(30):
                try:
                    h2c.conn.increment_flow_control_window(100000, stream_id=sid)
                except Exception:
                    pass
                h2c.conn.increment_flow_control_window(100000)
                await h2c.pump(io)
                await io.sleep(0.2)
                await h2c.pump(io)
                if h2c.streams[sid]["ended"]:
                    break
        elif release == "rst":
            h2c.conn.reset_stream(sid, error_code=8)
            await io.send(h2c.out())
        elif release == "eof":
            await io.eof()
        elif release == "reset":
            await io.reset()
            await io.resume_writes()
        await io.sleep(3.0)
        if h2c is not None and release in ("resume", "credit"):
            await h2c.pump(io)
            await io.sleep(0.5)
            await h2c.pump(io)
        marks["end"] = t()
        out: Dict[str, Any] = {"marks": marks}
        if h2c is not None:
            out["h2"] = h2c.summary()
            out["sid"] = sid
        return out

    cfg = {"keep_alive_timeout": 30, "websocket_ping_interval": None}
    scripts = [_app(case), SIB] if (proto == "h2" and case["pressure"] == "window") else [_app(case)]
    return G9._runner(worker)(cfg, "h2" if proto in ("h2", "wsh2") else None, client, scripts, tail=5)


def check_e2e(ctx: Ctx, cases: List[dict]) -> None:
    high = G9._high()
    stuck = 0
    for case in cases:
        for worker in ("asyncio", "trio"):
            res = run_e2e(case, worker)
            ctx.evaluations += 1
            ctx.count("e2e.proto", case["proto"])
            ctx.count("e2e.pressure", case["pressure"])
            ctx.count("e2e.release", case["release"])
            cc = {**case, "worker": worker}
            sig = {"layer": "e2e", "proto": case["proto"], "pressure": case["pressure"], "worker": worker}
            if res.get("stuck_session"):
                ctx.violation("spinning", cc, "the session never reported", {**sig, "error": "stuck"})
                stuck += 1
                if stuck >= 3:
                    return
                continue
            cr = res.get("client_result")
            if not cr or not res["apps"]:
                raise RuntimeError(f"C08 e2e harness problem: {res.get('client_error')} apps={len(res['apps'])}")
            m = cr["marks"]
            app = res["apps"][0]
            body_types = ("http.response.body", "websocket.send")
            sends = [s for s in app["send"] if s[1] in body_types]
            during = [s for s in sends if m["paused_at"] < s[0] <= m["released_at"] and s[2] == "ok"]
            accepted_during = len(during) * CH if case["phase"] != "final_drain" else 0
            if case["pressure"] == "transport":
                bound = CH if case["proto"] in ("h1", "ws") else high + 2 * CH + 16384
            else:
                bound = high + 2 * CH + (CH + 5000)
            waited = len(sends) < (1 if case["phase"] == "final_drain" else NCH) or any(s[0] > m["released_at"] for s in app["send"])
            ctx.count("e2e.a_send_waited", waited)
            if waited:
                ctx.distinct(["e2e", case["proto"], case["pressure"], case["phase"], case["release"], worker, case.get("max_frame")])
            if accepted_during > bound:
                ctx.violation("held_beyond_bound", cc, {"accepted_while_client_accepts_nothing": accepted_during, "bound": bound}, sig)
            pressure_sends = [s for s in app["send"] if s[0] <= m["released_at"]]
            all_returned_before_release = app["exit"] is not None and app.get("t_exit", 1 << 60) < m["released_at"]
            if all_returned_before_release:
                ctx.violation("backpressure_not_applied", cc, {"app_exit_at": app.get("t_exit"), "released_at": m["released_at"], "sends": pressure_sends[-3:]}, sig)
            if app["exit"] is None:
                ctx.violation("send_never_returned", cc, {"sends": app["send"][-3:], "release": case["release"]}, {**sig, "event": case["release"]})
            if case["release"] in ("resume", "credit"):
                if case["proto"] in ("h2", "wsh2"):
                    st = cr["h2"]["streams"].get(str(cr["sid"]), {})
                    want = 30000 if case["phase"] == "final_drain" else NCH * CH
                    got = len(st.get("data", ""))
                    if case["proto"] == "h2" and (got != want or not st.get("ended")):
                        ctx.violation("not_delivered_after_release", cc, {"got": got, "want": want, "ended": st.get("ended")}, sig)
                    if case["proto"] == "wsh2" and got < NCH * CH:
                        ctx.violation("not_delivered_after_release", cc, {"got": got, "want_at_least": NCH * CH}, sig)
                else:
                    if len(res["out"]) < NCH * CH:
                        ctx.violation("not_delivered_after_release", cc, {"written": len(res["out"]), "want_at_least": NCH * CH}, sig)
            if "sibling" in m:
                sb = m["sibling"]
                if not (sb.get("ended") and sb.get("data") == b"sibling"):
                    ctx.violation("sibling_blocked_by_waiting_send", cc, {"ended": sb.get("ended"), "data": len(sb.get("data", b""))}, sig)
            if res["error"] or res["loop_errors"]:
                ctx.violation("send_task_died", cc, {"error": res["error"], "loop": res["loop_errors"]}, {**sig, "error": str(res["error"])})


def check_ws_control_replies(ctx: Ctx) -> None:
    """WebSocket over HTTP/2: replies to control frames (pong, close) are pushed into the stream buffer by the READER task.
    With the stream window closed and the buffer at the high-water mark that push parks the reader itself: no WINDOW_UPDATE,
    no other stream's frames are read any more - a waiting send blocking every other stream (finding F73)."""
    app = [["recv"], ["send", {"type": "websocket.accept"}], ["recv_until_disconnect"]]
    for worker in ("asyncio", "trio"):
        async def client(io):
            h2c = C.H2Client(initial_window=0, auto_window=False)
            ws = C.WsClient(random.Random(1))
            sid = h2c.request(ws.h2_request_headers(), end=False)
            await h2c.pump(io)
            await io.sleep(0.2)
            await h2c.pump(io)
            for _ in range(400):                       # 400 pongs of 127 bytes > BUFFER_HIGH_WATER
                h2c.conn.send_data(sid, ws.ping(b"p" * 125))
                await io.send(h2c.out())
            await io.sleep(0.5)
            sib = h2c.request(C.h2_headers("GET", "/sib"))
            h2c.conn.increment_flow_control_window(1000, stream_id=sib)
            await io.send(h2c.out())
            await io.sleep(1.0)
            h2c.receive(io.take())
            return {"sib": h2c.summary()["streams"].get(str(sib))}
        res = G9._runner(worker)({"keep_alive_timeout": 30, "websocket_ping_interval": None}, "h2", client, [app, SIB], tail=3)
        ctx.evaluations += 1
        ctx.count("e2e.proto", "wsh2-control-replies")
        case = {"layer": "ws_control", "worker": worker}
        cr = res.get("client_result") or {}
        sib = cr.get("sib") or {}
        if res.get("stuck_session") or not (sib.get("ended") and sib.get("data") == "sibling"):
            ctx.violation("reader_parked_by_control_frame_reply", case,
                          {"sibling": {"ended": sib.get("ended"), "data": sib.get("data")}, "reads": sum(1 for l in res["labels"] if l[1] == "srvRead"),
                           "applications_started": len(res["apps"])},
                          {"layer": "e2e", "proto": "wsh2", "trigger": "ping_flood_closed_window"})


def run(ctx: Ctx) -> None:
    H.limit_memory()
    cells = grid() + frame_size_grid()
    ctx.exhaustive = True
    for lo in range(0, len(cells), 200):
        part = cells[lo: lo + 200]
        G9.check_direct(ctx, part, "C08")
    for sc in cells:          # cell-specific expectations need the results again: cheap, re-run
        grid_monitor(ctx, sc, H.run_scenario(sc))
    # PRIORITY dependency loops: the priority tree is rebuilt whilst a sender waits on a stream with credit (seeded C08-7)
    loops = H.loop_corpus() + [H.gen_loop_scenario(ctx.rng) for _ in range(ctx.budget(150, 1500))]
    for lo in range(0, len(loops), 250):
        G9.check_direct(ctx, loops[lo: lo + 250], "C08")
    scenarios = [H.gen_scenario(ctx.rng, "pressure") for _ in range(ctx.budget(1500, 10000))]
    for lo in range(0, len(scenarios), 250):
        G9.check_direct(ctx, scenarios[lo: lo + 250], "C08")
    check_pairs(ctx)
    check_e2e(ctx, e2e_grid())
    check_ws_control_replies(ctx)


def replay(ctx: Ctx, case: dict) -> None:
    if case.get("layer") == "direct":
        sc = case["scenario"]
        G9.check_direct(ctx, [sc], "C08")
        if sc.get("cell"):
            grid_monitor(ctx, sc, H.run_scenario(sc))
    elif case.get("layer") == "pair":
        check_pairs(ctx)
    elif case.get("layer") == "ws_control":
        check_ws_control_replies(ctx)
    else:
        check_e2e(ctx, [{k: v for k, v in case.items() if k != "worker"}])
