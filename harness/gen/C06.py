"""C06 — HTTP/1.x persistent-connection and pipelining safety.

Layer 1: direct drive of the real `H11Protocol` with taps on h11, adaptive interleaving of reads and application
progress, compared op by op with the Lean model `HC.Proto.H11` (+ library machine `H11M`), and judged by monitors.
Layer 2: the same sessions end-to-end through `TCPServer` on both workers, parsed by an independent h11 client."""
from __future__ import annotations

from typing import Any, Dict, List, Optional

from ..core import clients as C
from ..core import h11sessions as HS
from ..core import runner as R
from ..core.framework import Ctx, b2s

SPEC = {
    "modules": ["HC.Props.C06"],
    "extracted": ["Guards", "Consts", "H11Tables", "Runtime"],
    "technique": "Lean 4 invariants over all op sequences of an executable model of H11Protocol composed with the h11 connection-state machine (tables extracted from the installed library): a live stream is never overwritten, recycle iff both sides DONE and not terminated, close announced, nothing served after Closed; tied by op-by-op differential execution against the real H11Protocol with library taps, plus end-to-end pipelines on both workers",
    "level_text": "Proved in Lean for every sequence of library events, application sends and closes (any pipeline length, any interleaving, every keep_alive_max_requests): a new request is only ever accepted when no stream is live (so requests are served strictly one at a time and a later request's bytes cannot reach an earlier instance, the parser being parked between them); the connection is recycled exactly when request and response are both complete, neither side asked to close and shutdown has not begun - otherwise Closed is sent and no further request is accepted; the response head announces close whenever the cause is known when the head is sent (client Connection: close, HTTP/1.0, per-connection maximum reached - extracted comparator -, server-generated error responses); once either side asked to close - the client, the request maximum, or the APPLICATION with its own `connection: close` response header, which HTTPStream hands to h11 unchanged (extracted) - h11's keep-alive flag is off for good and no later stream end recycles the connection (asked_to_close_never_reused, over arbitrary further ops); `request_complete` only ever refers to the request in progress (reset at each Request, extracted), so a message that goes wrong INSIDE its body is never ignored, on a reused connection as on a fresh one: Closed is sent, preceded by the hinted error response with `connection: close` while h11's writer is IDLE / SEND_RESPONSE (malformed_body_closes); the guard under which _handle_events ignores a RemoteProtocolError is extracted as a function of its atoms (stream live, request_complete, h11's two states) and evaluated by the model's malformed branch: it is `stream is not None and request_complete` and does not look at h11's writer (error_ignored_only_after_complete_request), so an application that has begun its response while the body is still arriving does not make a framing error in the rest of the body go unnoticed; an exchange aborted by the CLIENT (the write of the response fails) ends the reuse as well: both workers' `protocol_send(RawData)` call `protocol.handle(Closed())` on a failed write (failed_write_tells_protocol, on the `Runtime` records extracted from the two tcp_server.py - the read loop, parked behind a pipelined request, would never see the end of the stream), and once `self.closed` is set inside an exchange no later op - the application finishing its response into the void, h11 reaching DONE / DONE, the released reader - recycles the connection, starts an instance or lets h11 yield the parked Request (aborted_exchange_never_reused).  Tie: a deterministic corpus (reused connection + malformed chunk / truncated body / garbage head in every segmentation class and application timing; application-requested close followed by further requests) and thousands of generated pipelines (1-6 requests; content-length, chunked, HEAD, Expect, HTTP/1.0, close, malformed / aborted messages at any position, application-requested close; every segmentation class; applications answering before/while/after/never reading the body - including streaming applications that BEGIN the response early and finish it when the body has ended or they are told http.disconnect, with the part of the body that goes wrong arriving in a later read - crashing at every point) driven through the real H11Protocol with taps on h11.Connection and compared with the model after every op (outputs, h11 our/their state, reader parked?, current stream, request counter); end-to-end on both workers with an independent client parser; end-to-end abort sessions (2-4 pipelined requests, the client resets the connection / every later write fails while the response of one of them is outstanding - before it begins, after its head, inside its body - with the later requests parked behind it): no instance starts once a write has failed or a read has raised, and the transport is closed.",
    "level_note": "Trusted: Lean kernel; model HC/Proto/H11.lean + stream models; H11M is a transcription of h11/_state.py with its two tables extracted from the installed library and is *assumed* for the theorems (sampled: our/their state compared after every op); h11's byte-level parser and serialiser are library behaviour (events are inputs, wire bytes parsed by an independent h11 client).  The announcement of close is required only when the cause precedes the head (an application that answers without reading the body cannot have been announced).",
    "rule": "pipelines x request kinds (incl. malformed / aborted) x segmentation x app timing x app-requested close x keep_alive_max; distinct = (pipeline length, request kinds, split class, app timing classes, max, app close); non-trivial = at least two requests, a connection-close cause or a malformed message; abort sessions: (request kinds, split, aborted exchange, point in its response, reset | failing writes, worker)",
    "trusted": ["h11 0.16 byte parser/serialiser", "asyncio/trio schedulers in the end-to-end layer"],
    "partial": ["F26 (bytes after a Connection: close request in the same read → 400) if listed in known_findings.json",
                "F08 (known): an application that asks to close and answers without reading a body of >= max_app_queue_size pieces blocks in its own final send (disconnect put on the full queue): the close is never carried out"],
    "assumptions": ["direct drive feeds no read while the reader is parked, as TCPServer does (it awaits protocol.handle)"],
}


CLOSE_VALUES = ["close", "Close", "keep-alive, close"]
# … or sets a Connection header that does NOT ask to close: the server's own close (request maximum) must still be announced
APP_CONN_VALUES = CLOSE_VALUES + ["keep-alive", "Keep-Alive"]


def gen_case(ctx: Ctx, idx: int) -> dict:
    rng = ctx.rng
    n = rng.choice([1, 2, 2, 3, 3, 4, 6])
    opts = {"big": rng.random() < 0.3, "weights": [6, 4, 4, 2, 2, 1, 2, 0, 0, 0, 0]}
    reqs = [HS.gen_request(rng, i, opts) for i in range(n)]
    apps = [HS.gen_app(rng, r, {}) for r in reqs]
    eof = rng.random() < 0.8
    # "an aborted or malformed message": a later (or the only) request goes wrong in its body or is no request at all
    f = rng.random()
    if f < 0.14:
        j = rng.randrange(n) if rng.random() < 0.3 else n - 1
        reqs[j] = HS.make_malformed(rng, reqs[j], "bad_chunk", j)
    elif f < 0.18:
        reqs[-1] = HS.make_malformed(rng, reqs[-1], "truncated", n - 1)
        eof = True
    elif f < 0.22:
        reqs[-1] = HS.make_malformed(rng, reqs[-1], "bad_head", n - 1)
    # "neither side asked to close": the APPLICATION asks, with its own Connection header on the response
    if rng.random() < 0.15:
        k = rng.randrange(n)
        apps[k] = {**apps[k], "conn_close": rng.choice(APP_CONN_VALUES), "conn_close_name": rng.choice(["connection", "Connection"])}
    # applications that answer WHILE they read: the response has begun (head, perhaps a first piece of the body) when the rest of
    # the request body arrives - or goes wrong
    for k in range(n):
        if rng.random() < 0.12 and reqs[k]["kind"] != "ws":
            apps[k] = {**apps[k], "when": "echo", "early": rng.choice([1, 2]), "crash": None, "chunks": rng.choice([["a", "bc"], ["x" * 3000, "y"], ["ok"]])}
    data_len = sum(len(HS.request_bytes(r)) for r in reqs)
    split = rng.choice(["one", "one", "random", "random", "bytewise" if data_len < 600 else "random", "per_request"])
    if any(r.get("bad_tail") for r in reqs) and rng.random() < 0.4:
        split = "tail_apart"
    return {"family": "pipeline", "requests": reqs, "apps": apps, "split": split, "keep_alive_max": rng.choice([1, 2, 3, 1000, 1000]),
            "seed": rng.randrange(1 << 30), "eof": eof}


def corpus() -> List[dict]:
    """deterministic sessions every run starts with: a REUSED connection whose later request is malformed / aborted, and an
    application that asks to close with its own Connection header, each in every segmentation class and application timing"""
    import random
    rng = random.Random(606)
    plain = {"kind": "plain", "method": "GET", "target": "/a", "headers": [["Host", "x"]], "version": "1.1", "body": "", "chunks": None}
    post = {"kind": "body_chunked", "method": "POST", "target": "/b", "headers": [["Host", "x"]], "version": "1.1", "body": "", "chunks": ["abc"]}
    ok = {"when": "after_body", "status": 200, "chunks": ["ok"], "content_length": True, "crash": None, "ws": "close"}
    cases: List[dict] = []

    def add(reqs, apps, split, eof=True, kmax=1000):
        cases.append({"family": "pipeline", "corpus": True, "requests": reqs, "apps": apps, "split": split, "keep_alive_max": kmax,
                      "seed": rng.randrange(1 << 30), "eof": eof})

    for split in ("per_request", "one", "bytewise", "random"):
        for when in ("after_body", "eager", "mid", "never_read"):
            for how, first in (("bad_chunk", plain), ("bad_chunk", post), ("truncated", plain), ("bad_head", post)):
                if when != "after_body" and (split in ("bytewise", "random") or first is post):
                    continue
                bad = HS.make_malformed(rng, post, how, 1)
                add([first, bad], [ok, {**ok, "when": when}], split)
        bad = HS.make_malformed(rng, post, "bad_chunk", 2)
        add([plain, post, bad, plain], [ok, ok, {**ok, "status": 201}, ok], split)
        add([HS.make_malformed(rng, post, "bad_chunk", 0), plain], [ok, ok], split)
        for value in CLOSE_VALUES:
            for when in ("after_body", "eager"):
                add([post, plain, plain], [{**ok, "when": when, "conn_close": value}, ok, ok], split)
        add([plain, post, plain], [ok, {**ok, "conn_close": "close", "conn_close_name": "Connection", "content_length": False}, ok], split)
        if split in ("per_request", "one"):
            # the application's own `connection: keep-alive` on every response, the request maximum reached at the second one
            add([plain, plain, plain], [{**ok, "conn_close": "keep-alive"}], split, kmax=2)
            add([post, plain], [{**ok, "conn_close": "Keep-Alive", "conn_close_name": "Connection", "when": "eager"}], split, kmax=1)
    # the body goes wrong AFTER the application has started (not finished) its response: the rest of the body arrives in a later read
    # than the head; streaming applications (head / head + first piece early, the rest when the body has ended or the client is gone)
    echo = {**ok, "when": "echo", "chunks": ["a", "bc"], "content_length": False}
    post2 = {**post, "chunks": ["abc", "defg"]}
    for early in (1, 2):
        for first in (None, plain, post):
            for base in (post, post2):
                bad = HS.make_malformed(rng, base, "bad_chunk", early)
                if first is None:
                    add([bad], [{**echo, "early": early}], "tail_apart")
                else:
                    add([first, bad], [ok, {**echo, "early": early}], "tail_apart")
        add([plain, HS.make_malformed(rng, {**post, "chunks": None, "body": "0123456789"}, "truncated", early)], [ok, {**echo, "early": early}], "per_request")
        add([plain, post, HS.make_malformed(rng, post2, "bad_chunk", 2), plain], [ok, ok, {**echo, "early": early, "content_length": True}, ok], "tail_apart")
    for split in ("bytewise", "random"):
        add([plain, HS.make_malformed(rng, post2, "bad_chunk", 1)], [ok, {**echo, "early": 1}], split)
    return cases


def _reads(case: dict, rng) -> List[bytes]:
    blobs = [HS.request_bytes(r) for r in case["requests"]]
    if case["split"] == "per_request":
        return blobs
    if case["split"] == "tail_apart":
        # every request in one read, except that the part of a chunked body that goes wrong arrives in a read of its own
        out: List[bytes] = []
        for r, b in zip(case["requests"], blobs):
            tail = (r.get("bad_tail") or "").encode("latin1")
            out += [b[:len(b) - len(tail)], tail] if tail and len(tail) < len(b) else [b]
        return out
    return HS.split_bytes(rng, b"".join(blobs), case["split"])


def _closes_after(r: dict) -> bool:
    conn = [v.lower() for n, v in r["headers"] if n.lower() == "connection"]
    return r["version"] == "1.0" or any("close" in [t.strip() for t in v.split(",")] for v in conn)


def check_direct(ctx: Ctx, cases: List[dict]) -> None:
    import random
    for case in cases:
        rng = random.Random(case["seed"])
        cfg = {"keep_alive_max_requests": case["keep_alive_max"]}
        policy = HS.Policy(rng, _reads(case, rng), case["requests"], case["apps"], eof=case["eof"])
        mops, obs, lib = HS.run_session(cfg, policy)
        ctx.evaluations += 1
        ctx.traces_validated += 1
        kinds = [r["kind"] for r in case["requests"]]
        ctx.count("pipeline.len", len(kinds))
        ctx.count("split", case["split"])
        for k in kinds:
            ctx.count("request.kind", k)
        for a in case["apps"]:
            ctx.count("app.when", a["when"])
            ctx.count("app.crash", a["crash"])
        if (len(kinds) > 1 or any(_closes_after(r) for r in case["requests"]) or case["keep_alive_max"] <= len(kinds)
                or any(a.get("conn_close") for a in case["apps"]) or any(r.get("malformed") for r in case["requests"])):
            ctx.distinct([kinds, case["split"], [a["when"] for a in case["apps"]], [a["crash"] for a in case["apps"]], case["keep_alive_max"],
                          [bool(a.get("conn_close")) for a in case["apps"]]])
        ctx.sample({"family": "pipeline", "kinds": kinds, "split": case["split"], "keep_alive_max": case["keep_alive_max"],
                    "apps": [[a["when"], a["crash"]] for a in case["apps"]]}, cap=3)
        groups = HS.compare_with_model(ctx, _short(case), cfg, mops, obs, lib)
        for r in case["requests"]:
            if r.get("malformed"):
                ctx.count("request.malformed", r["kind"])
        for a in case["apps"]:
            if a.get("conn_close"):
                ctx.count("app.conn_close", a["conn_close"])
        monitor(ctx, case, [o for o in obs if o is not None], policy)


def _short(case: dict) -> dict:
    return case


def _app_closes(a: dict) -> bool:
    return "close" in [t.strip() for t in (a.get("conn_close") or "").lower().split(",")]


def _is_app_response(resp: dict, a: dict) -> bool:
    """the response on the wire is the one the application produced (it carries the application's own header)"""
    return resp["status"] == a["status"] and any(n.lower() == "x-app" for n, v in resp["headers"])


def _announces_close(resp: dict) -> bool:
    conn = [v.lower() for n, v in resp["headers"] if n.lower() == "connection"]
    return any("close" in [t.strip() for t in v.split(",")] for v in conn)


def _first_malformed(reqs: List[dict]) -> Optional[int]:
    return next((i for i, r in enumerate(reqs) if r.get("malformed")), None)


def monitor(ctx: Ctx, case: dict, obs: List[dict], policy=None) -> None:
    flat: List[list] = []
    for o in obs:
        flat += o["outs"]
        if o.get("handler_exception"):
            ctx.violation("handler_exception", case, o["handler_exception"], {"family": "pipeline", "error": o["handler_exception"]})
            return
    reqs = case["requests"]
    sig = {"family": "pipeline"}
    spawns = [i for i, e in enumerate(flat) if e[0] == "spawn"]
    # M1: strictly one at a time — between two application starts the earlier response completed and the cycle restarted
    for a, b in zip(spawns, spawns[1:]):
        between = flat[a:b]
        if not any(e[0] == "libSend" and e[1][0] == "eom" and e[2] for e in between) or not any(e == ["startNextCycle", True] for e in between):
            ctx.violation("serial", case, between[:40], {**sig, "clause2": "next_started_before_response_complete"})
    # M3: bodies: what instance k received is a prefix of request k's body, and complete iff a final message was put
    for k, si in enumerate(spawns):
        oid = flat[si][1]
        if k >= len(reqs):
            ctx.violation("phantom_request", case, flat[si], sig)
            continue
        body = HS.request_body(reqs[k])
        got = "".join(e[2][1] for e in flat if e[0] == "put" and e[1] == oid and e[2][0] == "http.request").encode("latin1")
        finals = [e for e in flat if e[0] == "put" and e[1] == oid and e[2][0] == "http.request" and e[2][2] is False]
        if not body.startswith(got) or len(finals) > 1 or (finals and got != body):
            ctx.violation("body_leak_or_loss", case, {"k": k, "got": len(got), "want": len(body)}, sig)
        if finals and reqs[k].get("malformed"):
            ctx.violation("malformed_body_completed", case, {"k": k}, sig)      # a body that never ended well is not reported complete
    # M6: nothing is started after the protocol asked to close
    closed_at = next((i for i, e in enumerate(flat) if e[0] == "upClosed"), None)
    if closed_at is not None and any(i > closed_at for i in spawns):
        ctx.violation("served_after_close", case, flat[closed_at:closed_at + 10], sig)
    # wire view
    wire = "".join(e[1] for e in flat if e[0] == "upRaw").encode("latin1")
    methods = [r["method"].upper() for r in reqs]
    parsed = C.parse_h1(wire, methods, server_closed=closed_at is not None)
    if parsed["error"] and "complete message" not in parsed["error"]:
        ctx.violation("wire_unparseable", case, parsed["error"], sig)     # an aborted last response is C05's business
    finals = [r for r in parsed["responses"] if not r.get("informational")]
    kar = 0
    for k, resp in enumerate(finals):
        if k >= len(reqs):
            break
        r, a = reqs[k], case["apps"][k % len(case["apps"])]
        kar = k + 1
        # the server side asks to close when the application's own response head says so
        app_asks = _app_closes(a) and resp["status"] == a["status"] and a["crash"] in (None, "after_start", "after_first_chunk") and any(
            e[0] == "libSend" and e[1][0] == "response" and e[1][1] == a["status"] for e in flat)
        must_announce = _closes_after(r) or kar >= case["keep_alive_max"] or app_asks
        announced = _announces_close(resp)
        # the request must have been read completely for the client-side causes to be known (they are in the head: always known)
        if must_announce and not announced and resp["status"] != 101:
            ctx.violation("close_not_announced", case, {"k": k, "headers": resp["headers"]},
                          {**sig, "cause": "client" if _closes_after(r) else "max" if kar >= case["keep_alive_max"] else "app"})
        # the response the application completed is the response the client gets
        if a["crash"] is None and resp["complete"] and r["kind"] != "ws" and not r.get("malformed") and resp["status"] != a["status"] and any(
                e[0] == "libSend" and e[1][0] == "response" and e[1][1] == a["status"] for e in flat):
            after = [x["kind"] for x in reqs[k + 1:]]
            ctx.violation("response_replaced", case, {"k": k, "got": resp["status"], "app": a["status"]},
                          {**sig, "got": resp["status"], "trigger": "bytes_after_close_request" if _closes_after(r) and after else "other"})
        # M4: reuse iff
        if resp["complete"] and must_announce and k + 1 < len(spawns):
            ctx.violation("reused_after_close_cause", case, {"k": k}, sig)
        # ... and the server closes after it (the session ran to its end: every application finished)
        if resp["complete"] and must_announce and closed_at is None and policy is not None and policy.sent_closed and resp["status"] != 101:
            ctx.violation("not_closed_after_close_cause", case, {"k": k}, sig)
    # M7: an aborted or malformed message: close announced on the response (if the server still owes one), closed, nothing further served
    j = _first_malformed(reqs)
    if j is not None and policy is not None:
        in_body = reqs[j]["malformed"] == "body"
        consumed = not policy.reads and not policy.dropped and (reqs[j]["kind"] != "truncated" or policy.sent_eof)
        # the parser got as far as request j: the connection was recycled j times (and request j's head was accepted)
        reached = sum(1 for e in flat if e == ["startNextCycle", True]) >= j and (len(spawns) > j or not in_body)
        msig = {**sig, "malformed": reqs[j]["kind"], "first": j == 0}
        if len(spawns) > j + (1 if in_body else 0):
            ctx.violation("served_after_malformed", case, {"j": j, "spawns": len(spawns)}, msig)
        if consumed and reached and policy.sent_closed:
            if closed_at is None:
                ctx.violation("malformed_not_closed", case, {"j": j}, msig)
            elif policy.closed_by_server_first is False:
                # `Closed` only followed the harness giving the connection up: the protocol had not asked to close by itself although
                # every byte had been read and nothing but applications waiting to be told (http.disconnect) was left
                ctx.violation("malformed_not_closed", case, {"j": j, "closed": "only after the connection was given up from outside",
                                                              "app_started_response": any(a["when"] == "echo" for a in case["apps"])}, msig)
            if len(finals) <= j:
                ctx.violation("malformed_no_response", case, {"j": j, "responses": [x["status"] for x in finals]}, msig)
            elif not _is_app_response(finals[j], case["apps"][j % len(case["apps"])]) and finals[j]["status"] >= 400 and not _announces_close(finals[j]):
                ctx.violation("close_not_announced", case, {"k": j, "headers": finals[j]["headers"]}, {**sig, "cause": "malformed"})


def _app_scripts(case: dict, pause: Optional[dict] = None) -> List[list]:
    """the runner's script of every application instance (one per request).  `pause = {"at": k, "after": p, "seconds": s}`:
    instance k sleeps s seconds after its first p sends (p = 0: before its response begins)"""
    scripts = []
    for k, r in enumerate(case["requests"]):
        a = case["apps"][k % len(case["apps"])]
        steps: List[list] = []
        if a["when"] in ("after_body", "mid"):
            steps.append(["recv_body"] if a["when"] == "after_body" else ["recv"])
        sent = 0
        for m in HS.app_messages(r, a):
            if pause is not None and pause["at"] == k and pause["after"] == sent:
                steps.append(["sleep", pause["seconds"]])
            if m is None:
                if a["crash"] in ("before_start", "after_start", "after_first_chunk"):
                    steps.append(["raise"])
                break
            if a["when"] == "echo" and sent == a.get("early", 1):
                steps.append(["recv_body"])         # until the body has ended or http.disconnect says the client is gone
            steps.append(["send", m])
            sent += 1
        scripts.append(steps)
    return scripts


# ---------------------------------------------------------------------------------------------------------------------------
# "an aborted message": the CLIENT goes away while a response is outstanding.  The exchange cannot be completed, so the
# connection must not be reused: no application instance is started once the server has seen the abort - whichever side of
# the worker's connection handler sees it first.  With pipelined requests behind the outstanding response the READER is parked
# (h11 PAUSED, waiting on can_read) and never reads the end of the stream: the WRITER's failure is the only notice the
# protocol gets, and the requests parked behind it must stay unserved.
# ---------------------------------------------------------------------------------------------------------------------------
ABORT_HOWS = ["reset", "fail_writes"]       # TCP reset (reads and writes fail) | the peer has gone but only writes show it yet


def _abort_case(reqs, apps, split, at, after, how, seed, kmax=1000, corpus_case=False) -> dict:
    return {"family": "abort", "requests": reqs, "apps": apps, "split": split, "keep_alive_max": kmax, "seed": seed, "eof": True,
            "abort": {"at": at, "after": after, "how": how}, **({"corpus": True} if corpus_case else {})}


def abort_corpus() -> List[dict]:
    """deterministic: 2 / 3 pipelined requests, the client goes away while the response of the first / second is outstanding -
    before it begins, after its head, after a first piece of its body - by reset or with writes failing only; all requests in
    one read or one read per request (all of them sent before the client goes away)"""
    import random
    rng = random.Random(612)
    get = {"kind": "plain", "method": "GET", "target": "/a", "headers": [["Host", "x"]], "version": "1.1", "body": "", "chunks": None}
    post = {"kind": "body_chunked", "method": "POST", "target": "/b", "headers": [["Host", "x"]], "version": "1.1", "body": "", "chunks": ["abc"]}
    ok = {"when": "after_body", "status": 200, "chunks": ["ab", "cd"], "content_length": True, "crash": None, "ws": "close"}
    cases = []
    for how in ABORT_HOWS:
        for after in (0, 1, 2):
            for reqs, at in (([get, get], 0), ([get, post, get], 1), ([post, get, get], 0)):
                for split in ("one", "per_request"):
                    cases.append(_abort_case(reqs, [ok], split, at, after, how, rng.randrange(1 << 30), corpus_case=True))
    # breadth first: the quick tier takes a prefix
    rng.shuffle(cases)
    return cases


def gen_abort(ctx: Ctx, idx: int) -> dict:
    rng = ctx.rng
    n = rng.choice([2, 2, 3, 4])
    opts = {"big": False, "weights": [6, 4, 4, 0, 0, 0, 2, 0, 0, 0, 0]}
    reqs = [HS.gen_request(rng, i, opts) for i in range(n)]
    apps = [HS.gen_app(rng, r, {"no_crash": True}) for r in reqs]
    # mostly with requests parked behind the outstanding response; sometimes the last one (the reader is then not parked)
    at = rng.randrange(n - 1) if rng.random() < 0.8 else n - 1
    msgs = [m for m in HS.app_messages(reqs[at], apps[at]) if m is not None]
    after = rng.randrange(len(msgs))
    data_len = sum(len(HS.request_bytes(r)) for r in reqs)
    split = rng.choice(["one", "per_request", "random", "bytewise" if data_len < 400 else "random"])
    return _abort_case(reqs, apps, split, at, after, rng.choice(ABORT_HOWS), rng.randrange(1 << 30), kmax=rng.choice([1000, 1000, 3]))


def check_abort(ctx: Ctx, cases: List[dict]) -> None:
    import random
    for case in cases:
        rng = random.Random(case["seed"])
        reads = _reads(case, rng)
        reqs, ab = case["requests"], case["abort"]
        scripts = _app_scripts(case, {"at": ab["at"], "after": ab["after"], "seconds": 0.5})
        for worker in ([case["worker"]] if case.get("worker") else ["asyncio", "trio"]):
            async def client(io):
                for chunk in reads:
                    await io.send(chunk)
                await io.sleep(0.2)             # instance `at` is now inside its pause, everything before it has been served
                if ab["how"] == "reset":
                    await io.reset()
                else:
                    io.fail_writes()
                await io.sleep(1.0)
                await io.eof()
            res = R.RUNNERS[worker]({"keep_alive_max_requests": case["keep_alive_max"], "keep_alive_timeout": 3}, None, client, scripts, tail=10)
            ctx.evaluations += 1
            ctx.count("e2e.worker", worker)
            ctx.count("abort.how", ab["how"])
            ctx.count("abort.parked_behind", len(reqs) - 1 - ab["at"])
            ctx.distinct(["abort", [r["kind"] for r in reqs], case["split"], ab["at"], ab["after"], ab["how"], worker])
            sig = {"family": "abort", "worker": worker, "how": ab["how"]}
            wcase = {**case, "worker": worker}
            if res["error"] or res["loop_errors"]:
                ctx.violation("handler_exception", wcase, {"error": res["error"], "loop": res["loop_errors"]}, {**sig, "error": str(res["error"])})
                continue
            labels = res["labels"]
            if len(res["apps"]) <= ab["at"]:
                ctx.count("abort.not_reached", worker)          # (an earlier exchange already ended the connection)
                continue
            # the first thing that shows the server that the client has gone: a write that fails, a read that raises
            noticed = next((i for i, l in enumerate(labels) if l[0] >= 200 and (l[1] == "srvWriteFail" or (l[1] == "srvRead" and l[2:3] == ["reset"]))), None)
            if noticed is None:
                ctx.count("abort.unnoticed", worker)
                continue
            late = [l for l in labels[noticed + 1:] if l[1] == "appStart"]
            if late:
                ctx.violation("served_after_abort", wcase,
                              {"aborted_exchange": ab["at"], "instances_started": len(res["apps"]), "noticed": labels[noticed], "started_after": late[:3],
                               "paths": [a["scope"].get("path") for a in res["apps"]], "closed_at": res["closed_at"]}, sig)
            if res["closed_at"] is None:
                # F08 (known, C03/C07/C06): the failed write happens inside the application's own send(); the protocol is told
                # `Closed`, the stream's http.disconnect put waits on a queue full of request-body messages that only this very
                # task would read (and the reader waits behind it): `Closed` is never reached.  Attributed when the application
                # is held in a send and at least max_app_queue_size = 10 body messages it never took were on their way
                k = ab["at"]
                calls = sum(1 for l in labels if l[1] == "appSendCall" and l[2] == k)
                rets = sum(1 for l in labels if l[1] == "appSendRet" and l[2] == k)
                rq = reqs[k]
                if rq["chunks"] is not None:
                    pieces = sum(len(c) for c in rq["chunks"]) if case["split"] == "bytewise" else len(rq["chunks"])
                else:
                    pieces = len(rq["body"]) if case["split"] == "bytewise" else (len(rq["body"]) + 65535) // 65536
                unread = pieces - sum(1 for m in res["apps"][k]["recv"] if m[1] == "http.request")
                f08 = calls > rets and unread >= 10
                ctx.violation("abort_not_closed", wcase, {"aborted_exchange": ab["at"], "noticed": labels[noticed], "handler_done": res["handler_done"],
                                                         "application_held_in_send": calls > rets, "unread_body_messages": unread},
                              {**sig, **({"blocked_put": "disconnect"} if f08 else {})})


def check_e2e(ctx: Ctx, cases: List[dict]) -> None:
    import random
    for case in cases:
        rng = random.Random(case["seed"])
        reads = _reads(case, rng)
        reqs = case["requests"]
        scripts = _app_scripts(case)
        # a body that goes wrong in a read of its own arrives a little later than what precedes it (the application has run by then)
        waits = set()
        if case["split"] == "tail_apart":
            pos = 0
            for r in reqs:
                tail = (r.get("bad_tail") or "")
                pos += 2 if tail and len(tail) < len(HS.request_bytes(r)) else 1
                if tail and len(tail) < len(HS.request_bytes(r)):
                    waits.add(pos - 1)
        for worker in ("asyncio", "trio"):
            async def client(io):
                for i, chunk in enumerate(reads):
                    if i in waits:
                        await io.sleep(0.2)
                    await io.send(chunk)
                await io.sleep(1.0)
                if case["eof"]:
                    await io.eof()
            res = R.RUNNERS[worker]({"keep_alive_max_requests": case["keep_alive_max"], "keep_alive_timeout": 3}, None, client, scripts, tail=10)
            ctx.evaluations += 1
            ctx.count("e2e.worker", worker)
            sig = {"family": "e2e", "worker": worker}
            if res["error"] or res["loop_errors"]:
                ctx.violation("handler_exception", {**case, "worker": worker}, {"error": res["error"], "loop": res["loop_errors"]}, {**sig, "error": str(res["error"])})
                continue
            parsed = C.parse_h1(res["out"], [r["method"].upper() for r in reqs], server_closed=res["closed_at"] is not None)
            finals = [x for x in parsed["responses"] if not x.get("informational")]
            starts = [a["t_start"] for a in res["apps"]]
            # serial on the wire: response k complete before instance k+1 starts is not directly timed here; check order of labels
            labels = res["labels"]
            started = [i for i, l in enumerate(labels) if l[1] == "appStart"]
            if parsed["error"] and "complete message" not in parsed["error"]:
                ctx.violation("wire_unparseable", {**case, "worker": worker}, parsed["error"], sig)
            for k, app in enumerate(res["apps"]):
                if k < len(reqs):
                    body = HS.request_body(reqs[k])
                    got = "".join(m[2] for m in app["recv"] if m[1] == "http.request").encode("latin1")
                    if not body.startswith(got):
                        ctx.violation("body_leak_or_loss", {**case, "worker": worker}, {"k": k, "got": len(got), "want": len(body)}, sig)
            if len(res["apps"]) > len(reqs):
                ctx.violation("phantom_request", {**case, "worker": worker}, len(res["apps"]), sig)
            # an aborted or malformed message / a close asked for by the application: nothing further is served, the server closes
            wcase = {**case, "worker": worker}
            j = _first_malformed(reqs)
            if j is not None:
                in_body = reqs[j]["malformed"] == "body"
                msig = {**sig, "malformed": reqs[j]["kind"], "first": j == 0}
                if len(res["apps"]) > j + (1 if in_body else 0):
                    ctx.violation("served_after_malformed", wcase, {"j": j, "apps": len(res["apps"])}, msig)
                if in_body and len(res["apps"]) > j:
                    # request j's head was accepted, so its body went wrong under the server's eyes (at once for a bad chunk,
                    # at the client's EOF - 1 s after the last byte - for a body that ends early)
                    if res["closed_at"] is None or (reqs[j]["kind"] == "bad_chunk" and res["closed_at"] >= 1000 + 200 * len(waits)):
                        ctx.violation("malformed_not_closed", wcase, {"j": j, "closed_at": res["closed_at"]}, msig)
                    # ... and the application that was reading that body is told (http.disconnect) or has finished: it is not left
                    # waiting for body bytes that can never come
                    aj = res["apps"][j]
                    if aj["exit"] is None and not any(m[1] == "http.disconnect" for m in aj["recv"]) and case["apps"][j % len(case["apps"])]["when"] in ("after_body", "echo"):
                        ctx.violation("malformed_app_left_waiting", wcase, {"j": j, "recv": [m[1] for m in aj["recv"]][-4:], "sent": [x[1] for x in aj["send"]],
                                                                            "closed_at": res["closed_at"]}, msig)
                    # the server owes the 400 itself unless the application had begun its own response (cut short by the close:
                    # on trio possibly before its first byte was written; hypercorn sends only Closed once h11's writer left SEND_RESPONSE)
                    # or had already finished (its 500 / its response is what the close cuts)
                    owed = not any(x[1] == "http.response.body" and x[2] == "ok" for x in res["apps"][j]["send"]) and res["apps"][j]["exit"] not in ("ok", "raise")
                    if len(finals) <= j and owed:
                        ctx.violation("malformed_no_response", wcase, {"j": j, "responses": [x["status"] for x in finals]}, msig)
                    elif len(finals) <= j:
                        ctx.count("e2e.malformed.response_cut", worker)
                    elif not _is_app_response(finals[j], case["apps"][j % len(case["apps"])]) and finals[j]["status"] >= 400 and not _announces_close(finals[j]):
                        ctx.violation("close_not_announced", wcase, {"k": j, "headers": finals[j]["headers"]}, {**sig, "cause": "malformed"})
            for k, resp in enumerate(finals[:len(reqs)]):
                a = case["apps"][k % len(case["apps"])]
                if _app_closes(a) and a["crash"] is None and _is_app_response(resp, a) and resp["complete"]:
                    if not _announces_close(resp):
                        ctx.violation("close_not_announced", wcase, {"k": k, "headers": resp["headers"]}, {**sig, "cause": "app"})
                    if len(res["apps"]) > k + 1:
                        ctx.violation("reused_after_close_cause", wcase, {"k": k, "apps": len(res["apps"])}, sig)
                    if res["closed_at"] is None or res["closed_at"] >= 1000:
                        # F08 (known, C03/C07): the application's own final send closes the stream, whose http.disconnect put waits
                        # for ever on a queue full of request-body messages nobody reads: `Closed` is never reached
                        calls = sum(1 for l in labels if l[1] == "appSendCall" and l[2] == k)
                        rets = sum(1 for l in labels if l[1] == "appSendRet" and l[2] == k)
                        pieces = len(reqs[k]["chunks"] or []) if reqs[k]["chunks"] is not None else (len(reqs[k]["body"]) + 65535) // 65536
                        # (the queue holds max_app_queue_size = 10 messages: full when the application left at least that many unread)
                        unread = pieces - sum(1 for m in res["apps"][k]["recv"] if m[1] == "http.request")
                        f08 = calls > rets and unread >= 10
                        ctx.violation("not_closed_after_close_cause", wcase, {"k": k, "closed_at": res["closed_at"]},
                                      {**sig, **({"blocked_put": "disconnect"} if f08 else {})})


def run(ctx: Ctx) -> None:
    fixed = corpus()
    for c in fixed:
        for r in c["requests"]:
            if r.get("malformed") and not HS.malformed_is_rejected(r):
                raise RuntimeError(f"corpus request is not malformed for h11: {r}")
    cases = [gen_case(ctx, i) for i in range(ctx.budget(500, 11000))]      # (thorough: ~14 min on this box under load with the 850 + 240 e2e sessions below)
    for c in cases:
        for r in c["requests"]:
            if r.get("malformed"):
                assert HS.malformed_is_rejected(r), r
    ctx.count("corpus.sessions", len(fixed))
    check_direct(ctx, fixed + cases)
    e2e_fixed = [c for c in fixed if c["split"] in ("per_request", "one")]
    e2e_fixed = e2e_fixed[: ctx.budget(24, 200)]
    e2e_started = [c for c in fixed if any(a["when"] == "echo" for a in c["apps"]) and c["split"] in ("tail_apart", "per_request")
                   and not any(c is d for d in e2e_fixed)]
    check_e2e(ctx, e2e_fixed + e2e_started[: ctx.budget(10, 40)] + cases[: ctx.budget(60, 850)])
    aborted = abort_corpus()
    ctx.count("corpus.abort_sessions", len(aborted))
    check_abort(ctx, aborted[: ctx.budget(18, 36)] + [gen_abort(ctx, i) for i in range(ctx.budget(12, 150))])


def replay(ctx: Ctx, case: dict) -> None:
    if case.get("family") == "abort":
        check_abort(ctx, [case])
    elif case.get("worker"):
        check_e2e(ctx, [case])
    else:
        check_direct(ctx, [case])
