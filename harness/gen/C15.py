"""C15 — graceful shutdown is orderly and bounded.  Whole-worker runner (harness/core/worker.py): the real `worker_serve`
of both worker classes on a loopback socket; connections of every kind are brought into every phase, then shutdown is
triggered (by the harness-controlled `shutdown_trigger`, or by `max_requests`)."""
from __future__ import annotations

import itertools
import json
from typing import Any, Dict, List, Optional

from ..core import worker as wk
from ..core.framework import Ctx

SPEC = {
    "modules": ["HC.Props.C15"],
    "extracted": ["Guards"],
    "technique": "Lean 4: timed executable model of worker_serve's exit path for both worker classes (connections abstracted to idle / "
                 "mid-head / in-request(due) / h2(open streams) / ws; every worker / CPython / code-path difference a Runtime field, "
                 "re-measured on the code under test on every run); invariants over every operation list (HC.inv_runOps), `decide` "
                 "examples and history witnesses — tied to the code by running the real worker_serve on loopback sockets with real "
                 "clients (raw HTTP/1.1, h2, wsproto) and short real-time time-outs, comparing outcome classes and instants (with "
                 "slack) with the model",
    "level_text": "Proved in Lean for any number and mix of connections, every trigger instant and both trigger sources, every lifespan "
                  "script and time-out, for both worker classes as the code is now (Current) and in general over the runtime flags "
                  "(_of_flags): worker_serve has returned by trigger + graceful_timeout + shutdown_timeout and the clock cannot pass "
                  "that instant while it has not (bounded); at either deadline it has an action to take, whatever is still open, HTTP/2 "
                  "streams in progress on asyncio included (deadline_forces_progress for both current runtimes, _of_flags wherever a "
                  "cancelled handler always finishes; F32 is fixed by 5d167c5: history witnesses h2_cancel_deadlock_before_fix, "
                  "deadline_forces_progress_failed_before_fix about Runtime.asyncioBeforeF32); once terminated is set the listeners are closed, no connection with an "
                  "armed idle timer is left, nothing was accepted and no application instance was started afterwards (orderly); "
                  "connection attempts and request heads are not enabled, a new HTTP/2 stream is refused without an application "
                  "instance, the end of the last stream sends GOAWAY and closes (after_trigger_refusals); every idle connection, "
                  "fresh prior-knowledge HTTP/2 included, is gone at the trigger instant (idle_closed); a handler is cancelled only at "
                  "or after trigger + graceful_timeout and never a request due before that; a due request can always be delivered and "
                  "the clock never passes its due instant (in_grace_delivered, due_request_finishes); when a response has been delivered "
                  "the connection goes back to idle exactly when the code's own `_maybe_recycle` guard (extracted: Guards.h11Recycle) "
                  "holds, and once terminated it is closed, the request pipelined behind it (or arriving later) is never enabled "
                  "and starts no application (finish_follows_recycle_guard, recycle_guard_needs_not_terminated, "
                  "not_recycled_after_trigger); lifespan.shutdown is put after "
                  "the drain (then_lifespan).  History witnesses about Runtime.asyncioBeforeFixes / trioBeforeFixes: f18_run_before_fix, "
                  "bounded_fails_when_wait_closed_blocks, idle_closed_failed_before_fix.",
    "level_note": "Trusted: Lean kernel; the hand-written worker model (tied by differential runs only); the Runtime flags are measured "
                  "by probes on the code and interpreter under test and must equal the Lean constants Runtime.asyncio / Runtime.trio "
                  "(a mismatch is reported as a disagreement); two pieces of the exit path are read off the source by tools/extract.py "
                  "(Guards.lean): what asyncio's worker_serve awaits between terminated.set() and the bounded wait for the handlers "
                  "(Runtime.asyncio.waitClosedBlocksOnConnections IS that constant, so `bounded` stops type-checking when "
                  "server.wait_closed() is awaited there), whether H2Protocol.send_task releases every waiting sender when it ends "
                  "(Runtime.asyncio.h2CancelDeadlocks IS its negation, so `deadline_forces_progress` stops type-checking without "
                  "that `finally`) and the guard of H11Protocol._maybe_recycle; connection kinds are abstractions of what TCPServer/H11Protocol/H2Protocol "
                  "do with `context.terminated` (idle task, _maybe_recycle, stream refusal, GOAWAY) — the protocol layer itself is the "
                  "subject of other properties (frame-level delivery, e.g. END_STREAM of the last HTTP/2 response, is judged by the "
                  "monitor only: known finding F30); real-clock runs assert order exactly and instants with >= 1 s slack; 'idle "
                  "connections are closed in the same instant' is measured as 'EOF within 0.3 s of the trigger'.",
    "rule": "scenario = worker x trigger source x set of 0-3 connections of kinds {idle_h1, fresh_h1, midhead_h1, short_h1, "
            "pipelined_h1 (a second request already waiting behind the one in progress), late_request_h1 (the next request arrives "
            "after the trigger), long_h1, hang_h1, idle_h2, fresh_h2, open_h2_short, open_h2_long, ws} + one connection attempt after the trigger (quick: every "
            "kind alone, a few mixes, max_requests source; thorough: all pairs, sampled triples, two trigger offsets); distinct = "
            "(worker, source, kind multiset, offset); non-trivial = at least one connection is open at the trigger",
    "trusted": ["asyncio / trio cancel-scope deadlines / sockets (measured, real clock)",
                "h2 and wsproto in client role as oracles for what the peer sees"],
    "partial": ["a connection handler held in a transport write that its peer does not drain is outside the worker model (the model's handlers end "
                "when they are cancelled): scenarios of kind noread_h1 are judged by the monitors only; on the code as it is both workers "
                "fail `bounded` there (known finding F113)",
                "what the peer of a *cancelled* handler sees is modelled only as far as GOAWAY (asyncio: the cancelled handler still "
                "closes its stream and says GOAWAY, Runtime.h2CancelSaysGoaway, measured; trio: nothing): the 500 response head the "
                "cancelled asyncio application task still writes is not in the model",
                "frame-level completeness of HTTP/2 responses at shutdown is outside the model (known finding F30: on trio the "
                "END_STREAM of the last stream can be lost)",
                "weaker reading: an *idle* HTTP/2 connection is closed at the trigger without GOAWAY; 'told to go away' is required of "
                "connections that outlive the trigger (SETTINGS MAX_CONCURRENT_STREAMS=0 + RST_STREAM for new streams, GOAWAY when the "
                "last stream ends)"],
    "assumptions": ["max_app_queue_size >= 2", "request handlers finish at the instant their scripted sleep ends (+ scheduling slack)"],
}

G, S = 0.4, 1.6          # graceful_timeout, shutdown_timeout (far apart: using one for the other is visible through the slack)
T0 = 0.5                 # trigger instant
SLACK = 1.0
IDLE_SLACK = 0.3         # "closed in the same instant"
LS = ["recv", "startup_complete", "recv", "shutdown_complete", "return"]


def conn_steps(kind: str, cid: int, off: float) -> (str, List[list]):
    """client kind + steps; `off` = how long before the trigger its request starts"""
    t_req = T0 - off
    long_ms = int((G + SLACK + 1.0 + off) * 1000)          # ends well after trigger + grace + slack
    short_ms = int((off + G * 0.5) * 1000)                  # ends in the middle of the grace period
    if kind == "idle_h1":
        return "h1", [["at", 0.15], ["connect"], ["at", 0.2], ["get", f"/d/0/{cid}"], ["read", 1.0], ["wait_close", 3.5]]
    if kind == "fresh_h1":
        return "h1", [["at", 0.2], ["connect"], ["wait_close", 3.5]]
    if kind == "midhead_h1":
        return "h1", [["at", 0.2], ["connect"], ["partial"], ["wait_close", 3.5]]
    if kind == "short_h1":
        return "h1", [["at", t_req - 0.02], ["connect"], ["at", t_req], ["get", f"/d/{short_ms}/{cid}"], ["read", 3.0], ["wait_close", 3.5]]
    if kind == "pipelined_h1":
        # two requests in one write: the first is in progress at the trigger and finishes inside the grace period, the
        # second is already waiting in the connection's buffer (never to be served: the connection is not recycled)
        return "h1", [["at", t_req - 0.02], ["connect"], ["at", t_req], ["pipeline", [f"/d/{short_ms}/{cid}", f"/d/0/{cid}p"]],
                      ["read", 3.0], ["read", 1.0], ["wait_close", 3.5]]
    if kind == "late_request_h1":
        # the next request on a keep-alive connection arrives after the trigger, while the previous one is in progress
        return "h1", [["at", t_req - 0.02], ["connect"], ["at", t_req], ["get", f"/d/{short_ms}/{cid}"],
                      ["after_trigger", 0.08], ["get", f"/d/0/{cid}p"], ["read", 3.0], ["read", 1.0], ["wait_close", 3.5]]
    if kind == "long_h1":
        return "h1", [["at", t_req - 0.02], ["connect"], ["at", t_req], ["get", f"/d/{long_ms}/{cid}"], ["read", 3.2], ["wait_close", 3.5]]
    if kind == "hang_h1":
        return "h1", [["at", t_req - 0.02], ["connect"], ["at", t_req], ["get", f"/hang/{cid}"], ["read", 3.2], ["wait_close", 3.5]]
    if kind == "noread_h1":
        # a request in progress whose client does not read: the application is held in send() by back-pressure, the handler
        # is cancelled at the end of the grace period with unsent data in the transport
        return "h1", [["at", t_req - 0.02], ["connect_small"], ["at", t_req], ["get", f"/big/200/{cid}"], ["hold", 3.4]]
    if kind == "idle_h2":
        return "h2", [["at", 0.05], ["connect"], ["at", 0.25], ["stream", f"/d/0/{cid}"], ["pump", 0.4], ["wait_close", 3.5]]
    if kind == "fresh_h2":
        return "h2", [["at", 0.1], ["connect"], ["wait_close", 3.5]]
    if kind == "open_h2_short":
        return "h2", [["at", max(0.08, t_req - 0.2)], ["connect"], ["at", t_req], ["stream", f"/d/{short_ms}/{cid}a"], ["stream", f"/d/{short_ms + 60}/{cid}b"],
                      ["pump_after_trigger", 0.1], ["stream", f"/d/0/{cid}late"], ["wait_close", 3.5]]
    if kind == "open_h2_long":
        return "h2", [["at", max(0.08, t_req - 0.2)], ["connect"], ["at", t_req], ["stream", f"/d/{long_ms}/{cid}a"],
                      ["pump_after_trigger", 0.1], ["stream", f"/d/0/{cid}late"], ["wait_close", 3.5]]
    if kind == "ws":
        return "ws", [["at", 0.25], ["connect"], ["wait_close", 3.5]]
    raise ValueError(kind)


KINDS = ["idle_h1", "fresh_h1", "midhead_h1", "short_h1", "pipelined_h1", "late_request_h1", "long_h1", "hang_h1", "noread_h1", "idle_h2", "fresh_h2",
         "open_h2_short", "open_h2_long", "ws"]
IDLE_KINDS = {"idle_h1", "fresh_h1", "midhead_h1", "idle_h2", "fresh_h2"}
# HTTP/1 connections whose request in progress at the trigger ends inside the grace period: one response, then closed
IN_GRACE_H1 = {"short_h1", "pipelined_h1", "late_request_h1"}
# what the application must have recorded before the trigger for every connection to be in the phase its kind names
# (steps after the trigger are timed from the instant shutdown was actually triggered: `after_trigger`)
DONE_BEFORE = {"idle_h1": 1, "idle_h2": 1}
LATE_TOL = 0.06          # a step of the harness itself later than this: the run is repeated (the machine was busy), see evaluate
SCOPES_BEFORE = {"idle_h1": 1, "fresh_h1": 0, "midhead_h1": 0, "short_h1": 1, "pipelined_h1": 1, "late_request_h1": 1, "long_h1": 1, "hang_h1": 1, "noread_h1": 1,
                 "idle_h2": 1, "fresh_h2": 0, "open_h2_short": 2, "open_h2_long": 1, "ws": 1}


def scenario(worker: str, kinds: List[str], source: str = "callable", off: float = 0.1) -> dict:
    clients = []
    for cid, k in enumerate(kinds):
        ck, steps = conn_steps(k, cid, off)
        clients.append({"id": cid, "kind": ck, "ckind": k, "steps": steps})
    cfg: Dict[str, Any] = {"startup_timeout": 0.4, "shutdown_timeout": S, "graceful_timeout": G}
    trigger_at: Optional[float] = T0
    n = len(kinds)
    before = {"scope": sum(SCOPES_BEFORE[k] for k in kinds), "http_done": sum(DONE_BEFORE.get(k, 0) for k in kinds)}
    extra: Dict[str, Any] = {}
    if source == "max_requests":
        # the request that exceeds max_requests is itself in progress when shutdown starts and must be delivered
        cfg["max_requests"] = sum(SCOPES_BEFORE[k] for k in kinds)
        trigger_at = None
        clients.append({"id": n, "kind": "h1", "ckind": "trigger_request",
                        "steps": [["at", T0 - 0.03], ["connect"], ["at_counts", T0, before], ["get", f"/d/150/{n}"], ["read", 2.0], ["wait_close", 3.0]]})
        extra["trigger_path"] = f"/d/150/{n}"
        n += 1
    else:
        extra["trigger_after"] = before
    # somebody knocks after the trigger
    clients.append({"id": n, "kind": "h1", "ckind": "late_connect",
                    "steps": [["after_trigger", 0.12], ["connect"], ["get", f"/d/0/{n}"], ["read", 0.6]]})
    return {"property": "C15", "worker": worker, "kinds": kinds, "source": source, "off": off, "lifespan": LS,
            "config": cfg, "clients": clients, "trigger_at": trigger_at, "nominal_trigger": T0, "start_when_listening": True,
            "late_tolerance": LATE_TOL, "observe_until": T0 + G + S + SLACK + 0.1, "client_grace": 0.4, **extra}


def gen(ctx: Ctx) -> List[dict]:
    rng = ctx.rng
    out = []
    for worker in ("asyncio", "trio"):
        out.append(scenario(worker, []))
        for k in KINDS:
            out.append(scenario(worker, [k]))
        for mix in (["idle_h1", "short_h1"], ["short_h1", "open_h2_short", "idle_h2"], ["hang_h1", "idle_h1", "ws"], ["midhead_h1", "short_h1"],
                    ["pipelined_h1", "hang_h1"], ["late_request_h1", "pipelined_h1", "idle_h1"], ["noread_h1", "short_h1"],
                    ["noread_h1", "noread_h1", "idle_h1"]):
            out.append(scenario(worker, mix))
        for k in ([], ["idle_h1"], ["short_h1"], ["hang_h1"], ["idle_h2", "short_h1"], ["pipelined_h1"]):
            out.append(scenario(worker, k, source="max_requests"))
    if ctx.thorough:
        for worker in ("asyncio", "trio"):
            for k in KINDS:
                out.append(scenario(worker, [k], off=0.3))
                out.append(scenario(worker, [k], source="max_requests"))
            for a, b in itertools.combinations_with_replacement(KINDS, 2):
                out.append(scenario(worker, [a, b]))
            triples = list(itertools.combinations(KINDS, 3))
            for tr in rng.sample(triples, 40):
                out.append(scenario(worker, list(tr), source=rng.choice(["callable", "max_requests"]), off=rng.choice([0.1, 0.3])))
    return out


# --------------------------------------------------------------------------------------------------------------
# monitors
# --------------------------------------------------------------------------------------------------------------
def trigger_instant(sc: dict, iv: dict, obs: dict) -> Optional[float]:
    if sc["source"] == "callable":
        return iv["trigger_s"]
    cid = len(sc["kinds"])
    for t, d in iv["scopes"]:
        if d.get("path", "").endswith(f"/{cid}"):
            return t
    return None


def monitors(ctx: Any, sc: dict, obs: dict, iv: dict) -> None:      # ctx: Ctx or worker.Findings
    case = {"scenario": sc}
    T = trigger_instant(sc, iv, obs)

    def viol(clause: str, kind: str, detail: Any) -> None:
        ctx.violation(clause, case, detail, {"worker": sc["worker"], "kind": kind, "source": sc["source"]})

    if T is None:
        raise wk.HarnessFailure(f"no trigger instant observed in {json.dumps(sc)[:300]}")
    stuck_kinds = [k for k in sc["kinds"] if k in ("long_h1", "hang_h1", "noread_h1", "open_h2_long", "ws")]
    # 1. bounded
    bound = T + G + S + SLACK
    if iv["outcome"] == "stuck" or (iv["return_s"] is not None and iv["return_s"] > bound):
        # what is still open when the grace period ends
        viol("bounded", "h2_stream_outliving_grace" if stuck_kinds and set(stuck_kinds) == {"open_h2_long"} else
             "unread_response_outliving_grace" if "noread_h1" in stuck_kinds else
             "connection_outliving_grace" if stuck_kinds else "none",
             {"trigger_at": T, "bound_with_slack": bound, "serve": iv["outcome"], "returned_at": iv["return_s"],
              "connections": sorted(set(stuck_kinds))})
    elif iv["outcome"] == "raise":
        viol("returns", "+".join(sorted(set(sc["kinds"]))) or "none", {"raised": iv["classes"], "message": iv["message"]})
    # 2. stops accepting connections and new requests
    late = iv["per"].get(len(sc["clients"]) - 1)
    if late and any(r["status"] is not None for r in late["responses"]):
        viol("stops_accepting", "late_connect", {"late_client": late["responses"]})
    for t, d in iv["scopes"]:
        if t > T + 0.05 and not (sc["source"] == "max_requests" and d.get("path", "").endswith(f"/{len(sc['kinds'])}")):
            viol("stops_accepting", "late_scope", {"scope": d, "at": t, "trigger_at": T})
    for c in sc["clients"]:
        cid, k = c["id"], c["ckind"]
        p = iv["per"].get(cid)
        if p is None or not p.get("accepted"):
            if k not in ("late_connect",):
                raise wk.HarnessFailure(f"client {cid} ({k}) could not connect before the trigger: {p}")
            continue
        # 3. idle connections are closed at once
        if k in IDLE_KINDS:
            if p["closed_t"] is None or p["closed_t"] > T + IDLE_SLACK:
                viol("idle_closed", k, {"trigger_at": T, "closed_at": p["closed_t"]})
        # 4. requests that finish within the grace period are delivered in full; the others are cancelled after it
        if k in IN_GRACE_H1 or k == "trigger_request":
            full = [r for r in p["responses"] if r["status"] == 200 and r["complete"]]
            if not full:
                # "requests that finish within the grace period": judged on the application's own record of when it had handed
                # its whole response to the server.  On an overloaded machine a short request can really take longer than the
                # grace period; the server is then right to cancel it (recorded, not judged).
                done = [t for t, kk, pth in iv["ends"] if kk == "http_done" and str(pth).endswith(f"/{cid}")]
                if done and min(done) <= T + G - 0.03:
                    viol("in_grace_delivered", k, {"responses": p["responses"], "trigger_at": T, "application_done_at": min(done)})
                else:
                    ctx.count("not_judged", f"in_grace_delivered:{k}:application_not_done_within_grace")
        if k in IN_GRACE_H1:
            # ... and that was the last request of this connection: nothing that was not in progress at the trigger is
            # answered (a request pipelined behind it, or sent after the trigger), and the connection - idle from then
            # on - is closed instead of being kept alive
            if len(full) > 1 or any(r["status"] is not None for r in p["responses"][1:]):
                viol("stops_accepting", k, {"responses": p["responses"], "trigger_at": T,
                                            "requests_sent": [[t, pth] for t, pth in p["sent"]]})
            if full:
                idle_from = max(T, full[0]["t"])
                if p["closed_t"] is None or p["closed_t"] > idle_from + IDLE_SLACK:
                    viol("idle_closed", k, {"trigger_at": T, "response_complete_at": full[0]["t"], "closed_at": p["closed_t"]})
        if k in ("long_h1", "hang_h1"):
            delivered = any(r["status"] == 200 and r["complete"] for r in p["responses"])
            late_close = p["closed_t"] is None or p["closed_t"] > T + G + SLACK
            if delivered or late_close:
                viol("cancelled_after_grace", k, {"delivered_in_full": delivered, "closed_at": p["closed_t"], "deadline_with_slack": T + G + SLACK})
            if p["closed_t"] is not None and p["closed_t"] < T + G - 0.05:
                viol("grace_respected", k, {"closed_at": p["closed_t"], "grace_ends": T + G})
        if k == "ws":
            if p["closed_t"] is None or p["closed_t"] > T + G + SLACK:
                viol("cancelled_after_grace", k, {"closed_at": p["closed_t"], "deadline_with_slack": T + G + SLACK})
            if p["closed_t"] is not None and p["closed_t"] < T + G - 0.05:
                viol("grace_respected", k, {"closed_at": p["closed_t"], "grace_ends": T + G})
        # 5. HTTP/2: new streams refused, peer told to go away
        if k in ("open_h2_short", "open_h2_long"):
            evs = p["h2"]
            late_paths = [d for t, d in iv["scopes"] if str(d.get("path", "")).endswith("late")]
            refused = any(e[1] in ("h2_reset", "stream_refused_locally") for e in evs if e[0] > T)
            told = any(e[1] == "h2_max_streams" and e[2].get("value") == 0 for e in evs if e[0] > T) or \
                any(e[1] == "h2_goaway" for e in evs)
            if late_paths or not refused or not told:
                viol("h2_new_stream_refused", k, {"late_scopes": late_paths, "refused": refused, "told_to_go_away": told,
                                                  "events_after_trigger": [e for e in evs if e[0] > T][:8]})
        if k == "open_h2_short":
            evs = p["h2"]
            ends = [e for e in evs if e[1] == "h2_end"]
            goaway = [e for e in evs if e[1] == "h2_goaway"]
            eof = [e for e in evs if e[1] == "eof"]
            if len(ends) < 2:
                viol("in_grace_delivered", k, {"streams_ended": len(ends), "events": evs[-8:]})
            elif not goaway or (eof and goaway[0][0] > eof[0][0]) or not eof or eof[0][0] > T + G + 0.1:
                viol("h2_goaway", k, {"goaway": goaway, "eof": eof, "last_stream_end": ends[-1][0]})
    # 6. then the lifespan shutdown, once, after the drain
    t_sd = wk.first_t(obs, "ls_recv", type="lifespan.shutdown")
    if iv["received"].count("lifespan.shutdown") > 1:
        viol("shutdown_once", "lifespan", iv["received"])
    if t_sd is not None:
        starts = {d.get("path"): t for t, d in iv["scopes"]}
        ended = {p: t for t, kk, p in iv["ends"]}
        alive = [p for p, t in starts.items() if t <= t_sd and (p not in ended or ended[p] > t_sd + 0.002)]
        if t_sd < T - 0.002 or (alive and t_sd < T + G - 0.02):
            viol("then_lifespan", "lifespan", {"shutdown_received_at": t_sd, "trigger_at": T, "handlers_alive": alive})
    elif iv["outcome"] == "return":
        viol("then_lifespan", "lifespan", {"shutdown_received_at": None, "serve": "returned"})


# --------------------------------------------------------------------------------------------------------------
# model vs implementation
# --------------------------------------------------------------------------------------------------------------
def compare(ctx: Any, sc: dict, iv: dict, m: dict, T: Optional[float] = None) -> None:      # ctx: Ctx or worker.Findings
    mv = wk.model_view(m)
    diffs = []
    # the model triggers at the instant the trigger is due, the harness when the connections have reached their phase:
    # what the model predicts for the time from the trigger on is compared on the clock of the actual trigger
    shift = (T - mv["trigger_s"]) if (T is not None and mv["trigger_s"] is not None) else 0.0

    def on_impl_clock(t: float) -> float:
        return t + shift if (mv["trigger_s"] is not None and t >= mv["trigger_s"] - 1e-9) else t

    if mv["outcome"] != iv["outcome"]:
        diffs.append(("serve outcome", mv["outcome"], iv["outcome"]))
    if mv["outcome"] == iv["outcome"] == "return" and abs(on_impl_clock(mv["return_s"]) - iv["return_s"]) > 0.5:
        diffs.append(("return instant", on_impl_clock(mv["return_s"]), iv["return_s"]))
    if mv["received"] != iv["received"]:
        diffs.append(("lifespan messages received", mv["received"], iv["received"]))
    for c in sc["clients"]:
        cid, k = c["id"], c["ckind"]
        ip = iv["per"].get(cid)
        mp = mv["per"].get(cid)
        if ip is None or ip.get("connect") is None:
            continue
        if (mp is not None) != bool(ip["accepted"]):
            diffs.append((f"client {cid} ({k}) accepted", mp is not None, ip["accepted"]))
            continue
        if mp is None:
            continue
        # how the connection ended, as a class
        if c["kind"] == "h1":
            i_deliv = sum(1 for r in ip["responses"] if r["status"] == 200 and r["complete"])
            if i_deliv != mp.get("delivered", 0):
                diffs.append((f"client {cid} ({k}) responses delivered in full", mp.get("delivered", 0), i_deliv))
            # application instances started for the requests of this connection
            mine = {pth for _, pth in ip["sent"]}
            i_scopes = sum(1 for _, d in iv["scopes"] if d.get("path") in mine)
            if i_scopes != mp["scopes"]:
                diffs.append((f"client {cid} ({k}) application instances started", mp["scopes"], i_scopes))
            # not recycled after the response (`_maybe_recycle` once terminated): closed at that instant
            if mp.get("closed_after_delivery_t") is not None:
                want = on_impl_clock(mp["closed_after_delivery_t"] * wk.TICK)
                if ip["closed_t"] is None or abs(ip["closed_t"] - want) > 0.5:
                    diffs.append((f"client {cid} ({k}) closed after its response at", want, ip["closed_t"]))
        if c["kind"] == "h2":
            # streams whose whole body arrived (END_STREAM itself is the monitor's business: projection discipline)
            got: Dict[int, int] = {}
            for e in ip["h2"]:
                if e[1] == "h2_data":
                    got[e[2]["sid"]] = got.get(e[2]["sid"], 0) + e[2]["n"]
            i_ends = sum(1 for n in got.values() if n >= wk.BODY)
            if i_ends != mp["streams_done"]:
                diffs.append((f"client {cid} ({k}) streams answered with their whole body", mp["streams_done"], i_ends))
            i_goaway = any(e[1] == "h2_goaway" for e in ip["h2"])
            if i_goaway != (mp["fate"] == "goaway"):
                diffs.append((f"client {cid} ({k}) GOAWAY", mp["fate"] == "goaway", i_goaway))
            i_ref = sum(1 for e in ip["h2"] if e[1] == "h2_reset")
            if i_ref != mp["refused_streams"]:
                diffs.append((f"client {cid} ({k}) streams refused", mp["refused_streams"], i_ref))
        # when it was closed (model instant known for closed_idle / cancelled / goaway / delivered-then-closed)
        if mp["fate"] in ("closed_idle", "cancelled", "goaway") and mp["fate_t"] is not None:
            want = on_impl_clock(mp["fate_t"] * wk.TICK)
            if ip["closed_t"] is None or abs(ip["closed_t"] - want) > 0.5:
                diffs.append((f"client {cid} ({k}) closed ({mp['fate']}) at", want, ip["closed_t"]))
        if mp["fate"] == "live" and iv["outcome"] != "stuck" and mv["outcome"] != "stuck" and k != "late_connect" \
                and not mp.get("delivered"):
            diffs.append((f"client {cid} ({k}) still open in the model at the end", mp, ip["closed_t"]))
    ctx.disagreements_checked += 1
    if diffs:
        ctx.disagree("c15.run", {"scenario": sc}, diffs, None)


FLAGS: Dict[str, dict] = {}


def evaluate(ctx: Ctx, scs: List[dict], procs: int = 14) -> None:
    flags = FLAGS.get("v") or FLAGS.setdefault("v", wk.probe_flags())
    ctx.extra["runtime_flags_measured"] = flags
    if not ctx.extra.get("runtime_constants_checked"):
        ctx.extra["runtime_constants_checked"] = True
        wk.check_runtime_constants(ctx, flags)
    obs = wk.run_disciplined(ctx, scs, procs)       # timing discipline: see worker.run_disciplined
    model = ctx.model([wk.model_request(sc, "c15.run", flags) for sc in scs])
    consts_r = ctx.model([{"cmd": "c14.runtimes"}])
    consts = consts_r[0].get("ok") if consts_r else None

    def judge(f: Any, i: int, sc: dict, o: dict) -> None:
        """one run of one scenario: the property monitors and the model comparison, collected in `f`"""
        iv = wk.impl_view(o)
        monitors(f, sc, o, iv)
        if "noread_h1" in sc["kinds"]:
            # a handler held in a transport write that the peer does not drain: the worker model has no such state (its
            # handlers end when they are cancelled) - the scenario is judged by the monitors only (known finding F113)
            f.count("not_compared", "blocked_write_outside_model")
            # ... but the one fact the small model HC.Worker.BlockedWrite rests on is measured here: does the handler of a blocked
            # write outlive its cancellation (Runtime.blockedWriteOutlivesCancel, extracted from both tcp_server.py)?
            # (asyncio's `wait_for(gather(handlers))` is over as soon as ONE cancelled handler has finished - see
            # Runtime.h2CancelDeadlocks - so worker_serve's return says something about this handler only when no other connection
            # of the scenario is cancelled at the end of the grace period)
            others_cancelled = any(k in ("long_h1", "hang_h1", "open_h2_long", "ws") for k in sc["kinds"])
            if consts is not None and not others_cancelled:
                T_ = trigger_instant(sc, iv, o)
                outlived = iv["outcome"] == "stuck" or (iv["return_s"] is not None and T_ is not None and iv["return_s"] > T_ + G + S + SLACK)
                want = consts[sc["worker"]].get("blockedWriteOutlivesCancel")
                f.disagreements_checked += 1
                if want is not None and bool(want) != outlived:
                    f.disagree("runtime constants: blockedWriteOutlivesCancel", {"worker": sc["worker"], "kinds": sc["kinds"]}, want, outlived)
            return
        if model is not None:
            r = model[i]
            if "ok" not in r:
                raise wk.HarnessFailure(f"hcdriver rejected scenario {sc['kinds']}/{sc['worker']}: {r}")
            compare(f, sc, iv, r["ok"], trigger_instant(sc, iv, o))

    # report rule (worker.judge_with_reruns): a scenario about which the monitors or the comparison say something is first run
    # again alone; only what it says again is reported (with the re-run's observation), the rest is counted as not reproduced
    obs = wk.judge_with_reruns(ctx, scs, obs, judge)
    for i, (sc, o) in enumerate(zip(scs, obs)):
        iv = wk.impl_view(o)
        ctx.evaluations += 1
        ctx.traces_validated += 1
        ctx.count("worker", sc["worker"])
        ctx.count("source", sc["source"])
        ctx.count("connections", len(sc["kinds"]))
        for k in sc["kinds"]:
            ctx.count("kind", k)
        ctx.count("serve_outcome", iv["outcome"])
        if sc["kinds"] or sc["source"] == "max_requests":
            ctx.distinct([sc["worker"], sc["source"], sorted(sc["kinds"]), sc["off"]])
        ctx.sample({"scenario": sc, "serve": o["serve"], "events": [e for e in o["events"] if e[2] != "log"][:40]}, cap=3)


def run(ctx: Ctx) -> None:
    scs = gen(ctx)
    ctx.extra["grid"] = {"kinds": len(KINDS), "scenarios": len(scs)}
    ctx.exhaustive = False
    evaluate(ctx, scs)
    ctx.notes.append("history witnesses replayed on the implementation, all pass on the code now: h2_cancel_deadlock_before_fix = "
                     "open_h2_long/asyncio (F32, fixed by 5d167c5), f18_run_before_fix = hang_h1/asyncio, idle_closed_failed_before_fix = "
                     "fresh_h2")


def replay(ctx: Ctx, case: dict) -> None:
    evaluate(ctx, [case["scenario"]], procs=1)
