"""C05 — application failures are contained and never yield a falsely complete response.

Exhaustive crash-point grid: every step index of a family of scripted applications (including the point after the
response completed) x the ways an application can end there -
    raise      an exception of its own (a bare one, or an ExceptionGroup from a task group inside the application),
    return     falls off the end early,
    cancel     a cancellation reaches it at that await point while the connection stays up (asyncio: it awaits something
               of its own that was cancelled / its own task is cancelled; trio: a cancel scope of its own is cancelled),
    invalid    it sends a message the server refuses: the server raises into the application, which dies with that
               exception (every refusal hypercorn's own code makes, in every state of the response),
x {HTTP/1.1 keep-alive + a pipelined second request, HTTP/2 with a sibling stream, WebSocket handshake / session}
x both workers; the client's verdict comes from independent h11 / h2 parsers.  Whether "a response had been started" is
read off what the server *accepted* from the application (a refused message starts nothing)."""
from __future__ import annotations

from typing import Any, Dict, List, Optional

from ..core import clients as C
from ..core import runner as R
from ..core import streams as S
from ..core.framework import Ctx, b2s

SPEC = {
    "modules": ["HC.Props.C05"],
    "extracted": ["Guards", "Consts", "H11Tables", "AppExit", "ReqGlue"],
    "technique": "Lean 4 theorems on (a) the try/except/finally of both workers' _handle as read off the source (every way the application can end - return, exception, cancellation, exception groups - signals completion; a raise is logged once and contained), (b) the stream transducers (exit in REQUEST/HANDSHAKE => exactly a complete 500 then stream-closed; exit after the start => stream-closed with no end-of-body; a refused message starts nothing, in the model and in the statement order of the REQUEST-state branches of the source) composed with the h11 recycle rule (no EndOfMessage => our side is not DONE => Closed) and the HTTP/2 reset rule, (c) the WebSocket stream transducer run over ARBITRARY interleavings of application messages (accepted or refused) and client input and then the application's end: an invariant tying the counts of response heads / ends of body / close frames handed to the protocol to self.state and wsproto's connection state, by induction over the operation list, and the statement order of the CONNECTED-state websocket.close branch read off the source (state only once the close frame exists, CLOSED before the first await after that); tied by an exhaustive crash-point grid on both workers judged by independent client parsers, a WebSocket state sweep over both carriers and a stream-level differential of the WebSocket exit step",
    "level_text": "Proved in Lean for every state of a request: however the application ends (returns, raises an exception or an exception group, is cancelled) the try statement of _handle on both workers - extracted from the source on every run - signals completion, logs a raise exactly once before doing so and lets no exception but a cancellation travel further; when the application finishes before a response start, the protocol layer is handed exactly a complete 500 response (content-length 0, connection: close), one access record and stream-closed; a message the stream refuses (invalid headers or status, wrong state: the exception is raised into the application) hands nothing to the protocol and leaves the stream where it was, so dying with that exception is answered 500 before the start and aborts after it - proved for the model and, as statement order (state is assigned only after the Response event was handed over), for the source's REQUEST-state branches; when the application finishes after the start but before the end - mid-body, or with its whole body sent and the trailers it announced (trailers: True) still outstanding (state TRAILERS) - the protocol is handed stream-closed and never an end-of-body: proved for the model and for the source's `message is None` branch, which is read off the source on every run and evaluated state by state (httpExitActs; exit_branch_is_source: the model's completion step IS the source's in all four states; source_exit_never_completes: in RESPONSE and TRAILERS no statement that completes or continues a response), so on HTTP/1 h11's writer is not DONE and the connection is closed instead of recycled (the response stays visibly incomplete), and on HTTP/2 the stream is reset - and the reset does not wait for the peer's flow-control credit: the guard and the statements of H2Protocol._reset_abandoned_response are read off the source on every run (h2AbandonGuard, h2AbandonSteps), none of them is a buffer.drain() or an unknown await (h2_abandon_path_waits_only_for_transport), so the function returns from every state of the stream (h2_abandon_path_returns), the two ops of the send-path model H2Send that stand for it are exactly these statements (h2_abandon_model_is_source), and in that model - which has the buffer, both windows and the send task - the reset step is enabled in every state, whatever is buffered and whatever the windows are (h2_abandoned_reset_needs_no_credit); a WebSocket gets 500 in the handshake and close 1011 when connected - proved over the WebSocket stream model for EVERY sequence of application messages, accepted or refused, of every type in every state (and any client input in between) followed by the application's end: the events handed to the protocol (the same for the HTTP/1.1 and the HTTP/2 carrier) contain at most one response head, one end of body and one close frame over the stream's whole life, and the end adds exactly the 500 (handshake unanswered), nothing but stream-closed (rejection started or complete, close frame already sent - by the application, as 1009, or as the echo of the client's close) or exactly the 1011 close frame (connected, none sent yet); a refused message of any type hands nothing over and moves nothing; in particular a websocket.close no close frame can be built from (int(code) raises, code outside 0..65535, reason not a str - by cases on the refusal, for all codes and reasons) leaves the stream CONNECTED, and the source's branch assigns CLOSED only once the frame exists and before its first await (statement order extracted on every run; repair of F63).  HTTP/1 protocol layer (H11Protocol model): a send h11 refuses puts its writer into ERROR (refused_send_poisons) and from then on NO _send_h11_event raises, whatever the event - the body an application goes on sending, a retried start, the 500 of app_send(None) when it dies (errored_send_never_raises, refused_then_nothing_raises; repair 42763b6 / F100): only the refusal itself reaches the application, the failure that follows cannot end the connection handler with an error.  Tie: every step index of seven scripted applications (two of them announce trailers: the crash points after the last body message and between two trailers messages are in state TRAILERS) (the point after completion included) x {raise, return, cancel, refused message} with every variant of each (bare / group exception; cancelled inner await / own task cancelled; every refusal hypercorn makes in the state reached) on HTTP/1.1 (with a pipelined follower), HTTP/2 (with a sibling stream that must complete) and WebSocket, both workers; on HTTP/2 every crash point again with the failing stream's window closed to (part of) what the application wrote (SETTINGS_INITIAL_WINDOW_SIZE 0 / 4 / 2, or the default window used up by a 70000-byte body) by a client that returns connection credit, serves the sibling stream and sends no WINDOW_UPDATE for the failing stream for one (virtual) second: by then the reset / the 500 must have arrived, the sibling must be complete and the server must have released the stream (access record); verdicts by independent h11/h2 parsers; exactly one error-log record per raise; a message the PROTOCOL layer refuses (h11: status 101 without an upgrade proposal, status outside its ranges, body beyond / end short of the declared content-length, the end of a response that only has an interim head; h2: a te response header) x what the application does next (dies, gives up, goes on sending, goes on and dies, retries with a valid start, retries and dies) x both workers: the handler never ends with an exception, a dying application is logged once, a complete response at the client is the 500 or exactly what the accepted messages describe, everything else ends closed / reset with the sibling unharmed; stream-level model/implementation correspondence of the exit step after each refused message (HTTP and WebSocket streams); WebSocket state sweep: every state of the stream (handshake, rejection announced / head refused, connected, connected after a survived refusal, rejection started, rejection complete, denied 403, closed) x {raise, return, every message the stream refuses there} x {HTTP/1.1 upgrade, HTTP/2 extended CONNECT} x both workers, judged by an independent wsproto / h11 / h2 client.",
    "level_note": "Trusted: Lean kernel; stream models and H11Protocol model (differential runs in C12/C06); the extractor's reading of _handle and of the REQUEST-state branches (unrecognised statements are an EXTRACT-FAIL); h11 framing decides whether an aborted body is visibly incomplete: a response whose whole declared content-length was already written, or a close-delimited HTTP/1.0 body, cannot be distinguished from a complete one by any client and is outside the statement; the HTTP/2 reset rule is the code path added by the F06 repair; the WebSocket model's close message carries the RESULT of int(code) (value or raised class - the language's own conversion, computed by the harness) and wsproto's refusals while serialising a close frame (code outside 0..65535, reason without encode) are modelled (Ws.closeFrame) and tied by the differential runs of C05 and C12; on HTTP/2 the stream-level theorems speak about the events handed to H2Protocol - what H2Protocol does with StreamClosed for a WebSocket stream is the known finding F110.",
    "rule": "script family x crash index x kind (raise / return / cancel / refused message) x variant x protocol x worker (exhaustive grid for the canonical variant, all variants on a sweep reaching every response state: REQUEST / RESPONSE / TRAILERS / CLOSED); HTTP/2 additionally x {request body still in flight} and x {flow-control window of the failing stream: 0, 2, 4 bytes, or the default window used up by a 70000-byte body; no WINDOW_UPDATE for that stream before the bound}; protocol-refused message x continuation x protocol x worker (exhaustive); WebSocket: stream state x end (raise / return / each refused message of the state) x carrier x worker, exhaustive; distinct = each grid cell; non-trivial = the application ends before completing its response or dies after it",
    "trusted": ["h11 / h2 client parsers as the client's verdict"],
    "partial": [],
    "assumptions": ["'logged' is required for raising applications (their own exception or one the server raised into them) only: a silent early return and a cancellation are not errors",
                    "trio: a cancellation that reaches application code without the connection being torn down is one absorbed by a cancel scope of the application (trio never lets Cancelled leave the scope that owns it); the server then sees the application return",
                    "whether a response had been started is read off the messages the server accepted from the application; a refused message starts nothing",
                    "after a refusal inside h11's state machine (our_state ERROR) h11 can write nothing more: a dying application then gets the connection closed without a 500 (a refusal that leaves the connection usable - status outside h11's ranges - still owes the 500)"],
}

START = {"type": "http.response.start", "status": 200, "headers": [(b"x-a", b"1")]}
START_CL = {"type": "http.response.start", "status": 200, "headers": [(b"content-length", b"6")]}
START_T = {"type": "http.response.start", "status": 200, "headers": [(b"x-a", b"1")], "trailers": True}
FAMILIES = {
    "read_then_respond": [["recv_body"], ["send", START], ["send", {"type": "http.response.body", "body": b"abc", "more_body": True}],
                          ["send", {"type": "http.response.body", "body": b"def"}]],
    "respond_early": [["send", START], ["send", {"type": "http.response.body", "body": b"abc", "more_body": True}], ["recv_body"],
                      ["send", {"type": "http.response.body", "body": b"def"}]],
    "declared_length": [["recv_body"], ["send", START_CL], ["send", {"type": "http.response.body", "body": b"abc", "more_body": True}],
                        ["send", {"type": "http.response.body", "body": b"def", "more_body": True}], ["send", {"type": "http.response.body"}]],
    "respond_unread": [["send", {"type": "http.response.start", "status": 200, "headers": [(b"content-length", b"3")]}],
                       ["send", {"type": "http.response.body", "body": b"abc"}]],
    "stream_three": [["send", START], ["send", {"type": "http.response.body", "body": b"1", "more_body": True}], ["sleep", 0.1],
                     ["send", {"type": "http.response.body", "body": b"2", "more_body": True}], ["send", {"type": "http.response.body", "body": b"3"}]],
    # trailers announced (`trailers: True`): after the LAST body message the response is still open (state TRAILERS) until the
    # final http.response.trailers - an application that ends there has not completed its response, on any protocol
    "announce_trailers": [["recv_body"], ["send", START_T], ["send", {"type": "http.response.body", "body": b"abc", "more_body": True}],
                          ["send", {"type": "http.response.body", "body": b"def"}]],
    "send_trailers": [["send", START_T], ["send", {"type": "http.response.body", "body": b"abc"}],
                      ["send", {"type": "http.response.trailers", "headers": [(b"x-t", b"1")], "more_trailers": True}],
                      ["send", {"type": "http.response.trailers", "headers": [(b"x-u", b"2")]}]],
}
# families whose script is valid on some protocols only (http.response.trailers is an HTTP/2+ message); the HTTP/2 client
# of a trailers family sends `te: trailers`
FAMILY_PROTOS = {"send_trailers": ("2",)}
TRAILER_FAMILIES = ("announce_trailers", "send_trailers")
# HTTP/2 flow control (grid `window_grid`): the client's window for the failing stream does not cover what the application
# wrote before it ended - a small SETTINGS_INITIAL_WINDOW_SIZE, or the default window used up by a body larger than it - and
# the client sends no WINDOW_UPDATE for that stream before RESET_BOUND (it returns connection credit and serves the sibling
# stream).  What the server must do about the abandoned response may not depend on credit it has no claim to.
BIG = 70000
WINDOW_FAMILIES = {
    "big_body": [["send", START], ["send", {"type": "http.response.body", "body": b"B" * BIG, "more_body": True}],
                 ["send", {"type": "http.response.body", "body": b"def"}]],
}
ALL_FAMILIES = {**FAMILIES, **WINDOW_FAMILIES}
WINDOWS = (0, 4, 2)            # quick: the first two
RESET_BOUND = 1.0              # virtual seconds the client leaves the failing stream's window alone


def protos_of(fam: str) -> tuple:
    return ("ws",) if fam == "ws" else FAMILY_PROTOS.get(fam, ("1.1", "2"))
# HTTP/2 upload that is still in flight when the application ends: one connection window (65535) in all
UPLOAD = bytes(range(256)) * 255 + bytes(255)
UPLOAD_FIRST = 1000
SIBLING_UPLOAD = b"s" * 20000
WS_FAMILY = [["recv"], ["send", {"type": "websocket.accept"}], ["recv"], ["send", {"type": "websocket.send", "text": "echo"}], ["recv"]]
SIBLING = [["recv_body"], ["send", {"type": "http.response.start", "status": 200, "headers": [(b"content-length", b"7")]}],
           ["send", {"type": "http.response.body", "body": b"sibling"}]]


# messages hypercorn's own code refuses (the exception is raised into the application), by the state they are sent in
INVALID = {
    "REQUEST": {
        "start_str_headers": {"type": "http.response.start", "status": 200, "headers": [("x-a", "1")]},
        "start_pseudo_header": {"type": "http.response.start", "status": 200, "headers": [(b":status", b"200")]},
        "start_ctl_in_value": {"type": "http.response.start", "status": 200, "headers": [(b"x-a", b"a\r\nx-b: 1")]},
        "start_bad_status": {"type": "http.response.start", "status": "abc", "headers": [(b"x-a", b"1")]},
        "start_no_status": {"type": "http.response.start", "headers": [(b"x-a", b"1")]},
        "start_empty_name": {"type": "http.response.start", "status": 200, "headers": [(b"", b"1")]},
        "body_before_start": {"type": "http.response.body", "body": b"early"},
        "unknown_type": {"type": "http.response.bogus"},
    },
    "RESPONSE": {
        "body_str": {"type": "http.response.body", "body": "text", "more_body": True},
        "second_start": {"type": "http.response.start", "status": 200, "headers": []},
        "unknown_type": {"type": "http.response.bogus"},
    },
    "TRAILERS": {
        "body_after_last": {"type": "http.response.body", "body": b"late"},
        "trailers_ctl_in_value": {"type": "http.response.trailers", "headers": [(b"x-t", b"a\r\nx-b: 1")]},
        "second_start": {"type": "http.response.start", "status": 200, "headers": []},
        "unknown_type": {"type": "http.response.bogus"},
    },
    "CLOSED": {
        "body_after_end": {"type": "http.response.body", "body": b"late"},
        "start_after_end": {"type": "http.response.start", "status": 200, "headers": []},
    },
}
WS_INVALID = {
    "HANDSHAKE": {
        "send_before_accept": {"type": "websocket.send", "text": "early"},
        "accept_str_headers": {"type": "websocket.accept", "headers": [("x-a", "1")]},
        "unknown_type": {"type": "websocket.bogus"},
    },
    "CONNECTED": {
        "accept_again": {"type": "websocket.accept"},
        "send_text_not_str": {"type": "websocket.send", "text": 5},
        "send_bytes_not_bytes": {"type": "websocket.send", "bytes": "abc"},
        "close_bad_code": {"type": "websocket.close", "code": "abc"},
        "close_bad_reason": {"type": "websocket.close", "code": 1000, "reason": 5},
        "close_none_code": {"type": "websocket.close", "code": None},
        "close_big_code": {"type": "websocket.close", "code": 70000},
        "close_bytes_reason": {"type": "websocket.close", "code": 1000, "reason": b"bye"},
        "unknown_type": {"type": "websocket.bogus"},
    },
}

# ---- WebSocket state sweep (both carriers): how the scripted application reaches every state of the stream, and every
#      message the stream refuses there (the C12 alphabet: every message type, and every payload refusal of the types the state
#      accepts).  Ends: raise / return / die with the exception of a refused message.
_RSTART = {"type": "websocket.http.response.start", "status": 403, "headers": [(b"x-a", b"1")]}
_RSTART_CL = {"type": "websocket.http.response.start", "status": 403, "headers": [(b"content-length", b"2")]}
_RSTART_BAD = {"type": "websocket.http.response.start", "status": 403, "headers": [(b"x-a", b"1\r\nx-b: 2")]}
_ACCEPT = {"type": "websocket.accept"}
_TEXT = {"type": "websocket.send", "text": "hello"}
WS_REACH: Dict[str, List[list]] = {
    "HANDSHAKE": [],
    "HANDSHAKE+start": [["send", _RSTART]],                       # a rejection announced, nothing sent yet
    "HANDSHAKE+badstart": [["send", _RSTART_BAD]],                # its head will be refused when the body arrives
    "CONNECTED": [["send", _ACCEPT]],
    "CONNECTED+caught": [["send", _ACCEPT], ["send", {"type": "websocket.close", "code": "abc"}, "refused"], ["send", _TEXT]],   # a refusal the application survived
    "RESPONSE": [["send", _RSTART], ["send", {"type": "websocket.http.response.body", "body": b"no", "more_body": True}]],
    "REJECTED": [["send", _RSTART_CL], ["send", {"type": "websocket.http.response.body", "body": b"no"}]],
    "DENIED": [["send", {"type": "websocket.close"}]],
    "CLOSED": [["send", _ACCEPT], ["send", {"type": "websocket.close", "code": 3000}]],
}
_ANY = {
    "accept": _ACCEPT, "send": _TEXT, "close": {"type": "websocket.close"}, "rstart": _RSTART,
    "rbody": {"type": "websocket.http.response.body", "body": b"x"}, "unknown_type": {"type": "websocket.bogus"},
    "http_type": {"type": "http.response.start", "status": 200, "headers": []},
}
_CONNECTED_REFUSED = {**WS_INVALID["CONNECTED"], "send_no_payload": {"type": "websocket.send"},
                      "close_negative_code": {"type": "websocket.close", "code": -1},
                      "rstart_after_accept": _RSTART, "rbody_after_accept": _ANY["rbody"], "http_type": _ANY["http_type"]}
WS_SWEEP_INVALID: Dict[str, Dict[str, dict]] = {
    "HANDSHAKE": {**WS_INVALID["HANDSHAKE"], "accept_bad_subprotocol": {"type": "websocket.accept", "subprotocol": "nope"},
                  "accept_ctl_header": {"type": "websocket.accept", "headers": [(b"x-a", b"1\r\nx-b: 2")]},
                  "body_without_start": _ANY["rbody"], "http_type": _ANY["http_type"]},
    "HANDSHAKE+start": {"body_str": {"type": "websocket.http.response.body", "body": "text"}, "accept_bad_subprotocol": {"type": "websocket.accept", "subprotocol": "nope"}},
    "HANDSHAKE+badstart": {"body_bad_head": {"type": "websocket.http.response.body", "body": b"no"}},
    "CONNECTED": _CONNECTED_REFUSED,
    "CONNECTED+caught": {k: _CONNECTED_REFUSED[k] for k in ("close_bad_code", "close_big_code", "close_bad_reason", "send_text_not_str", "unknown_type")},
    "RESPONSE": {"body_str": {"type": "websocket.http.response.body", "body": "text"}, **{k: _ANY[k] for k in ("accept", "send", "close", "rstart", "unknown_type")}},
    "REJECTED": dict(_ANY),
    "DENIED": dict(_ANY),
    "CLOSED": dict(_ANY),
}
# the state `self.state` is in once the reach script has been accepted
WS_REACH_STATE = {"HANDSHAKE": "HANDSHAKE", "HANDSHAKE+start": "HANDSHAKE", "HANDSHAKE+badstart": "HANDSHAKE", "CONNECTED": "CONNECTED",
                  "CONNECTED+caught": "CONNECTED", "RESPONSE": "RESPONSE", "REJECTED": "HTTPCLOSED", "DENIED": "HTTPCLOSED", "CLOSED": "CLOSED"}
KINDS = ("raise", "return", "cancel", "invalid")

# Messages the stream accepts and the PROTOCOL layer (the h11 / h2 library underneath) refuses, by the protocols on which
# that happens.  `poisons`: the refusal happens inside the library's connection state machine, which can send nothing
# afterwards (h11: our_state ERROR) - no 500 can follow, the connection can only be closed.
_B = lambda data, more=False: {"type": "http.response.body", "body": data, "more_body": more}          # noqa: E731
_S = lambda status, hs=None: {"type": "http.response.start", "status": status, "headers": [(b"x-a", b"1")] if hs is None else hs}   # noqa: E731
PROTO_REFUSED: Dict[str, dict] = {
    # 101 on a request that proposed no upgrade: h11 refuses the switch event inside its state machine
    "start_101_no_upgrade": {"protos": ("1.1",), "prefix": [["recv_body"]], "msg": _S(101), "poisons": True},
    # outside h11's status ranges: refused when the event is built, the connection is untouched
    "start_status_99": {"protos": ("1.1",), "prefix": [["recv_body"]], "msg": _S(99), "poisons": False},
    "start_status_1000": {"protos": ("1.1",), "prefix": [["recv_body"]], "msg": _S(1000), "poisons": False},
    # more body than the declared content-length / the end short of it / the end of a response that only has an interim head
    "body_exceeds_content_length": {"protos": ("1.1",), "prefix": [["recv_body"], ["send", START_CL]], "msg": _B(b"x" * 7, True), "poisons": True},
    "end_short_of_content_length": {"protos": ("1.1",), "prefix": [["recv_body"], ["send", START_CL]], "msg": _B(b"abc"), "poisons": True},
    "end_after_interim_start": {"protos": ("1.1",), "prefix": [["recv_body"], ["send", _S(102)]], "msg": _B(b""), "poisons": True},
    # h2 refuses a `te` response header other than `trailers` (outbound header validation); H2Protocol swallows the refusal
    "start_te_gzip": {"protos": ("2",), "prefix": [["recv_body"]], "msg": _S(200, [(b"te", b"gzip")]), "poisons": False},
}
# what the application does with the refusal
REFUSED_THEN = {
    "dies": lambda bad: [["send!", bad], ["raise"]],                       # does not catch it (or, when the refusal was silent, fails next)
    "returns": lambda bad: [["send", bad], ["return"]],                    # catches it and gives up
    "goes_on": lambda bad: [["send", bad], ["send", _B(b"zz", True)], ["send", _B(b"z")]],
    "goes_on_dies": lambda bad: [["send", bad], ["send", _B(b"zz", True)], ["raise"]],
    "retries": lambda bad: [["send", bad], ["send", START], ["send", _B(b"ok")]],          # a valid start after the refused one
    "retries_dies": lambda bad: [["send", bad], ["send!", START], ["raise"]],
}


def refusal_grid() -> List[dict]:
    return [{"family": "proto_refused", "kind": "proto_refused", "msg": name, "then": then, "proto": proto, "worker": worker}
            for name, ent in PROTO_REFUSED.items() for then in REFUSED_THEN for proto in ent["protos"] for worker in ("asyncio", "trio")]


def steps_of(case: dict) -> List[list]:
    return WS_FAMILY if case["family"] == "ws" else ALL_FAMILIES[case["family"]]


def scripted_state(case: dict) -> str:
    """state the response is in at the crash point if every scripted message before it is accepted"""
    if case["family"] == "ws":
        return "CONNECTED" if case["crash_at"] >= 2 else "HANDSHAKE"
    return _fold([s_[1] for s_ in steps_of(case)[: case["crash_at"]] if s_[0] == "send"])


def _fold(msgs: List[dict]) -> str:
    """state of the response after the application's ACCEPTED messages `msgs` (ASGI: the start opens the response, the
    last body message completes it - unless trailers were announced, then the last trailers message does)"""
    st, announced = "REQUEST", False
    for m in msgs:
        t = m["type"]
        if t == "http.response.start" and st == "REQUEST":
            st, announced = "RESPONSE", bool(m.get("trailers", False))
        elif t == "http.response.body" and st == "RESPONSE" and not m.get("more_body", False):
            st = "TRAILERS" if announced else "CLOSED"
        elif t == "http.response.trailers" and st == "TRAILERS" and not m.get("more_trailers", False):
            st = "CLOSED"
    return st


def variants(case: dict) -> List[Optional[str]]:
    """the ways `kind` can happen at this crash point on this worker (first = the canonical one)"""
    if case["kind"] == "raise":
        return [None, "group"]
    if case["kind"] == "cancel":
        return ["inner", "self"] if case["worker"] == "asyncio" else ["inner"]
    if case["kind"] == "invalid":
        table = WS_INVALID if case["family"] == "ws" else INVALID
        return list(table[scripted_state(case)])
    return [None]


def grid(full: bool = False) -> List[dict]:
    """every crash point x kind x protocol x worker with the canonical variant of the kind, then every other variant of
    every kind on a sweep that reaches each state of the response (REQUEST / RESPONSE / CLOSED, HANDSHAKE / CONNECTED)
    on every protocol and worker; `full` (thorough tier): every variant at every crash point"""
    cases = []
    for fam, steps in list(FAMILIES.items()) + [("ws", WS_FAMILY)]:
        for idx in range(len(steps) + 1):
            for kind in KINDS:
                for proto in protos_of(fam):
                    for worker in ("asyncio", "trio"):
                        c = {"family": fam, "crash_at": idx, "kind": kind, "proto": proto, "worker": worker}
                        v = variants(c)[0]
                        if v is not None:
                            c["variant"] = v
                        cases.append(c)
    # HTTP/2, the request body still in flight when the application ends: every crash point x kind (canonical variant)
    for fam, steps in FAMILIES.items():
        for idx in range(len(steps) + 1):
            for kind in KINDS:
                for worker in ("asyncio", "trio"):
                    c = {"family": fam, "crash_at": idx, "kind": kind, "proto": "2", "worker": worker, "upload": "in_flight"}
                    v = variants(c)[0]
                    if v is not None:
                        c["variant"] = v
                    cases.append(c)
    sweep = [(fam, range(len(steps) + 1)) for fam, steps in list(FAMILIES.items()) + [("ws", WS_FAMILY)]] if full else \
        [("read_then_respond", (1, 2, 4)), ("announce_trailers", (4,)), ("ws", (1, 3))]
    for fam, idxs in sweep:
        for idx in idxs:
            for kind in KINDS:
                for proto in protos_of(fam):
                    for worker in ("asyncio", "trio"):
                        c = {"family": fam, "crash_at": idx, "kind": kind, "proto": proto, "worker": worker}
                        for v in variants(c)[1:]:
                            cases.append({**c, "variant": v})
    return cases


def window_grid(full: bool = False) -> List[dict]:
    """HTTP/2, every crash point x kind (canonical variant) x worker, with the failing stream's flow-control window closed
    to (part of) what the application wrote: SETTINGS_INITIAL_WINDOW_SIZE 0 (nothing of the body can leave), 4 (the first
    body message leaves, the second only in part), 2 (thorough: the first only in part); `big_body`: the default window
    (65535) used up by a 70000-byte body message.  No WINDOW_UPDATE for that stream before RESET_BOUND."""
    cases = []
    fams = [(fam, steps, WINDOWS if full else WINDOWS[:2]) for fam, steps in FAMILIES.items()] + \
           [(fam, steps, (65535,)) for fam, steps in WINDOW_FAMILIES.items()]
    for fam, steps, windows in fams:
        for idx in range(len(steps) + 1):
            for kind in KINDS:
                for worker in ("asyncio", "trio"):
                    for w in windows:
                        c = {"family": fam, "crash_at": idx, "kind": kind, "proto": "2", "worker": worker, "window": w}
                        v = variants(c)[0]
                        if v is not None:
                            c["variant"] = v
                        cases.append(c)
    return cases


def script_for(case: dict) -> List[list]:
    if case["kind"] == "proto_refused":
        ent = PROTO_REFUSED[case["msg"]]
        return [list(s_) for s_ in ent["prefix"]] + REFUSED_THEN[case["then"]](ent["msg"])
    steps = steps_of(case)
    kind, v = case["kind"], case.get("variant")
    if kind == "raise":
        end = [["raise_group"]] if v == "group" else [["raise"]]
    elif kind == "return":
        end = [["return"]]
    elif kind == "cancel":
        end = [["cancel", v or "inner"]]
    else:
        table = WS_INVALID if case["family"] == "ws" else INVALID
        end = [["send!", table[scripted_state(case)][v]], ["return"]]
    return [list(s) for s in steps[: case["crash_at"]]] + end


def accepted_state(case: dict, app_sends: List[list]) -> Optional[str]:
    """The state of the response when the application ended, read off what the server accepted: the application's k-th
    send call carried the script's k-th message; it counts iff the call returned normally.  None = a message of the
    (valid) script was refused, which is judged separately."""
    msgs = [s_[1] for s_ in script_for(case) if s_[0] in ("send", "send!")]
    valid = sum(1 for s_ in steps_of(case)[: case["crash_at"]] if s_[0] == "send")
    ws = case["family"] == "ws"
    st = "HANDSHAKE"
    accepted: List[dict] = []
    for k, m in enumerate(msgs[: len(app_sends)]):
        ok = app_sends[k][2] == "ok"
        if not ok and k < valid:
            return None
        if ok:
            accepted.append(m)
            st = "CONNECTED" if m["type"] == "websocket.accept" and st == "HANDSHAKE" else st
    return st if ws else _fold(accepted)


def sent_body_len(case: dict) -> int:
    return sum(len(s[1].get("body", b"")) for s in steps_of(case)[: case["crash_at"]] if s[0] == "send" and s[1]["type"] == "http.response.body")


def run_case(case: dict) -> dict:
    script = script_for(case)
    if case["proto"] == "1.1":
        async def client(io):
            await io.send(C.h1_request("POST", "/crash", [(b"host", b"x")], b"body") + C.h1_request("GET", "/next", [(b"host", b"x")]))
            await io.sleep(2.0)
        res = R.RUNNERS[case["worker"]]({"keep_alive_timeout": 3}, None, client, [script, SIBLING], tail=10)
        p = C.parse_h1(res["out"], ["POST", "GET"], server_closed=res["closed_at"] is not None)
        finals = [r for r in p["responses"] if not r.get("informational")]
        view = {"responses": [{"status": r["status"], "complete": r["complete"], "body": r["body"], "headers": r["headers"]} for r in finals],
                "parse_error": p["error"], "closed": res["closed_at"] is not None}
    elif case["proto"] == "2" and case.get("upload") == "in_flight":
        # The client is uploading a connection window's worth of request body when the application ends: the first part
        # arrives with the request, the rest is already on its way (the client has not looked at the server's answer
        # yet) and arrives in later reads, on a stream the server may have answered, reset or forgotten by then.
        # Afterwards a sibling stream uploads a body of its own: it needs connection window the failed stream used.
        async def client(io):
            c = C.H2Client()
            s1 = c.request(C.h2_headers("POST", "/crash", extra=[(b"te", b"trailers")] if case["family"] in TRAILER_FAMILIES else None),
                           UPLOAD[:UPLOAD_FIRST], end=False)
            await io.send(c.out())
            await io.sleep(0.5)
            c.send_data(s1, UPLOAD[UPLOAD_FIRST:], True)
            rest = c.out()
            step = len(rest) // 4 + 1
            for k in range(0, len(rest), step):
                await io.send(rest[k:k + step])
            await c.pump(io)
            s3 = c.request(C.h2_headers("POST", "/sibling"), SIBLING_UPLOAD)
            await c.pump(io)
            await io.sleep(2.0)
            await c.pump(io)
            return {"summary": c.summary(), "s1": s1, "s3": s3, "unsent": {str(k): len(v[0]) for k, v in c.pending.items()}}
    elif case["proto"] == "2" and case.get("window") is not None:
        # The client's window for the failing stream is `window` bytes and stays that way until RESET_BOUND: connection
        # credit is returned as data arrives, the sibling stream gets stream credit of its own, the failing stream gets
        # none.  What the client knows at RESET_BOUND is kept (`at_bound`); only then does it open the failing stream's
        # window (so that a response the application COMPLETED can still be delivered and judged as before).
        async def client(io):
            c = C.H2Client(initial_window=case["window"], auto_window="connection")
            await c.pump(io)                  # SETTINGS exchanged: the server knows the window before the request
            s1 = c.request(C.h2_headers("POST", "/crash", extra=[(b"te", b"trailers")] if case["family"] in TRAILER_FAMILIES else None), b"body")
            await c.pump(io)
            s3 = c.request(C.h2_headers("GET", "/sibling"))
            c.grant(s3, 1000)
            await c.pump(io)
            await io.sleep(RESET_BOUND)
            await c.pump(io)
            at_bound = {k: {"ended": v_["ended"], "reset": v_["reset"], "received": len(v_["data"]), "headers": v_["headers"] is not None}
                        for k, v_ in ((str(s1), c._st(s1)), (str(s3), c._st(s3)))}
            granted = c.grant(s1, 1 << 20)
            await c.pump(io)
            await io.sleep(2.0)
            await c.pump(io)
            return {"summary": c.summary(), "s1": s1, "s3": s3, "at_bound": at_bound, "granted_after_bound": granted}
    elif case["proto"] == "2":
        async def client(io):
            c = C.H2Client()
            s1 = c.request(C.h2_headers("POST", "/crash", extra=[(b"te", b"trailers")] if case["family"] in TRAILER_FAMILIES else None), b"body")
            await c.pump(io)
            s3 = c.request(C.h2_headers("GET", "/sibling"))
            await c.pump(io)
            await io.sleep(2.0)
            await c.pump(io)
            return {"summary": c.summary(), "s1": s1, "s3": s3}
    if case["proto"] == "2":
        res = R.RUNNERS[case["worker"]]({"keep_alive_timeout": 3}, "h2", client, [script, SIBLING], tail=10)
        cr = res.get("client_result") or {"summary": {"streams": {}, "error": "client did not finish: " + str(res.get("client_error")), "goaway": None}, "s1": 1, "s3": 3}
        sib_app = next((a for a in res["apps"] if a["scope"]["path"] == "/sibling"), None)
        view = {"crash": cr["summary"]["streams"].get(str(cr["s1"]), {}), "sibling": cr["summary"]["streams"].get(str(cr["s3"]), {}),
                "error": cr["summary"]["error"], "goaway": cr["summary"]["goaway"], "closed": res["closed_at"] is not None,
                "unsent": cr.get("unsent", {}),
                "sibling_received": None if sib_app is None else sum(len(m[2]) for m in sib_app["recv"] if m[1] == "http.request")}
        if case.get("window") is not None:
            ab = cr.get("at_bound") or {}
            crash_rec = next((a for a in res["apps"] if a["scope"]["path"] == "/crash"), None)
            # server side: the access record of the failing request is written when the completion signal (app_send(None))
            # has been worked off - the stream is released, the connection can go idle
            released = [a[0] for a in res["access"] if a[1] == "/crash"]
            view["window"] = {"at_bound": {"crash": ab.get(str(cr["s1"])), "sibling": ab.get(str(cr["s3"]))},
                              "granted_after_bound": cr.get("granted_after_bound"),
                              "app_exit_ms": None if crash_rec is None else crash_rec.get("t_exit"),
                              "released_ms": released[0] if released else None}
    elif case["proto"] == "ws":
        from ..core.h11sessions import WS_KEY
        from wsproto.connection import Connection, ConnectionType
        from wsproto.events import TextMessage

        async def client(io):
            await io.send(C.h1_request("GET", "/ws", [(b"host", b"x"), (b"upgrade", b"websocket"), (b"connection", b"Upgrade"),
                                                     (b"sec-websocket-key", WS_KEY), (b"sec-websocket-version", b"13")]))
            await io.sleep(0.5)
            wc = Connection(ConnectionType.CLIENT)
            await io.send(wc.send(TextMessage(data="hi")))
            await io.sleep(0.5)
            await io.send(wc.send(TextMessage(data="again")))     # lets the last receive of the script return
            await io.sleep(2.0)
        res = R.RUNNERS[case["worker"]]({"keep_alive_timeout": 3}, None, client, [script], tail=10)
        head, _, rest = res["out"].partition(b"\r\n\r\n")
        frames = []
        if head.startswith(b"HTTP/1.1 101"):
            wc = Connection(ConnectionType.CLIENT)
            wc.receive_data(rest)
            try:
                for ev in wc.events():
                    frames.append([type(ev).__name__, getattr(ev, "code", None) if hasattr(ev, "code") else getattr(ev, "data", None)])
            except Exception as e:
                frames.append(["error", repr(e)])
        view = {"status_line": head.split(b"\r\n")[0].decode(), "frames": frames, "closed": res["closed_at"] is not None}
    crash_app = next((a for a in res["apps"] if a["scope"]["path"] in ("/crash", "/ws")), None)
    return {"view": view, "exceptions": len(res["exceptions"]), "error": res["error"], "loop_errors": res["loop_errors"],
            "apps": [[a["exit"], a["send"]] for a in res["apps"]], "handler_done": bool(res["handler_done"]),
            "crash_app": None if crash_app is None else {"exit": crash_app["exit"], "send": crash_app["send"]},
            "stuck": bool(res.get("stuck_session"))}


def check(ctx: Ctx, cases: List[dict]) -> None:
    for case in cases:
        o = run_case(case)
        ctx.evaluations += 1
        ctx.count("proto", case["proto"])
        ctx.count("kind", case["kind"] + ("/" + case["variant"] if case.get("variant") and case["kind"] != "invalid" else ""))
        if case["kind"] == "invalid":
            ctx.count("invalid_message", scripted_state(case) + ":" + case["variant"])
        ctx.distinct([case["family"], case["crash_at"], case["kind"], case.get("variant"), case["proto"], case["worker"], case.get("upload"), case.get("window")])
        if case.get("upload"):
            ctx.count("h2_upload", case["upload"])
        ctx.sample(case, cap=3)
        sig = {"proto": case["proto"], "kind": case["kind"]}
        if case["kind"] == "invalid":
            sig["refused"] = script_for(case)[-2][1]["type"]
        if case.get("upload"):
            sig["upload"] = case["upload"]
        v = o["view"]
        if o["stuck"]:
            ctx.violation("session_hangs", case, {"note": "the server session did not finish within the harness timeout"}, sig)
            continue
        if o["error"] or o["loop_errors"]:
            ctx.violation("handler_exception", case, {"error": o["error"], "loop": o["loop_errors"]}, {**sig, "clause2": "internal"})
            continue
        app = o["crash_app"]
        if app is None:
            ctx.violation("application_not_started", case, v, sig)
            continue
        if app["exit"] is None:
            # the scripted application is still waiting somewhere before its crash point: nothing can be judged
            ctx.violation("crash_point_not_reached", case, {"sends": app["send"], "view": v}, sig)
            continue
        st = accepted_state(case, app["send"])
        ctx.count("state_at_exit", str(st))
        ctx.count("state_at_exit." + case["proto"], str(st))
        if st == "TRAILERS":
            sig["state"] = "TRAILERS"
        if st is None:
            ctx.violation("valid_message_refused", case, {"sends": app["send"]}, sig)
            continue
        if case["kind"] == "invalid" and (not app["send"] or app["send"][-1][2] == "ok"):
            # the corpus holds only messages hypercorn itself refuses; an accepted one means the corpus no longer
            # exercises the failure mode it is there for (the application then simply returned early)
            ctx.violation("invalid_message_accepted", case, {"sends": app["send"]}, sig)
        # ---- the failure is logged (raise / invalid: exactly once; return / cancel: nothing is an error)
        want_logs = 1 if case["kind"] in ("raise", "invalid") else 0
        if want_logs == 1 and o["exceptions"] != 1:
            ctx.violation("logged_once", case, {"exceptions": o["exceptions"], "exit": app["exit"]}, sig)
        if want_logs == 0 and o["exceptions"] != 0:
            ctx.violation("spurious_error_log", case, {"exceptions": o["exceptions"], "exit": app["exit"]}, sig)
        if case["proto"] == "ws":
            # handshake phase: 500; connected: close frame 1011; never a normal close; always terminated
            if st == "HANDSHAKE" and not v["status_line"].startswith("HTTP/1.1 500"):
                ctx.violation("ws_crash_handshake_500", case, v, sig)
            if st == "CONNECTED" and ["CloseConnection", 1011] not in v["frames"]:
                ctx.violation("ws_crash_connected_1011", case, v, sig)
            if not v["closed"]:
                ctx.violation("not_terminated", case, v, sig)
            continue
        full = "".join(s_[1].get("body", b"").decode() for s_ in steps_of(case) if s_[0] == "send" and s_[1]["type"] == "http.response.body")
        if case["proto"] == "1.1":
            r0 = v["responses"][0] if v["responses"] else None
            if st == "REQUEST":
                ok = r0 is not None and r0["status"] == 500 and r0["complete"] and v["closed"] and any(n == "connection" and "close" in val for n, val in r0["headers"])
                if not ok:
                    ctx.violation("crash_before_start_500", case, v, sig)
            elif st in ("RESPONSE", "TRAILERS"):
                # TRAILERS: the whole body went out, the announced trailers did not: the response is as unfinished as mid-body
                declared = case["family"] == "declared_length"
                fully_sent = declared and sent_body_len(case) >= 6
                if r0 is None or r0["status"] != 200:
                    ctx.violation("response_lost", case, v, sig)
                elif r0["complete"] and not fully_sent:
                    ctx.violation("falsely_complete", case, v, {**sig, "framing": "content-length" if declared else "chunked"})
                if not v["closed"]:
                    ctx.violation("not_terminated", case, v, sig)
                if len(v["responses"]) > 1 and not fully_sent:
                    ctx.violation("served_after_abort", case, v, sig)
            else:
                if r0 is None or not r0["complete"] or r0["body"] != full:
                    ctx.violation("completed_response_damaged", case, v, sig)
                # the connection keeps working: the pipelined follower is answered in full
                r1 = v["responses"][1] if len(v["responses"]) > 1 else None
                if r1 is None or r1["status"] != 200 or not r1["complete"] or r1["body"] != "sibling":
                    ctx.violation("follower_not_served", case, v, sig)
        else:
            c = v["crash"]
            sib = v["sibling"]
            if v["error"] or v["goaway"] is not None and st != "CLOSED":
                ctx.violation("connection_level_failure", case, {"error": v["error"], "goaway": v["goaway"]}, sig)
            if not (sib.get("headers") and sib.get("ended") and sib.get("data") == "sibling"):
                ctx.violation("sibling_affected", case, {"sibling": sib, "unsent_request_body": v.get("unsent"), "sibling_received": v.get("sibling_received")}, sig)
            elif case.get("upload") == "in_flight" and v.get("sibling_received") != len(SIBLING_UPLOAD):
                ctx.violation("sibling_affected", case, {"sibling_received": v.get("sibling_received"), "want": len(SIBLING_UPLOAD)}, sig)
            raw = dict(c["headers"]).get(":status") if c.get("headers") else None
            status = int(raw) if isinstance(raw, str) and raw.isdigit() else None
            if case.get("window") is not None:
                # "promptly terminated ... the stream is reset", for a client that gives the failing stream no credit: judged on
                # what the client had seen at RESET_BOUND, before it opened that stream's window
                w = v["window"]
                ab, sb = w["at_bound"]["crash"] or {}, w["at_bound"]["sibling"] or {}
                wsig = {**sig, "window": "closed"}
                held = max(0, sent_body_len(case) - (ab.get("received") or 0))
                ctx.count("h2_window", str(case["window"]))
                ctx.count("h2_window.state_at_exit", f"{st} / {'body bytes held back by the window' if held else 'nothing held back'}")
                if not (sb.get("ended") and sb.get("headers")):
                    ctx.violation("sibling_affected", case, {"at_bound": w["at_bound"], "note": "the sibling stream (which has credit) is not answered while the failing stream's window is closed"}, wsig)
                if st == "REQUEST" and not ab.get("ended"):
                    ctx.violation("crash_before_start_500", case, {"at_bound": w["at_bound"]}, wsig)
                if st in ("RESPONSE", "TRAILERS"):
                    if ab.get("reset") is None and not ab.get("ended"):
                        ctx.violation("h2_reset_waits_for_credit", case, {"at_bound": w["at_bound"], "bound_s": RESET_BOUND, "body_bytes_held_back": held,
                                                                         "after_credit": {"reset": c.get("reset"), "ended": c.get("ended")}}, wsig)
                    # (the credit arrives RESET_BOUND after the request; every script has ended long before half of that)
                    t0, t1 = w["app_exit_ms"], w["released_ms"]
                    if t0 is not None and (t1 is None or t1 - t0 > RESET_BOUND * 500):
                        ctx.violation("abandoned_stream_not_released", case, {"app_exit_ms": t0, "released_ms": t1, "bound_s": RESET_BOUND / 2,
                                                                             "note": "the completion signal of the failed application is still being worked off: the stream stays registered"}, wsig)
            if st == "REQUEST":
                if not (status == 500 and c.get("ended")):
                    ctx.violation("crash_before_start_500", case, c, sig)
            elif st in ("RESPONSE", "TRAILERS"):
                if c.get("ended"):
                    ctx.violation("falsely_complete", case, c, {**sig, "framing": "h2"})
                elif c.get("reset") is None:
                    ctx.violation("h2_stream_not_reset", case, c, sig)
            else:
                if not (status == 200 and c.get("ended") and c.get("data") == full):
                    ctx.violation("completed_response_damaged", case, c, sig)
                elif case["family"] == "send_trailers" and [list(x) for x in (c.get("trailers") or [])] != [["x-t", "1"], ["x-u", "2"]]:
                    ctx.violation("completed_response_damaged", case, c, {**sig, "part": "trailers"})


def check_refused(ctx: Ctx, cases: List[dict]) -> None:
    """A message the protocol layer refuses, then the application dies / gives up / goes on sending / retries with a valid
    start.  Judged from what the server ACCEPTED (send calls that returned): the handler never ends with an exception, a
    dying application is logged once, whatever the client parses as a complete response is either the 500 (nothing
    accepted) or exactly the response the accepted messages describe; everything else ends with the connection closed
    (HTTP/1) / the stream reset (HTTP/2) and leaves the sibling stream / the rest of the connection alone."""
    for case in cases:
        o = run_case(case)
        ent = PROTO_REFUSED[case["msg"]]
        ctx.evaluations += 1
        ctx.count("proto", case["proto"])
        ctx.count("kind", "proto_refused/" + case["then"])
        ctx.count("protocol_refused_message", case["proto"] + ":" + case["msg"])
        ctx.distinct(["proto_refused", case["msg"], case["then"], case["proto"], case["worker"]])
        ctx.sample(case, cap=3)
        sig = {"proto": case["proto"], "kind": "proto_refused", "msg": case["msg"], "then": case["then"]}
        v = o["view"]
        if o["stuck"]:
            ctx.violation("session_hangs", case, {"note": "the server session did not finish within the harness timeout"}, sig)
            continue
        if o["error"] or o["loop_errors"]:
            ctx.violation("handler_exception", case, {"error": o["error"], "loop": o["loop_errors"]}, {**sig, "clause2": "internal"})
            continue
        app = o["crash_app"]
        if app is None or app["exit"] is None:
            ctx.violation("application_not_started" if app is None else "crash_point_not_reached", case, v, sig)
            continue
        msgs = [s_[1] for s_ in script_for(case) if s_[0] in ("send", "send!")]
        accepted = [msgs[k] for k, e in enumerate(app["send"][: len(msgs)]) if e[2] == "ok"]
        st = _fold(accepted)
        died = app["exit"] != "ok"
        ctx.count("refused.state_at_exit", f"{st}/{'died' if died else 'returned'}")
        ctx.count("refused.seen_by_application", "raised" if any(e[2] != "ok" for e in app["send"]) else "silent")
        if o["exceptions"] != (1 if died else 0):
            ctx.violation("logged_once" if died else "spurious_error_log", case, {"exceptions": o["exceptions"], "exit": app["exit"]}, sig)
        start = next((m for m in accepted if m["type"] == "http.response.start"), None)
        body = b"".join(m.get("body", b"") for m in accepted if m["type"] == "http.response.body").decode()
        if case["proto"] == "1.1":
            rs = v["responses"]
            r0 = rs[0] if rs else None
            is500 = r0 is not None and r0["complete"] and r0["status"] == 500 and st == "REQUEST"
            delivered = r0 is not None and r0["complete"] and st == "CLOSED" and start is not None and r0["status"] == start["status"] and r0["body"] == body
            if r0 is not None and r0["complete"] and not (is500 or delivered):
                ctx.violation("falsely_complete", case, v, sig)
            if st == "REQUEST" and not ent["poisons"] and not is500:
                # the refusal left the connection usable: nothing was started, so the client is owed the 500
                ctx.violation("crash_before_start_500", case, v, sig)
            if delivered:
                r1 = rs[1] if len(rs) > 1 else None
                if r1 is None or r1["status"] != 200 or not r1["complete"] or r1["body"] != "sibling":
                    ctx.violation("follower_not_served", case, v, sig)
            else:
                if not v["closed"]:
                    ctx.violation("not_terminated", case, v, sig)
                if len(rs) > 1:
                    ctx.violation("served_after_abort", case, v, sig)
        else:
            c, sib = v["crash"], v["sibling"]
            if v["error"] or v["goaway"] is not None:
                ctx.violation("connection_level_failure", case, {"error": v["error"], "goaway": v["goaway"], "crash": c}, sig)
                continue
            if not (sib.get("headers") and sib.get("ended") and sib.get("data") == "sibling"):
                ctx.violation("sibling_affected", case, {"sibling": sib}, sig)
            raw = dict(c["headers"]).get(":status") if c.get("headers") else None
            status = int(raw) if isinstance(raw, str) and raw.isdigit() else None
            is500 = bool(c.get("ended")) and status == 500 and st == "REQUEST"
            delivered = bool(c.get("ended")) and st == "CLOSED" and start is not None and status == start["status"] and c.get("data") == body
            if c.get("ended") and not (is500 or delivered):
                ctx.violation("falsely_complete", case, c, {**sig, "framing": "h2"})
            if st == "REQUEST" and not is500:
                ctx.violation("crash_before_start_500", case, c, sig)
            if not c.get("ended") and c.get("reset") is None:
                ctx.violation("h2_stream_not_reset", case, c, sig)


# ------------------------------------------------------------------------------------------------------------
# WebSocket state sweep: every state of the stream x {raise, return, every message refused there} x both carriers x both workers
# ------------------------------------------------------------------------------------------------------------
def ws_sweep_grid(full: bool = False) -> List[dict]:
    cases = []
    for state in WS_REACH:
        ends = [("raise", None), ("return", None)] + [("invalid", name) for name in WS_SWEEP_INVALID[state]]
        for kind, variant in ends:
            for carrier in ("h1", "h2"):
                for worker in ("asyncio", "trio"):
                    c = {"family": "ws_sweep", "state": state, "kind": kind, "carrier": carrier, "worker": worker}
                    if variant is not None:
                        c["variant"] = variant
                    cases.append(c)
    return cases


def ws_sweep_script(case: dict) -> List[list]:
    reach = [[st[0], st[1]] for st in WS_REACH[case["state"]]]
    if case["kind"] == "raise":
        end = [["raise"]]
    elif case["kind"] == "return":
        end = [["return"]]
    else:
        end = [["send!", WS_SWEEP_INVALID[case["state"]][case["variant"]]], ["return"]]
    return [["recv"]] + reach + end


def _ws_ref_state(msgs: List[dict], results: List[str]) -> str:
    """`self.state` as the messages the server ACCEPTED determine it (independent of the model)"""
    st = "HANDSHAKE"
    for m, r in zip(msgs, results):
        if r != "ok":
            continue
        t = m["type"]
        if t == "websocket.accept" and st == "HANDSHAKE":
            st = "CONNECTED"
        elif t == "websocket.close" and st == "HANDSHAKE":
            st = "HTTPCLOSED"
        elif t == "websocket.close" and st == "CONNECTED":
            st = "CLOSED"
        elif t == "websocket.http.response.body" and st in ("HANDSHAKE", "RESPONSE"):
            st = "RESPONSE" if m.get("more_body", False) else "HTTPCLOSED"
    return st


def check_ws_sweep(ctx: Ctx, cases: List[dict]) -> None:
    from ..core import wsrun
    for case in cases:
        script = ws_sweep_script(case)
        o = wsrun.run_session({"worker": case["worker"], "carrier": case["carrier"], "app": script, "client": [], "linger": 2.0})
        ctx.evaluations += 1
        end = case["kind"] + (":" + case["variant"] if case.get("variant") else "")
        ctx.count("ws_sweep.state_x_end", case["state"] + " / " + end)
        ctx.count("ws_sweep.carrier_worker", case["carrier"] + "/" + case["worker"])
        ctx.count("proto", "ws-" + case["carrier"])
        ctx.count("kind", case["kind"])
        ctx.distinct(["ws_sweep", case["state"], case["kind"], case.get("variant"), case["carrier"], case["worker"]])
        ctx.sample(case, cap=3)
        sends = [s_ for s_ in script if s_[0] in ("send", "send!")]
        msgs = [s_[1] for s_ in sends]
        sig = {"proto": "ws", "carrier": case["carrier"], "kind": case["kind"], "sweep_state": case["state"]}
        if case["kind"] == "invalid":
            sig["refused"] = msgs[-1]["type"]
        if o["stuck_session"]:
            ctx.violation("session_hangs", case, {"note": "the server session did not finish within the harness timeout"}, sig)
            continue
        if o["error"] or o["loop_errors"]:
            ctx.violation("handler_exception", case, {"error": o["error"], "loop": o["loop_errors"]}, {**sig, "clause2": "internal"})
            continue
        if not o["apps"]:
            ctx.violation("application_not_started", case, o["client"], sig)
            continue
        app = o["apps"][0]
        if app["exit"] is None:
            ctx.violation("crash_point_not_reached", case, {"sends": app["send"]}, sig)
            continue
        results = [x[1] for x in app["send"]]
        want = ["refused" if len(st) > 2 else "ok" for st in WS_REACH[case["state"]]]
        got_reach = ["ok" if r == "ok" else "refused" for r in results[: len(want)]]
        if len(results) < len(sends) or got_reach != want:
            ctx.violation("valid_message_refused", case, {"sends": app["send"]}, sig)
            continue
        if case["kind"] == "invalid" and results[-1] == "ok":
            ctx.violation("invalid_message_accepted", case, {"sends": app["send"]}, sig)
            continue
        st = _ws_ref_state(msgs, results)
        ctx.count("ws_sweep.state_at_exit", st)
        if st != WS_REACH_STATE[case["state"]]:
            # a refused message moved the state, or an accepted one did not
            ctx.violation("refused_message_changed_state", case, {"state_by_accepted_messages": st, "sends": app["send"]}, sig)
        want_logs = 1 if case["kind"] in ("raise", "invalid") else 0
        if want_logs == 1 and len(o["exceptions"]) != 1:
            ctx.violation("logged_once", case, {"exceptions": len(o["exceptions"]), "exit": app["exit"]}, sig)
        if want_logs == 0 and len(o["exceptions"]) != 0:
            ctx.violation("spurious_error_log", case, {"exceptions": len(o["exceptions"]), "exit": app["exit"]}, sig)
        c = o["client"]
        hs = c["handshake"] or {}
        view = {"handshake": hs, "close_code": c["close_code"], "closes": c["closes"], "messages": c["messages"], "client_error": c["error"],
                "closed": o["closed_at"] is not None, "h2_stream": o.get("h2_stream"), "h2_error": o["h2_error"]}
        h2 = case["carrier"] == "h2"
        terminated = (o.get("h2_stream") or {}).get("ended") or (o.get("h2_stream") or {}).get("reset") is not None if h2 else o["closed_at"] is not None
        if c["closes"] > 1:
            ctx.violation("second_close_frame", case, view, sig)
        if st == "HANDSHAKE":
            # nothing answered yet: exactly a complete 500
            if not (hs.get("status") == 500 and hs.get("complete")) or c["closes"]:
                ctx.violation("ws_crash_handshake_500", case, view, sig)
        elif st == "RESPONSE":
            # a rejection was started and not finished: never complete, promptly terminated
            if hs.get("status") != 403:
                ctx.violation("response_lost", case, view, sig)
            elif hs.get("complete"):
                ctx.violation("falsely_complete", case, view, sig)
        elif st == "HTTPCLOSED":
            body = "no" if case["state"] == "REJECTED" else ""
            if not (hs.get("status") == 403 and hs.get("complete") and hs.get("body") == body) or c["closes"]:
                ctx.violation("completed_response_damaged", case, view, sig)
        elif st == "CONNECTED":
            if not (hs.get("status") in (101, 200) and c["close_code"] == 1011 and c["closes"] == 1):
                ctx.violation("ws_crash_connected_1011", case, view, sig)
            if case["state"] == "CONNECTED+caught" and c["messages"] != [["text", "hello"]]:
                ctx.violation("message_lost_after_refusal", case, view, sig)
        elif st == "CLOSED":
            if not (c["close_code"] == 3000 and c["closes"] == 1):
                ctx.violation("completed_close_damaged", case, view, sig)
        if not terminated:
            if h2:
                # the HTTP/2 stream that carried the WebSocket is neither ended nor reset
                ctx.violation("ws_h2_stream_left_open", case, view, sig)
            else:
                ctx.violation("not_terminated", case, view, sig)
        if h2 and (o["h2_error"] or o["h2_goaway"] not in (None,) and (o["h2_goaway"] or {}).get("error_code")):
            ctx.violation("connection_level_failure", case, {"error": o["h2_error"], "goaway": o["h2_goaway"]}, sig)


WS_STREAM_HEADERS = [(b"host", b"x"), (b"upgrade", b"websocket"), (b"connection", b"upgrade"), (b"sec-websocket-key", b"dGhlIHNhbXBsZSBub25jZQ=="),
                     (b"sec-websocket-version", b"13")]


def ws_stream_sessions() -> List[tuple]:
    """stream-level sessions on the real WSStream for the model correspondence (`stream.ws`): every state x {exit at once,
    every message refused there then exit, a refused message survived then every message refused there then exit}, as the
    HTTP/1.1 and as the HTTP/2 carrier announce themselves to the stream"""
    out = []
    for state, reach in WS_REACH.items():
        msgs = [st[1] for st in reach]
        ends: List[tuple] = [("exit", [])]
        for name, bad in WS_SWEEP_INVALID[state].items():
            if name == "accept_str_headers":      # the model's accept headers are bytes pairs (end-to-end sweep only)
                continue
            ends.append((name, [bad]))
            # the application catches the first refusal and is refused again: nothing accumulates
            ends.append((name + "+again", [bad, bad]))
        for version in ("1.1", "2"):
            hs = [h for h in WS_STREAM_HEADERS if version == "1.1" or h[0] not in (b"upgrade", b"connection", b"sec-websocket-key")]
            for name, tail in ends:
                out.append((state, version, name, {"version": version, "headers": hs}, msgs + tail))
    return out


def check_ws_stream_level(ctx: Ctx) -> None:
    import asyncio
    reqs, metas = [], []
    for state, version, name, init, msgs in ws_stream_sessions():
        ops = [{"send": dict(m)} for m in msgs] + [{"send": None}]
        obs, lib = asyncio.run(S.drive_ws(init, ops))
        reqs.append(S.ws_model_req(init, ops, lib))
        metas.append((state, version, name, obs))
        ctx.count("ws_stream_level.state_x_end", state + " / " + name.split("+")[0])
        ctx.count("ws_stream_level.version", version)
        # the property on the implementation's own observations: whatever was refused before, the exit step hands the protocol
        # exactly what the state demands, and over the whole life at most one head / one close frame
        evs = [e for o_ in obs[1:] for e in o_["events"]]
        heads = sum(1 for e in evs if e[0] == "response")
        closes = sum(1 for e in evs if e[0] == "data" and e[1][0] == "close")
        exit_evs = obs[-1]["events"]
        st_before = obs[-2]["state"]
        sig = {"proto": "ws", "kind": "stream_level", "sweep_state": state, "version": version}
        case = {"family": "ws_stream", "state": state, "version": version, "end": name}
        if heads != 1 or closes > 1:
            ctx.violation("ws_life_one_answer", case, {"heads": heads, "closes": closes, "events": evs}, sig)
        want = {"HANDSHAKE": ["response", "endBody", "access", "streamClosed"], "CONNECTED": ["data", "streamClosed"]}.get(st_before, ["streamClosed"])
        if [e[0] for e in exit_evs] != want or (st_before == "HANDSHAKE" and exit_evs[0][1] != 500) or \
                (st_before == "CONNECTED" and exit_evs[0][1] != ["close", 1011]):
            ctx.violation("ws_exit_step", case, {"state": st_before, "exit_events": exit_evs}, sig)
        if st_before != WS_REACH_STATE[state]:
            ctx.violation("refused_message_changed_state", case, {"state": st_before, "steps": obs[1:]}, sig)
    model = ctx.model(reqs)
    if model is not None:
        for m, (state, version, name, obs) in zip(model, metas):
            ctx.disagreements_checked += 1
            if m.get("ok") is None or m["ok"] != obs:
                ctx.disagree("stream.ws(crash)", {"state": state, "version": version, "end": name}, m, obs)


def stream_sessions() -> List[tuple]:
    """stream-level sessions for the model/implementation correspondence of the exit step: every crash point of every
    family, ended (a) at once and (b) by each message the stream refuses in the state reached, followed by the
    completion signal `app_send(None)`"""
    out = []
    for fam, steps in FAMILIES.items():
        for idx in range(len(steps) + 1):
            msgs = [s_[1] for s_ in steps[:idx] if s_[0] == "send"]
            st = scripted_state({"family": fam, "crash_at": idx})
            ends: List[tuple] = [("exit", [])]
            for name, bad in INVALID[st].items():
                if name != "start_bad_status":      # `int("abc")`: the model's status is a number (end-to-end grid only)
                    ends.append((name, [bad]))
            for version in ("1.1", "2"):
                for name, tail in ends:
                    out.append((fam, idx, version, name, msgs + tail))
    return out


def run(ctx: Ctx) -> None:
    cases = grid(full=ctx.thorough)
    ctx.exhaustive = True
    check_refused(ctx, refusal_grid())
    check(ctx, cases)
    # HTTP/2 with the failing stream's flow-control window closed to what the application wrote (no WINDOW_UPDATE before
    # RESET_BOUND): every crash point x kind x worker x window
    check(ctx, window_grid(full=ctx.thorough))
    # WebSocket: every state of the stream x every end (raise / return / every refused message of the state), both carriers
    check_ws_sweep(ctx, ws_sweep_grid(full=ctx.thorough))
    check_ws_stream_level(ctx)
    # stream-level correspondence for the exit step itself (model = Http.appSend … none), refused messages included: the
    # state the stream is left in by a refused message decides between the 500 and the bare stream-closed
    reqs, metas = [], []
    import asyncio
    for fam, idx, version, name, msgs in stream_sessions():
        init = {"method": "POST", "version": version, "scheme": "http",
                "headers": [(b"host", b"x")] + ([(b"te", b"trailers")] if fam in TRAILER_FAMILIES else [])}
        ops = [{"send": dict(m)} for m in msgs] + [{"send": None}]
        obs = asyncio.run(S.drive_http(init, ops))
        reqs.append(S.http_model_req(init, ops))
        metas.append((fam, idx, version, name, obs))
        ctx.count("stream_level_end", name)
    model = ctx.model(reqs)
    if model is not None:
        for m, (fam, idx, version, name, obs) in zip(model, metas):
            ctx.disagreements_checked += 1
            impl = [S.http_obs_for_compare(o, True) for o in obs]
            mo = m.get("ok")
            if mo is None or [{k: v for k, v in x.items() if k != "puts"} for x in mo] != impl:
                ctx.disagree("stream.http(crash)", {"family": fam, "crash_at": idx, "version": version, "end": name}, m, impl)


def replay(ctx: Ctx, case: dict) -> None:
    if case.get("kind") == "proto_refused":
        check_refused(ctx, [case])
    elif case.get("family") == "ws_sweep":
        check_ws_sweep(ctx, [case])
    elif case.get("family") == "ws_stream":
        check_ws_stream_level(ctx)
    else:
        check(ctx, [case])
