"""C05 — application failures are contained and never yield a falsely complete response.

Exhaustive crash-point grid: every step index of a family of scripted applications (including the point after the
response completed) x the ways an application can end there -
    raise      an exception of its own (a bare one, or an ExceptionGroup from a task group inside the application),
    return     falls off the end early,
    cancel     a cancellation reaches it at that await point while the connection stays up (asyncio: it awaits something
               of its own that was cancelled / its own task is cancelled; trio: a cancel scope of its own is cancelled),
    invalid    it sends a message the server refuses: the server raises into the application, which dies with that
               exception (every refusal hypercorn's own code makes, in every state of the response),
x {HTTP/1.1 keep-alive + a pipelined second request, HTTP/2 with a sibling stream, WebSocket handshake / session}
x both workers; the client's verdict comes from independent h11 / h2 parsers.  Whether "a response had been started" is
read off what the server *accepted* from the application (a refused message starts nothing)."""
from __future__ import annotations

from typing import Any, Dict, List, Optional

from ..core import clients as C
from ..core import runner as R
from ..core import streams as S
from ..core.framework import Ctx, b2s

SPEC = {
    "modules": ["HC.Props.C05"],
    "extracted": ["Guards", "Consts", "H11Tables", "AppExit", "ReqGlue"],
    "technique": "Lean 4 theorems on (a) the try/except/finally of both workers' _handle as read off the source (every way the application can end - return, exception, cancellation, exception groups - signals completion; a raise is logged once and contained), (b) the stream transducers (exit in REQUEST/HANDSHAKE => exactly a complete 500 then stream-closed; exit after the start => stream-closed with no end-of-body; a refused message starts nothing, in the model and in the statement order of the REQUEST-state branches of the source) composed with the h11 recycle rule (no EndOfMessage => our side is not DONE => Closed) and the HTTP/2 reset rule; tied by an exhaustive crash-point grid on both workers judged by independent client parsers",
    "level_text": "Proved in Lean for every state of a request: however the application ends (returns, raises an exception or an exception group, is cancelled) the try statement of _handle on both workers - extracted from the source on every run - signals completion, logs a raise exactly once before doing so and lets no exception but a cancellation travel further; when the application finishes before a response start, the protocol layer is handed exactly a complete 500 response (content-length 0, connection: close), one access record and stream-closed; a message the stream refuses (invalid headers or status, wrong state: the exception is raised into the application) hands nothing to the protocol and leaves the stream where it was, so dying with that exception is answered 500 before the start and aborts after it - proved for the model and, as statement order (state is assigned only after the Response event was handed over), for the source's REQUEST-state branches; when the application finishes after the start but before the end, the protocol is handed stream-closed and never an end-of-body, so on HTTP/1 h11's writer is not DONE and the connection is closed instead of recycled (the response stays visibly incomplete), and on HTTP/2 the stream is reset; a WebSocket gets 500 in the handshake and close 1011 when connected.  Tie: every step index of five scripted applications (the point after completion included) x {raise, return, cancel, refused message} with every variant of each (bare / group exception; cancelled inner await / own task cancelled; every refusal hypercorn makes in the state reached) on HTTP/1.1 (with a pipelined follower), HTTP/2 (with a sibling stream that must complete) and WebSocket, both workers; verdicts by independent h11/h2 parsers; exactly one error-log record per raise; stream-level model/implementation correspondence of the exit step after each refused message.",
    "level_note": "Trusted: Lean kernel; stream models and H11Protocol model (differential runs in C12/C06); the extractor's reading of _handle and of the REQUEST-state branches (unrecognised statements are an EXTRACT-FAIL); h11 framing decides whether an aborted body is visibly incomplete: a response whose whole declared content-length was already written, or a close-delimited HTTP/1.0 body, cannot be distinguished from a complete one by any client and is outside the statement; the HTTP/2 reset rule is the code path added by the F06 repair.",
    "rule": "script family x crash index x kind (raise / return / cancel / refused message) x variant x protocol x worker (exhaustive grid for the canonical variant, all variants on a sweep reaching every response state); distinct = each grid cell; non-trivial = the application ends before completing its response or dies after it",
    "trusted": ["h11 / h2 client parsers as the client's verdict"],
    "partial": [],
    "assumptions": ["'logged' is required for raising applications (their own exception or one the server raised into them) only: a silent early return and a cancellation are not errors",
                    "trio: a cancellation that reaches application code without the connection being torn down is one absorbed by a cancel scope of the application (trio never lets Cancelled leave the scope that owns it); the server then sees the application return",
                    "whether a response had been started is read off the messages the server accepted from the application; a refused message starts nothing"],
}

START = {"type": "http.response.start", "status": 200, "headers": [(b"x-a", b"1")]}
START_CL = {"type": "http.response.start", "status": 200, "headers": [(b"content-length", b"6")]}
FAMILIES = {
    "read_then_respond": [["recv_body"], ["send", START], ["send", {"type": "http.response.body", "body": b"abc", "more_body": True}],
                          ["send", {"type": "http.response.body", "body": b"def"}]],
    "respond_early": [["send", START], ["send", {"type": "http.response.body", "body": b"abc", "more_body": True}], ["recv_body"],
                      ["send", {"type": "http.response.body", "body": b"def"}]],
    "declared_length": [["recv_body"], ["send", START_CL], ["send", {"type": "http.response.body", "body": b"abc", "more_body": True}],
                        ["send", {"type": "http.response.body", "body": b"def", "more_body": True}], ["send", {"type": "http.response.body"}]],
    "respond_unread": [["send", {"type": "http.response.start", "status": 200, "headers": [(b"content-length", b"3")]}],
                       ["send", {"type": "http.response.body", "body": b"abc"}]],
    "stream_three": [["send", START], ["send", {"type": "http.response.body", "body": b"1", "more_body": True}], ["sleep", 0.1],
                     ["send", {"type": "http.response.body", "body": b"2", "more_body": True}], ["send", {"type": "http.response.body", "body": b"3"}]],
}
# HTTP/2 upload that is still in flight when the application ends: one connection window (65535) in all
UPLOAD = bytes(range(256)) * 255 + bytes(255)
UPLOAD_FIRST = 1000
SIBLING_UPLOAD = b"s" * 20000
WS_FAMILY = [["recv"], ["send", {"type": "websocket.accept"}], ["recv"], ["send", {"type": "websocket.send", "text": "echo"}], ["recv"]]
SIBLING = [["recv_body"], ["send", {"type": "http.response.start", "status": 200, "headers": [(b"content-length", b"7")]}],
           ["send", {"type": "http.response.body", "body": b"sibling"}]]


# messages hypercorn's own code refuses (the exception is raised into the application), by the state they are sent in
INVALID = {
    "REQUEST": {
        "start_str_headers": {"type": "http.response.start", "status": 200, "headers": [("x-a", "1")]},
        "start_pseudo_header": {"type": "http.response.start", "status": 200, "headers": [(b":status", b"200")]},
        "start_ctl_in_value": {"type": "http.response.start", "status": 200, "headers": [(b"x-a", b"a\r\nx-b: 1")]},
        "start_bad_status": {"type": "http.response.start", "status": "abc", "headers": [(b"x-a", b"1")]},
        "start_no_status": {"type": "http.response.start", "headers": [(b"x-a", b"1")]},
        "start_empty_name": {"type": "http.response.start", "status": 200, "headers": [(b"", b"1")]},
        "body_before_start": {"type": "http.response.body", "body": b"early"},
        "unknown_type": {"type": "http.response.bogus"},
    },
    "RESPONSE": {
        "body_str": {"type": "http.response.body", "body": "text", "more_body": True},
        "second_start": {"type": "http.response.start", "status": 200, "headers": []},
        "unknown_type": {"type": "http.response.bogus"},
    },
    "CLOSED": {
        "body_after_end": {"type": "http.response.body", "body": b"late"},
        "start_after_end": {"type": "http.response.start", "status": 200, "headers": []},
    },
}
WS_INVALID = {
    "HANDSHAKE": {
        "send_before_accept": {"type": "websocket.send", "text": "early"},
        "accept_str_headers": {"type": "websocket.accept", "headers": [("x-a", "1")]},
        "unknown_type": {"type": "websocket.bogus"},
    },
    "CONNECTED": {
        "accept_again": {"type": "websocket.accept"},
        "send_text_not_str": {"type": "websocket.send", "text": 5},
        "send_bytes_not_bytes": {"type": "websocket.send", "bytes": "abc"},
        "close_bad_code": {"type": "websocket.close", "code": "abc"},
        "close_bad_reason": {"type": "websocket.close", "code": 1000, "reason": 5},
        "unknown_type": {"type": "websocket.bogus"},
    },
}
KINDS = ("raise", "return", "cancel", "invalid")


def steps_of(case: dict) -> List[list]:
    return WS_FAMILY if case["family"] == "ws" else FAMILIES[case["family"]]


def scripted_state(case: dict) -> str:
    """state the response is in at the crash point if every scripted message before it is accepted"""
    if case["family"] == "ws":
        return "CONNECTED" if case["crash_at"] >= 2 else "HANDSHAKE"
    st = "REQUEST"
    for s_ in FAMILIES[case["family"]][: case["crash_at"]]:
        if s_[0] == "send":
            st = _advance(st, s_[1])
    return st


def _advance(st: str, m: dict) -> str:
    if m["type"] == "http.response.start" and st == "REQUEST":
        return "RESPONSE"
    if m["type"] == "http.response.body" and st == "RESPONSE" and not m.get("more_body", False):
        return "CLOSED"
    return st


def variants(case: dict) -> List[Optional[str]]:
    """the ways `kind` can happen at this crash point on this worker (first = the canonical one)"""
    if case["kind"] == "raise":
        return [None, "group"]
    if case["kind"] == "cancel":
        return ["inner", "self"] if case["worker"] == "asyncio" else ["inner"]
    if case["kind"] == "invalid":
        table = WS_INVALID if case["family"] == "ws" else INVALID
        return list(table[scripted_state(case)])
    return [None]


def grid(full: bool = False) -> List[dict]:
    """every crash point x kind x protocol x worker with the canonical variant of the kind, then every other variant of
    every kind on a sweep that reaches each state of the response (REQUEST / RESPONSE / CLOSED, HANDSHAKE / CONNECTED)
    on every protocol and worker; `full` (thorough tier): every variant at every crash point"""
    cases = []
    for fam, steps in list(FAMILIES.items()) + [("ws", WS_FAMILY)]:
        for idx in range(len(steps) + 1):
            for kind in KINDS:
                for proto in (("ws",) if fam == "ws" else ("1.1", "2")):
                    for worker in ("asyncio", "trio"):
                        c = {"family": fam, "crash_at": idx, "kind": kind, "proto": proto, "worker": worker}
                        v = variants(c)[0]
                        if v is not None:
                            c["variant"] = v
                        cases.append(c)
    # HTTP/2, the request body still in flight when the application ends: every crash point x kind (canonical variant)
    for fam, steps in FAMILIES.items():
        for idx in range(len(steps) + 1):
            for kind in KINDS:
                for worker in ("asyncio", "trio"):
                    c = {"family": fam, "crash_at": idx, "kind": kind, "proto": "2", "worker": worker, "upload": "in_flight"}
                    v = variants(c)[0]
                    if v is not None:
                        c["variant"] = v
                    cases.append(c)
    sweep = [(fam, range(len(steps) + 1)) for fam, steps in list(FAMILIES.items()) + [("ws", WS_FAMILY)]] if full else \
        [("read_then_respond", (1, 2, 4)), ("ws", (1, 3))]
    for fam, idxs in sweep:
        for idx in idxs:
            for kind in KINDS:
                for proto in (("ws",) if fam == "ws" else ("1.1", "2")):
                    for worker in ("asyncio", "trio"):
                        c = {"family": fam, "crash_at": idx, "kind": kind, "proto": proto, "worker": worker}
                        for v in variants(c)[1:]:
                            cases.append({**c, "variant": v})
    return cases


def script_for(case: dict) -> List[list]:
    steps = steps_of(case)
    kind, v = case["kind"], case.get("variant")
    if kind == "raise":
        end = [["raise_group"]] if v == "group" else [["raise"]]
    elif kind == "return":
        end = [["return"]]
    elif kind == "cancel":
        end = [["cancel", v or "inner"]]
    else:
        table = WS_INVALID if case["family"] == "ws" else INVALID
        end = [["send!", table[scripted_state(case)][v]], ["return"]]
    return [list(s) for s in steps[: case["crash_at"]]] + end


def accepted_state(case: dict, app_sends: List[list]) -> Optional[str]:
    """The state of the response when the application ended, read off what the server accepted: the application's k-th
    send call carried the script's k-th message; it counts iff the call returned normally.  None = a message of the
    (valid) script was refused, which is judged separately."""
    msgs = [s_[1] for s_ in script_for(case) if s_[0] in ("send", "send!")]
    valid = sum(1 for s_ in steps_of(case)[: case["crash_at"]] if s_[0] == "send")
    ws = case["family"] == "ws"
    st = "HANDSHAKE" if ws else "REQUEST"
    for k, m in enumerate(msgs[: len(app_sends)]):
        ok = app_sends[k][2] == "ok"
        if not ok and k < valid:
            return None
        if ok:
            st = ("CONNECTED" if m["type"] == "websocket.accept" and st == "HANDSHAKE" else st) if ws else _advance(st, m)
    return st


def sent_body_len(case: dict) -> int:
    return sum(len(s[1].get("body", b"")) for s in FAMILIES[case["family"]][: case["crash_at"]] if s[0] == "send" and s[1]["type"] == "http.response.body")


def run_case(case: dict) -> dict:
    script = script_for(case)
    if case["proto"] == "1.1":
        async def client(io):
            await io.send(C.h1_request("POST", "/crash", [(b"host", b"x")], b"body") + C.h1_request("GET", "/next", [(b"host", b"x")]))
            await io.sleep(2.0)
        res = R.RUNNERS[case["worker"]]({"keep_alive_timeout": 3}, None, client, [script, SIBLING], tail=10)
        p = C.parse_h1(res["out"], ["POST", "GET"], server_closed=res["closed_at"] is not None)
        finals = [r for r in p["responses"] if not r.get("informational")]
        view = {"responses": [{"status": r["status"], "complete": r["complete"], "body": r["body"], "headers": r["headers"]} for r in finals],
                "parse_error": p["error"], "closed": res["closed_at"] is not None}
    elif case["proto"] == "2" and case.get("upload") == "in_flight":
        # The client is uploading a connection window's worth of request body when the application ends: the first part
        # arrives with the request, the rest is already on its way (the client has not looked at the server's answer
        # yet) and arrives in later reads, on a stream the server may have answered, reset or forgotten by then.
        # Afterwards a sibling stream uploads a body of its own: it needs connection window the failed stream used.
        async def client(io):
            c = C.H2Client()
            s1 = c.request(C.h2_headers("POST", "/crash"), UPLOAD[:UPLOAD_FIRST], end=False)
            await io.send(c.out())
            await io.sleep(0.5)
            c.send_data(s1, UPLOAD[UPLOAD_FIRST:], True)
            rest = c.out()
            step = len(rest) // 4 + 1
            for k in range(0, len(rest), step):
                await io.send(rest[k:k + step])
            await c.pump(io)
            s3 = c.request(C.h2_headers("POST", "/sibling"), SIBLING_UPLOAD)
            await c.pump(io)
            await io.sleep(2.0)
            await c.pump(io)
            return {"summary": c.summary(), "s1": s1, "s3": s3, "unsent": {str(k): len(v[0]) for k, v in c.pending.items()}}
    elif case["proto"] == "2":
        async def client(io):
            c = C.H2Client()
            s1 = c.request(C.h2_headers("POST", "/crash"), b"body")
            await c.pump(io)
            s3 = c.request(C.h2_headers("GET", "/sibling"))
            await c.pump(io)
            await io.sleep(2.0)
            await c.pump(io)
            return {"summary": c.summary(), "s1": s1, "s3": s3}
    if case["proto"] == "2":
        res = R.RUNNERS[case["worker"]]({"keep_alive_timeout": 3}, "h2", client, [script, SIBLING], tail=10)
        cr = res.get("client_result") or {"summary": {"streams": {}, "error": "client did not finish: " + str(res.get("client_error")), "goaway": None}, "s1": 1, "s3": 3}
        sib_app = next((a for a in res["apps"] if a["scope"]["path"] == "/sibling"), None)
        view = {"crash": cr["summary"]["streams"].get(str(cr["s1"]), {}), "sibling": cr["summary"]["streams"].get(str(cr["s3"]), {}),
                "error": cr["summary"]["error"], "goaway": cr["summary"]["goaway"], "closed": res["closed_at"] is not None,
                "unsent": cr.get("unsent", {}),
                "sibling_received": None if sib_app is None else sum(len(m[2]) for m in sib_app["recv"] if m[1] == "http.request")}
    elif case["proto"] == "ws":
        from ..core.h11sessions import WS_KEY
        from wsproto.connection import Connection, ConnectionType
        from wsproto.events import TextMessage

        async def client(io):
            await io.send(C.h1_request("GET", "/ws", [(b"host", b"x"), (b"upgrade", b"websocket"), (b"connection", b"Upgrade"),
                                                     (b"sec-websocket-key", WS_KEY), (b"sec-websocket-version", b"13")]))
            await io.sleep(0.5)
            wc = Connection(ConnectionType.CLIENT)
            await io.send(wc.send(TextMessage(data="hi")))
            await io.sleep(0.5)
            await io.send(wc.send(TextMessage(data="again")))     # lets the last receive of the script return
            await io.sleep(2.0)
        res = R.RUNNERS[case["worker"]]({"keep_alive_timeout": 3}, None, client, [script], tail=10)
        head, _, rest = res["out"].partition(b"\r\n\r\n")
        frames = []
        if head.startswith(b"HTTP/1.1 101"):
            wc = Connection(ConnectionType.CLIENT)
            wc.receive_data(rest)
            try:
                for ev in wc.events():
                    frames.append([type(ev).__name__, getattr(ev, "code", None) if hasattr(ev, "code") else getattr(ev, "data", None)])
            except Exception as e:
                frames.append(["error", repr(e)])
        view = {"status_line": head.split(b"\r\n")[0].decode(), "frames": frames, "closed": res["closed_at"] is not None}
    crash_app = next((a for a in res["apps"] if a["scope"]["path"] in ("/crash", "/ws")), None)
    return {"view": view, "exceptions": len(res["exceptions"]), "error": res["error"], "loop_errors": res["loop_errors"],
            "apps": [[a["exit"], a["send"]] for a in res["apps"]], "handler_done": bool(res["handler_done"]),
            "crash_app": None if crash_app is None else {"exit": crash_app["exit"], "send": crash_app["send"]},
            "stuck": bool(res.get("stuck_session"))}


def check(ctx: Ctx, cases: List[dict]) -> None:
    for case in cases:
        o = run_case(case)
        ctx.evaluations += 1
        ctx.count("proto", case["proto"])
        ctx.count("kind", case["kind"] + ("/" + case["variant"] if case.get("variant") and case["kind"] != "invalid" else ""))
        if case["kind"] == "invalid":
            ctx.count("invalid_message", scripted_state(case) + ":" + case["variant"])
        ctx.distinct([case["family"], case["crash_at"], case["kind"], case.get("variant"), case["proto"], case["worker"], case.get("upload")])
        if case.get("upload"):
            ctx.count("h2_upload", case["upload"])
        ctx.sample(case, cap=3)
        sig = {"proto": case["proto"], "kind": case["kind"]}
        if case["kind"] == "invalid":
            sig["refused"] = script_for(case)[-2][1]["type"]
        if case.get("upload"):
            sig["upload"] = case["upload"]
        v = o["view"]
        if o["stuck"]:
            ctx.violation("session_hangs", case, {"note": "the server session did not finish within the harness timeout"}, sig)
            continue
        if o["error"] or o["loop_errors"]:
            ctx.violation("handler_exception", case, {"error": o["error"], "loop": o["loop_errors"]}, {**sig, "clause2": "internal"})
            continue
        app = o["crash_app"]
        if app is None:
            ctx.violation("application_not_started", case, v, sig)
            continue
        if app["exit"] is None:
            # the scripted application is still waiting somewhere before its crash point: nothing can be judged
            ctx.violation("crash_point_not_reached", case, {"sends": app["send"], "view": v}, sig)
            continue
        st = accepted_state(case, app["send"])
        ctx.count("state_at_exit", str(st))
        if st is None:
            ctx.violation("valid_message_refused", case, {"sends": app["send"]}, sig)
            continue
        if case["kind"] == "invalid" and (not app["send"] or app["send"][-1][2] == "ok"):
            # the corpus holds only messages hypercorn itself refuses; an accepted one means the corpus no longer
            # exercises the failure mode it is there for (the application then simply returned early)
            ctx.violation("invalid_message_accepted", case, {"sends": app["send"]}, sig)
        # ---- the failure is logged (raise / invalid: exactly once; return / cancel: nothing is an error)
        want_logs = 1 if case["kind"] in ("raise", "invalid") else 0
        if want_logs == 1 and o["exceptions"] != 1:
            ctx.violation("logged_once", case, {"exceptions": o["exceptions"], "exit": app["exit"]}, sig)
        if want_logs == 0 and o["exceptions"] != 0:
            ctx.violation("spurious_error_log", case, {"exceptions": o["exceptions"], "exit": app["exit"]}, sig)
        if case["proto"] == "ws":
            # handshake phase: 500; connected: close frame 1011; never a normal close; always terminated
            if st == "HANDSHAKE" and not v["status_line"].startswith("HTTP/1.1 500"):
                ctx.violation("ws_crash_handshake_500", case, v, sig)
            if st == "CONNECTED" and ["CloseConnection", 1011] not in v["frames"]:
                ctx.violation("ws_crash_connected_1011", case, v, sig)
            if not v["closed"]:
                ctx.violation("not_terminated", case, v, sig)
            continue
        full = "".join(s_[1].get("body", b"").decode() for s_ in FAMILIES[case["family"]] if s_[0] == "send" and s_[1]["type"] == "http.response.body")
        if case["proto"] == "1.1":
            r0 = v["responses"][0] if v["responses"] else None
            if st == "REQUEST":
                ok = r0 is not None and r0["status"] == 500 and r0["complete"] and v["closed"] and any(n == "connection" and "close" in val for n, val in r0["headers"])
                if not ok:
                    ctx.violation("crash_before_start_500", case, v, sig)
            elif st == "RESPONSE":
                declared = case["family"] == "declared_length"
                fully_sent = declared and sent_body_len(case) >= 6
                if r0 is None or r0["status"] != 200:
                    ctx.violation("response_lost", case, v, sig)
                elif r0["complete"] and not fully_sent:
                    ctx.violation("falsely_complete", case, v, {**sig, "framing": "content-length" if declared else "chunked"})
                if not v["closed"]:
                    ctx.violation("not_terminated", case, v, sig)
                if len(v["responses"]) > 1 and not fully_sent:
                    ctx.violation("served_after_abort", case, v, sig)
            else:
                if r0 is None or not r0["complete"] or r0["body"] != full:
                    ctx.violation("completed_response_damaged", case, v, sig)
                # the connection keeps working: the pipelined follower is answered in full
                r1 = v["responses"][1] if len(v["responses"]) > 1 else None
                if r1 is None or r1["status"] != 200 or not r1["complete"] or r1["body"] != "sibling":
                    ctx.violation("follower_not_served", case, v, sig)
        else:
            c = v["crash"]
            sib = v["sibling"]
            if v["error"] or v["goaway"] is not None and st != "CLOSED":
                ctx.violation("connection_level_failure", case, {"error": v["error"], "goaway": v["goaway"]}, sig)
            if not (sib.get("headers") and sib.get("ended") and sib.get("data") == "sibling"):
                ctx.violation("sibling_affected", case, {"sibling": sib, "unsent_request_body": v.get("unsent"), "sibling_received": v.get("sibling_received")}, sig)
            elif case.get("upload") == "in_flight" and v.get("sibling_received") != len(SIBLING_UPLOAD):
                ctx.violation("sibling_affected", case, {"sibling_received": v.get("sibling_received"), "want": len(SIBLING_UPLOAD)}, sig)
            raw = dict(c["headers"]).get(":status") if c.get("headers") else None
            status = int(raw) if isinstance(raw, str) and raw.isdigit() else None
            if st == "REQUEST":
                if not (status == 500 and c.get("ended")):
                    ctx.violation("crash_before_start_500", case, c, sig)
            elif st == "RESPONSE":
                if c.get("ended"):
                    ctx.violation("falsely_complete", case, c, {**sig, "framing": "h2"})
                elif c.get("reset") is None:
                    ctx.violation("h2_stream_not_reset", case, c, sig)
            else:
                if not (status == 200 and c.get("ended") and c.get("data") == full):
                    ctx.violation("completed_response_damaged", case, c, sig)


def stream_sessions() -> List[tuple]:
    """stream-level sessions for the model/implementation correspondence of the exit step: every crash point of every
    family, ended (a) at once and (b) by each message the stream refuses in the state reached, followed by the
    completion signal `app_send(None)`"""
    out = []
    for fam, steps in FAMILIES.items():
        for idx in range(len(steps) + 1):
            msgs = [s_[1] for s_ in steps[:idx] if s_[0] == "send"]
            st = scripted_state({"family": fam, "crash_at": idx})
            ends: List[tuple] = [("exit", [])]
            for name, bad in INVALID[st].items():
                if name != "start_bad_status":      # `int("abc")`: the model's status is a number (end-to-end grid only)
                    ends.append((name, [bad]))
            for version in ("1.1", "2"):
                for name, tail in ends:
                    out.append((fam, idx, version, name, msgs + tail))
    return out


def run(ctx: Ctx) -> None:
    cases = grid(full=ctx.thorough)
    ctx.exhaustive = True
    check(ctx, cases)
    # stream-level correspondence for the exit step itself (model = Http.appSend … none), refused messages included: the
    # state the stream is left in by a refused message decides between the 500 and the bare stream-closed
    reqs, metas = [], []
    import asyncio
    for fam, idx, version, name, msgs in stream_sessions():
        init = {"method": "POST", "version": version, "scheme": "http", "headers": [(b"host", b"x")]}
        ops = [{"send": dict(m)} for m in msgs] + [{"send": None}]
        obs = asyncio.run(S.drive_http(init, ops))
        reqs.append(S.http_model_req(init, ops))
        metas.append((fam, idx, version, name, obs))
        ctx.count("stream_level_end", name)
    model = ctx.model(reqs)
    if model is not None:
        for m, (fam, idx, version, name, obs) in zip(model, metas):
            ctx.disagreements_checked += 1
            impl = [S.http_obs_for_compare(o, True) for o in obs]
            mo = m.get("ok")
            if mo is None or [{k: v for k, v in x.items() if k != "puts"} for x in mo] != impl:
                ctx.disagree("stream.http(crash)", {"family": fam, "crash_at": idx, "version": version, "end": name}, m, impl)


def replay(ctx: Ctx, case: dict) -> None:
    check(ctx, [case])
