"""C19 — configuration sources agree; CLI flags wired one-to-one; binds; response headers.  Direct-call runner."""
from __future__ import annotations

import email.utils
import importlib
import json
import os
import re
import socket
import ssl
import sys
import tempfile
import warnings
from pathlib import Path
from typing import Any, Dict, List, Optional, Tuple

from ..core.framework import Ctx, b2s

SPEC = {
    "modules": ["HC.Props.C19"],
    "extracted": ["Cli", "Consts", "ConfigSites", "ConfigState"],
    "technique": "Lean 4: `decide` over the CLI table regenerated from __main__.py + a general semantics theorem for the wiring; structural proofs for bind parsing, root_path, date arithmetic (omega) — tied by differential execution of every loader, every flag, bind shapes and sampled timestamps",
    "level_text": "Proved in Lean: the command-line table extracted from the current __main__.py is wired one-to-one per a hand-written specification (decided exhaustively), and for ANY set of given flags the executed assignments are exactly 'application_path, then each given flag's own attribute := its own value' (cli_semantics, cli_sets_exactly, cli_pair, cli_absent_flag_is_noop); root_path is the given value minus trailing slashes; a bind given as str equals the one-element list; all loaders reduce to from_mapping: the object loaders drop exactly dunder names and imported modules - the filter clauses are extracted from Config.from_object, so a class- or function-valued setting (logger_class) is handed on like any other (from_object_filter_spec, loaders_agree, from_object_drops, from_object_callable_setting) - and one more key changes exactly its own attribute; from_mapping hands EVERY key to setattr - the statements of its loop are extracted, none skips a key - so a setting whose attribute cannot be read back (the write-only cert_reqs, the annotation-only application_path) is stored like any other, cert_reqs = n storing VerifyMode(n) under verify_mode exactly as --cert-reqs n does (from_mapping_guard_spec, cert_reqs_loaded, application_path_loaded, from_mapping_stores); the address family of an inet bind is decided by the parsed host alone - AF_INET6 iff it contains a colon, with or without brackets; the test is extracted from _create_sockets (bind_family_spec, bind_family_of_host, bind_bare_v6_unbracketed); a LIST of bind strings is parsed entry by entry - no local of the loop `for bind in binds` outlives an iteration (definite-assignment analysis of the loop body, extracted), so every entry is bound as if given alone, a bare host to port 8000 wherever it stands (create_sockets_loop_spec, create_sockets_pointwise, create_sockets_entry, bind_bare_host_in_list, bind_bare_v6_in_list); host:port / bare host / [v6]:port / unix: / fd:// parse to the intended family, address and port for every host and port string of the stated shape; the date header is a 29-character IMF-fixdate with every field in range for every second up to year 9999; response headers are exactly date/server/alt-svc per the switches; with SEVERAL Config objects in one process and any history of Config() / attribute assignments / create_sockets() on them (HC/Pure/ConfigObjects.lean: the class-level `_quic_addresses` list, per object its settings and the list the instance has bound), the class-level list is never changed, every object is exactly what the operations applied to IT make of it, and its headers are a function of its own switches, its own alt-svc values and the QUIC ports of its own LAST create_sockets() under TLS - a Config() made after any history answers with date and server only, a second create_sockets() replaces the ports of the first (history_own, history_object, response_headers_own, fresh_config_headers, create_sockets_again, alt_svc_of_own_sockets); the facts about the source are extracted: `_set_quic_addresses` starts from a fresh empty list bound on the instance, no mutable class-level default (or module-level name) of config.py is changed in place anywhere in the package without a preceding rebinding on the same object, no attribute is kept on the class, nothing is memoised (quic_addresses_reset_spec, config_shared_state_spec). Tie: every flag alone and in pairs through the real main(), every public key (logger_class, Logger instances and ssl enums included) through all loaders - mapping, keywords, object, class, module, module.attribute, Python file, TOML file, the command line's -c file: / -c python: / -c toml (files written to disk) and the setting's own command-line flag where the flag can spell the value; keys that cannot be read back included (cert_reqs judged on verify_mode AND on the TLS context create_ssl_context() builds, application_path); a loader that raises is a violation, not a harness error; bind strings (bracketed and unbracketed IPv6 literals, stream and datagram sockets), alone and in lists, through the real _create_sockets / create_sockets (recorded bind() arguments and real sockets), timestamps against wsgiref's formatter; histories of operations on one to four Config objects (fixed shapes + random; recorded sockets and real loopback sockets) with the headers and public settings of EVERY object compared after EVERY operation with what its own operations ask for, and with the model run on the same history.",
    "level_note": "Trusted: Lean kernel; extractor (argparse table and wiring recognised by shape, unknown shapes fail the tie); hand-written model HC/Pure/Config.lean; argparse, tomllib, importlib and the socket layer are runtime behaviour compared by execution only; Python int() accepts more spellings than the model's decimal parser (generator stays within decimal digits).",
    "rule": "CLI: every wired flag alone (exhaustive) + flag pairs (quick: sample, thorough: all) with distinct random values, with/without a TOML file setting the same key; loaders: every public Config key x its value types (literals; a Logger subclass and a logger factory function for logger_class; logging.Logger instances; ssl.VerifyMode / VerifyFlags members; cert_reqs 0/1/2 and a member; application_path) x 13 loaders (an instance whose class carries the setting included), TOML / the flag only for values they can spell; binds: shape grid (host:port, bare host, [v6]:port, [v6], bare v6 without brackets, v6 without brackets that also reads as host:port, unix, fd) x hosts x ports x socket type via recorded bind() arguments, plus real sockets (incl. a real bind of `::`); bind LISTS: every ordered pair of the eight shapes, a unix / fd entry between an entry with and one without a port, random lists of 3-6 entries (stream and datagram), and bind + insecure_bind + quic_bind together through Config.create_sockets() - each socket judged against the intention of its own entry; histories: 18 fixed shapes (another object made before / after / serving / loaded from a mapping, two QUIC objects, create_sockets() again with the same / other / fewer / no quic_bind, alt-svc values set and cleared, switches, a unix quic_bind, no TLS, real sockets) + random histories of 5-15 operations on 1-4 objects (quick 60, thorough 1500); a Config() made after every history and after every create_sockets() of the bind-list family must answer like the first one; dates: boundary + random timestamps. distinct = (family, flag | flag pair | (loader,key) | bind shape | date class); non-trivial = a value different from the default is supplied",
    "trusted": ["argparse / tomllib / importlib / socket behaviour (compared by execution, not modelled)"],
    "partial": ["bind_host_port excludes the host spelled `unix` (`unix:80` is a unix-socket path by design of the syntax)",
                "bare bracketed IPv6 without a port is outside the proved shapes; see known finding F22 if listed",
                "an IPv6 literal WITHOUT brackets whose last group is a decimal number (`::1`, `2001:db8::370:7334`) is also of the shape host:port and is read so (bind_unbracketed_decimal_tail); the monitor accepts either reading and demands AF_INET6",
                "(round 6, F117 repaired) histories may switch TLS off again on an object that made sockets under TLS: its next create_sockets() records that it has no QUIC socket (model: `objStep`)"],
    "assumptions": ["values round-trip through TOML / Python source (checked by the run itself: a loader that cannot represent a value is skipped for that value and counted)"],
}

# flag destination → attribute it is documented to set (docs/how_to_guides/configuring.rst); independent of the Lean copy
PY_SPEC = {
    "log_level": "loglevel", "access_logformat": "access_log_format", "access_log": "accesslog", "access_logfile": "accesslog",
    "backlog": "backlog", "ca_certs": "ca_certs", "certfile": "certfile", "cert_reqs": "verify_mode", "ciphers": "ciphers", "debug": "debug",
    "error_log": "errorlog", "error_logfile": "errorlog", "graceful_timeout": "graceful_timeout", "read_timeout": "read_timeout",
    "group": "group", "keep_alive": "keep_alive_timeout", "keyfile": "keyfile", "keyfile_password": "keyfile_password",
    "log_config": "logconfig", "max_requests": "max_requests", "max_requests_jitter": "max_requests_jitter", "pid": "pid_path",
    "root_path": "root_path", "reload": "use_reloader", "statsd_host": "statsd_host", "statsd_prefix": "statsd_prefix", "umask": "umask",
    "user": "user", "worker_class": "worker_class", "verify_mode": "verify_mode", "websocket_ping_interval": "websocket_ping_interval",
    "workers": "workers", "binds": "bind", "insecure_binds": "insecure_bind", "quic_binds": "quic_bind", "server_names": "server_names",
}


def snapshot(config) -> Dict[str, str]:
    from hypercorn.config import Config
    names = set(n for n in dir(Config) if not n.startswith("__")) | set(vars(config))
    out = {}
    for n in sorted(names):
        if n in ("log", "_log", "cert_reqs", "ssl_enabled"):   # ssl_enabled is derived from certfile/keyfile
            continue
        try:
            v = getattr(config, n)
        except AttributeError:
            continue
        if callable(v) and n not in vars(config) and n != "logger_class":
            continue        # methods of Config; a callable *setting* (logger_class, or anything a loader stored) is compared
        out[n] = repr(v)
    return out


def run_main(argv: List[str]):
    import hypercorn.__main__ as hm
    got = []
    orig = hm.run
    hm.run = lambda config: (got.append(config), 0)[1]
    try:
        with warnings.catch_warnings():
            warnings.simplefilter("ignore")
            hm.main(argv)
    finally:
        hm.run = orig
    return got[0]


def _value_for(rng, arg: dict, salt: int) -> Tuple[List[str], Any]:
    """argv tokens and the Python value argparse should produce."""
    flag = arg["flags"][-1]
    if arg["action"] == "store_true":
        return [flag], True
    if arg["action"] == "append":
        vals = [f"h{salt}{i}.test:{rng.randint(1000, 60000)}" for i in range(rng.randint(1, 2))]
        toks: List[str] = []
        for v in vals:
            toks += [flag, v]
        return toks, vals
    if arg["type"] == "int":
        if arg["dest"] == "cert_reqs":
            v = rng.choice([1, 2])
            return [flag, str(v)], ssl.VerifyMode(v)
        v = rng.randint(2, 9000) + salt
        return [flag, str(v)], v
    if arg["dest"] == "verify_mode":
        name = rng.choice(["CERT_OPTIONAL", "CERT_REQUIRED"])
        return [flag, name], ssl.VerifyMode[name]
    if arg["dest"] == "root_path":
        v = rng.choice(["/r%d" % salt, "/r%d/" % salt, "/a/b%d//" % salt])
        return [flag, v], v
    v = f"v{salt}x{rng.randint(0, 10**6)}"
    return [flag, v], v


def _norm_expected(attr: str, v: Any) -> str:
    if attr == "root_path":
        return repr(v.rstrip("/"))
    return repr(v)


def check_cli(ctx: Ctx) -> None:
    rng = ctx.rng
    table = ctx.model([{"cmd": "c19.args"}, {"cmd": "c19.wires"}])
    if table is None:
        # driver unavailable: fall back to the parser itself for the flag list
        args = _args_from_parser()
        wires = None
    else:
        args, wires = table[0]["ok"], table[1]["ok"]
    opt = [a for a in args if a["dest"] not in ("application", "config")]
    # the real parser must expose the same flags as the extracted table (extractor sanity)
    real = {a["dest"]: a for a in _args_from_parser()}
    if set(real) != set(a["dest"] for a in args):
        ctx.disagree("c19.args", "argparse table", sorted(a["dest"] for a in args), sorted(real))
    base = snapshot(run_main(["app:app"]))
    cases = [[a] for a in opt]
    pairs = [[a, b] for i, a in enumerate(opt) for b in opt[i + 1:]]
    if not ctx.thorough:
        pairs = rng.sample(pairs, min(len(pairs), 120))
    else:
        ctx.extra["cli_pairs_exhaustive"] = True
    cases += pairs
    ctx.extra["cli_single_flags_exhaustive"] = True
    tmp = Path(tempfile.mkdtemp(prefix="c19cli"))
    reqs, metas = [], []
    try:
        for k, combo in enumerate(cases):
            argv, expect, given = ["app:app"], {}, []
            for j, a in enumerate(combo):
                toks, v = _value_for(rng, a, salt=10 * k + j)
                argv += toks
                given.append((a["dest"], v))
            # with a config file that sets the same (first) key to something else
            with_file = len(combo) == 1 and rng.random() < 0.5 and PY_SPEC.get(combo[0]["dest"]) in ("keep_alive_timeout", "workers", "statsd_prefix", "loglevel", "backlog", "root_path", "max_requests_jitter", "graceful_timeout", "worker_class")
            file_key = None
            if with_file:
                file_key = PY_SPEC[combo[0]["dest"]]
                fv = {"keep_alive_timeout": 77, "workers": 7, "backlog": 77, "max_requests_jitter": 77, "graceful_timeout": 77}.get(file_key, "fromfile")
                f = tmp / f"c{k}.toml"
                f.write_text(f"{file_key} = {json.dumps(fv)}\n")
                argv = ["-c", str(f)] + argv
            try:
                cfg = run_main(argv)
                snap = snapshot(cfg)
                err = None
            except BaseException as e:  # SystemExit from argparse included
                snap, err = {}, repr(e)
            ctx.evaluations += 1
            dests = [a["dest"] for a in combo]
            ctx.count("cli.arity", len(combo))
            ctx.distinct(["cli", dests, with_file])
            if len(combo) == 1:
                ctx.sample({"family": "cli", "argv": argv}, cap=2)
            case = {"family": "cli", "argv": argv, "dests": dests}
            if err is not None:
                ctx.violation("cli_flag_rejected", case, err, {"family": "cli", "dests": dests})
                continue
            # monitor: exactly the documented attributes changed, to exactly the given values
            want = {}
            for d, v in given:
                want[PY_SPEC[d]] = _norm_expected(PY_SPEC[d], v)
            changed = {a: snap[a] for a in snap if snap.get(a) != base.get(a)}
            for a in list(base):
                if a not in snap:
                    changed[a] = "<deleted>"
            # the file-provided key is expected to hold the flag's value (flag wins), nothing else from the file
            changed.pop("_bind", None), changed.pop("_insecure_bind", None), changed.pop("_quic_bind", None), changed.pop("_root_path", None)
            changed.pop("application_path", None)
            ok = all(changed.get(a) == w for a, w in want.items()) and set(changed) <= set(want)
            alias_pair = len({PY_SPEC[d] for d, _ in given}) < len(given)   # two spellings of one setting: order is unspecified
            if not ok and not alias_pair:
                ctx.violation("cli_sets_exactly", case, {"changed": changed, "want": want},
                              {"family": "cli", "dests": dests if len(dests) == 1 else "pair"})
            reqs.append({"cmd": "c19.cli", "app": "app:app", "given": [[d, repr(v)] for d, v in given]})
            metas.append((case, given, snap))
        # absent flag is a no-op on top of a config file (F21 shape)
        for key, fv in (("statsd_prefix", "pre.fix"), ("keep_alive_timeout", 31), ("root_path", "/fromfile"), ("max_requests_jitter", 5)):
            f = tmp / f"only_{key}.toml"
            f.write_text(f"{key} = {json.dumps(fv)}\n")
            cfg = run_main(["-c", str(f), "app:app"])
            ctx.evaluations += 1
            ctx.distinct(["cli-absent", key])
            if getattr(cfg, key) != fv:
                ctx.violation("cli_absent_flag_is_noop", {"family": "cli", "argv": ["-c", f"{key}={fv!r}", "app:app"], "key": key},
                              {"got": repr(getattr(cfg, key)), "want": repr(fv)}, {"family": "cli", "key": key})
    finally:
        for f in tmp.glob("*"):
            f.unlink()
        tmp.rmdir()
    model = ctx.model(reqs)
    if model is not None:
        for m, (case, given, snap) in zip(model, metas):
            ctx.disagreements_checked += 1
            asg = m.get("ok")
            if asg is None:
                ctx.disagree("c19.cli", case, m, None)
                continue
            # replay the model's assignments on the public attribute view and compare with what main() produced
            eff: Dict[str, Optional[str]] = {}
            for attr, val in asg:          # in execution order: a later assignment to the same setting wins
                eff["verify_mode" if attr == "cert_reqs" else attr] = val
            bad = []
            for attr, val in eff.items():
                if attr == "application_path":
                    continue
                if attr == "cert_reqs":
                    attr = "verify_mode"
                got = snap.get(attr)
                if attr == "root_path" and val is not None:
                    val = repr(eval(val).rstrip("/"))
                if val is None or got != val:
                    bad.append((attr, val, got))
            if bad:
                ctx.disagree("c19.cli", case, asg, bad)


def _parser_actions() -> Dict[str, Any]:
    """dest -> the real argparse action (its `type` callable spells a value the way the command line does)"""
    import argparse
    import hypercorn.__main__ as hm
    captured = {}
    orig = argparse.ArgumentParser.parse_args

    def fake(self, *a, **k):
        captured["p"] = self
        raise KeyboardInterrupt

    argparse.ArgumentParser.parse_args = fake
    try:
        try:
            hm.main(["x:y"])
        except KeyboardInterrupt:
            pass
    finally:
        argparse.ArgumentParser.parse_args = orig
    return {act.dest: act for act in captured["p"]._actions if act.dest != "help"}


def _args_from_parser() -> List[dict]:
    import argparse
    import hypercorn.__main__ as hm
    captured = {}
    orig = argparse.ArgumentParser.parse_args

    def fake(self, *a, **k):
        captured["p"] = self
        raise KeyboardInterrupt

    argparse.ArgumentParser.parse_args = fake
    try:
        try:
            hm.main(["x:y"])
        except KeyboardInterrupt:
            pass
    finally:
        argparse.ArgumentParser.parse_args = orig
    out = []
    for act in captured["p"]._actions:
        if act.dest == "help":
            continue
        kind = type(act).__name__
        out.append({"flags": list(act.option_strings) or [act.dest], "dest": act.dest,
                    "action": {"_StoreTrueAction": "store_true", "_AppendAction": "append"}.get(kind, "store"),
                    "type": "int" if act.type is int else ("str" if act.type is None else "func"),
                    "default": "sentinel" if act.default is hm.sentinel else ("list" if act.default == [] else ("none" if act.default is None else f"lit:{act.default!r}"))})
    return out


# --------------------------------------------------------------------------------------------------------------
# loaders
# --------------------------------------------------------------------------------------------------------------
class PyVal:
    """a value with the Python source that denotes it (for configuration files) — `toml` when TOML can spell it too"""

    def __init__(self, value: Any, expr: Optional[str] = None, imports: str = "", toml: Optional[bool] = None, cli: Optional[str] = None) -> None:
        self.value, self.expr, self.imports = value, (repr(value) if expr is None else expr), imports
        self.toml = (expr is None and not isinstance(value, dict)) if toml is None else toml
        self.cli = cli          # how the command line spells the value, when str(value) is not it


HELPER_SRC = """from hypercorn.logging import Logger


class QuietLogger(Logger):
    def __init__(self, config):
        self.config = config


def make_logger(config):
    return QuietLogger(config)
"""


def _key_values(rng, helper: Optional[str] = None) -> Dict[str, List[PyVal]]:
    """every public key of Config with values of its type(s); `helper` = name of an importable module holding HELPER_SRC"""
    import logging
    from hypercorn.config import Config
    strs = {"ca_certs", "certfile", "keyfile", "keyfile_password", "logconfig", "pid_path", "statsd_host", "accesslog"}
    ints = {"group", "umask", "user", "read_timeout", "max_requests"}
    out: Dict[str, List[PyVal]] = {}
    for name in sorted(n for n in vars(Config) if not n.startswith("_")):
        d = vars(Config)[name]
        if isinstance(d, (property, classmethod, staticmethod)) or (callable(d) and not isinstance(d, type)):
            continue                       # methods and properties (bind, root_path, cert_reqs, log ... are handled below)
        if isinstance(d, type):
            vals: List[Any] = []           # a class-valued setting (logger_class): values come from the helper module
        elif isinstance(d, bool):
            vals = [not d]
        elif isinstance(d, int):
            vals = [d + rng.randint(1, 50), 0]
        elif isinstance(d, float):
            vals = [d + 0.5, float(rng.randint(1, 99))]
        elif isinstance(d, str):
            vals = [f"s{rng.randint(0, 999)}", ""]
        elif isinstance(d, list):
            vals = [[f"l{rng.randint(0, 99)}", "b"], []]
        elif d is None and name in strs:
            vals = [f"/p/{rng.randint(0, 999)}"]
        elif d is None and name in ints:
            vals = [rng.randint(1, 999)]
        elif d is None and name == "websocket_ping_interval":
            vals = [2.5]
        elif d is None and name == "logconfig_dict":
            vals = [{"version": 1}]
        else:
            vals = []
        out[name] = [PyVal(v) for v in vals]
    out["bind"] = [PyVal("0.0.0.0:%d" % rng.randint(1000, 9999)), PyVal(["a:1", "b:2"])]
    out["insecure_bind"] = [PyVal("127.0.0.1:80"), PyVal(["c:3"])]
    out["quic_bind"] = [PyVal("127.0.0.1:443")]
    out["root_path"] = [PyVal("/api/"), PyVal("/x//"), PyVal("/plain"), PyVal("")]
    # settings whose attribute cannot be READ on a fresh Config: declared by annotation only (`application_path: str`), or a
    # property without a getter (`cert_reqs`, the deprecated spelling of verify_mode: stores VerifyMode(value))
    for name in sorted(n for n in getattr(Config, "__annotations__", {}) if not n.startswith("_") and n not in vars(Config)):
        out[name] = [PyVal(f"pkg{rng.randint(0, 99)}.mod:app"), PyVal("")]
    for name, (_attr, conv) in WRITE_ONLY.items():
        if isinstance(vars(Config).get(name), property):
            out[name] = [PyVal(n) for n in (0, 1, 2)] + [PyVal(ssl.VerifyMode.CERT_REQUIRED, "ssl.VerifyMode.CERT_REQUIRED", "import ssl\n", cli="2")]
    # values that are not literals: Logger instances, ssl enum members, and the callable setting logger_class
    for key in ("accesslog", "errorlog"):
        nm = f"c19.{key}.{rng.randint(0, 99)}"
        out[key].append(PyVal(logging.getLogger(nm), f"logging.getLogger({nm!r})", "import logging\n"))
    mode = rng.choice(["CERT_OPTIONAL", "CERT_REQUIRED"])
    out["verify_mode"].append(PyVal(ssl.VerifyMode[mode], f"ssl.VerifyMode.{mode}", "import ssl\n", cli=mode))
    flag = rng.choice(["VERIFY_X509_STRICT", "VERIFY_CRL_CHECK_LEAF"])
    out["verify_flags"].append(PyVal(ssl.VerifyFlags[flag], f"ssl.VerifyFlags.{flag}", "import ssl\n"))
    if helper is not None:
        mod = importlib.import_module(helper)
        out["logger_class"] += [PyVal(mod.QuietLogger, f"{helper}.QuietLogger", f"import {helper}\n"),
                                PyVal(mod.make_logger, f"{helper}.make_logger", f"import {helper}\n")]
    return out


# write-only settings (a property with a setter and no getter): key -> (the attribute its setter stores, the stored value)
WRITE_ONLY = {"cert_reqs": ("verify_mode", lambda v: ssl.VerifyMode(v))}
# settings that shape the TLS context: their effect is observed on `create_ssl_context()` as well
TLS_KEYS = {"verify_mode": "verify_mode", "cert_reqs": "verify_mode", "verify_flags": "verify_flags"}
DATA = Path(__file__).resolve().parents[1] / "data"


def _tls_effect(cfg) -> Any:
    """(verify_mode, verify_flags) of the context the server would build (a certificate is supplied on a copy of the settings)"""
    import copy
    c = copy.copy(cfg)
    c.certfile, c.keyfile = str(DATA / "c19_cert.pem"), str(DATA / "c19_key.pem")
    ctx = c.create_ssl_context()
    return (ctx.verify_mode, ctx.verify_flags)


class Failed:
    """a loader that raised instead of returning a Config"""

    def __init__(self, e: BaseException) -> None:
        self.error = f"{type(e).__name__}: {e}"[:300]


def _load(fn, *a, **k):
    try:
        with warnings.catch_warnings():
            warnings.simplefilter("ignore")
            return fn(*a, **k)
    except BaseException as e:  # noqa  (SystemExit from argparse included)
        if isinstance(e, KeyboardInterrupt):
            raise
        return Failed(e)


def _cli_tokens(act: Any, key: str, pv: "PyVal") -> Optional[List[str]]:
    """argv tokens that supply `pv.value` through the setting's own flag - None when the command line cannot spell the value"""
    v = pv.value
    if key == "application_path":
        return None if (not isinstance(v, str) or v.startswith("-") or v == "") else []
    flag = act.option_strings[-1]
    kind = type(act).__name__
    if kind == "_StoreTrueAction":
        return [flag] if v is True else None
    if kind == "_AppendAction":
        vals = [v] if isinstance(v, str) else v
        if not (isinstance(vals, list) and vals and all(isinstance(x, str) and not x.startswith("-") for x in vals)):
            return None
        return [t for x in vals for t in (flag, x)]
    spelled = pv.cli if pv.cli is not None else (str(v) if type(v) in (int, float, str) else None)
    if spelled is None or spelled.startswith("-"):
        return None
    try:
        parsed = (act.type or str)(spelled)
    except Exception:
        return None
    same = parsed == v and (type(parsed) is type(v) or key in WRITE_ONLY)
    return [flag, spelled] if same else None


def _attr_kind(v: Any) -> str:
    import types
    if isinstance(v, types.ModuleType):
        return "module"
    if isinstance(v, type):
        return "class"
    return "function" if callable(v) else "plain"


def _jv(v: Any) -> Any:
    """JSON view of a stored value (what the model carries opaquely)"""
    if isinstance(v, ssl.VerifyMode):
        return {"VerifyMode": int(v)}      # the model knows this one: the `cert_reqs` setter builds it from a number
    try:
        if json.loads(json.dumps(v)) == v and not isinstance(v, tuple):
            return v
    except (TypeError, ValueError):
        pass
    return {"py": repr(v)}


def _model_attrs(obj: Any) -> List[list]:
    """the attributes `from_object` sees on `obj`, as the model's (name, kind, value) triples"""
    return [[n, _attr_kind(getattr(obj, n)), 0 if n.startswith("__") or _attr_kind(getattr(obj, n)) == "module" else _jv(getattr(obj, n))]
            for n in dir(obj)]


LOADERS = ["mapping", "kwargs", "object", "class", "instance", "module", "module.attr", "pyfile", "toml", "cli_file", "cli_python", "cli_toml", "cli_flag"]


def check_loaders(ctx: Ctx) -> None:
    from hypercorn.config import Config
    rng = ctx.rng
    tmp = Path(tempfile.mkdtemp(prefix="c19ld"))
    sys.path.insert(0, str(tmp))
    tag = f"e{ctx.evaluations}"                     # unique within the process (run() may be entered twice), stable per seed
    helper = f"c19types_{tag}"
    (tmp / f"{helper}.py").write_text(HELPER_SRC)
    reqs, metas = [], []
    made: List[str] = [helper]
    MISSING = object()
    try:
        kv = _key_values(rng, helper)
        # every name a configuration source may set: public names bound in the class body (plain defaults, classes,
        # properties with a setter - write-only ones included) and names the class only annotates
        declared = dict(vars(Config))
        declared.update({n: MISSING for n in getattr(Config, "__annotations__", {}) if n not in declared})
        public = sorted(n for n in declared if not n.startswith("_") and not isinstance(declared[n], (classmethod, staticmethod))
                        and (declared[n] is MISSING or isinstance(declared[n], (property, type)) or not callable(declared[n])))
        settable = [n for n in public if not (isinstance(declared[n], property) and declared[n].fset is None)]
        unreadable = [n for n in settable if declared[n] is MISSING or (isinstance(declared[n], property) and declared[n].fget is None)]
        uncovered = [n for n in settable if not kv.get(n)]
        uncovered += [n for n in unreadable if isinstance(declared[n], property) and n not in WRITE_ONLY]     # no oracle for what its setter stores
        ctx.extra["loader_keys"] = {"settable": len(settable), "covered": len([n for n in settable if kv.get(n)]), "uncovered": uncovered,
                                    "unreadable": unreadable}
        if uncovered:
            ctx.violation("loader_key_coverage", {"family": "loaders", "keys": uncovered}, "the generator has no value for these settings",
                          {"family": "loaders", "coverage": True})
        # the setting's own command-line flag (the positional argument for application_path), as one more loader
        actions = _parser_actions()
        key_dest = {"application_path": "application"}
        for dest, attr in PY_SPEC.items():
            if dest in actions and dest not in ("access_log", "error_log"):          # deprecated second spellings
                key_dest.setdefault(dest if dest in WRITE_ONLY else attr, dest)
        n = 0
        for key, vals in kv.items():
            for pv in vals:
                v = pv.value
                n += 1
                results: Dict[str, Any] = {}
                objs: Dict[str, Any] = {}
                results["mapping"] = _load(Config.from_mapping, {key: v})
                results["kwargs"] = _load(Config.from_mapping, **{key: v})
                obj = type("O", (), {})()
                setattr(obj, key, v)
                objs["object"] = obj
                results["object"] = _load(Config.from_object, obj)
                objs["class"] = type("Settings", (), {key: v})
                results["class"] = _load(Config.from_object, objs["class"])
                if _attr_kind(v) != "function":                 # (Python binds a function-valued class attribute to the instance: another value)
                    objs["instance"] = objs["class"]()          # an instance whose CLASS carries the setting (nothing in its own __dict__)
                    results["instance"] = _load(Config.from_object, objs["instance"])
                modname = f"c19mod_{tag}_{n}"
                (tmp / f"{modname}.py").write_text(f"import os\n{pv.imports}{key} = {pv.expr}\n__dunder_x__ = 1\n")
                objs["module"] = importlib.import_module(modname)
                results["module"] = _load(Config.from_object, modname)
                attrmod = f"c19att_{tag}_{n}"
                (tmp / f"{attrmod}.py").write_text(f"{pv.imports}\n\nclass settings:\n    {key} = {pv.expr}\n")
                results["module.attr"] = _load(Config.from_object, f"{attrmod}.settings")
                (tmp / f"cfg{n}.py").write_text(f"import sys\n{pv.imports}{key} = {pv.expr}\n")
                results["pyfile"] = _load(Config.from_pyfile, str(tmp / f"cfg{n}.py"))
                results["cli_file"] = _load(run_main, ["-c", f"file:{tmp / f'cfg{n}.py'}", "app:app"])
                sys.modules.pop(modname, None)
                results["cli_python"] = _load(run_main, ["-c", f"python:{modname}", "app:app"])
                made += [modname, attrmod]
                if pv.toml:
                    (tmp / f"cfg{n}.toml").write_text(f"{key} = {json.dumps(v)}\n")
                    results["toml"] = _load(Config.from_toml, str(tmp / f"cfg{n}.toml"))
                    results["cli_toml"] = _load(run_main, ["-c", str(tmp / f"cfg{n}.toml"), "app:app"])
                else:
                    ctx.count("loaders.toml_skipped", key)
                toks = _cli_tokens(actions.get(key_dest.get(key)), key, pv) if key_dest.get(key) in actions else None
                if toks is not None:
                    results["cli_flag"] = _load(run_main, toks + ([v] if key == "application_path" else ["app:app"]))
                elif key in key_dest:
                    ctx.count("loaders.cli_flag_cannot_spell", key)
                vclass = "literal" if pv.imports == "" else _attr_kind(v) + ":" + type(v).__name__
                ctx.count("loaders.value", vclass)
                if key in unreadable:
                    ctx.count("loaders.unreadable_key", key)
                case = {"family": "loaders", "key": key, "value": _jv(v), "expr": pv.expr, "imports": pv.imports}
                # a loader that raises on a setting of the documented type does not load it
                for lname in [k for k, c in results.items() if isinstance(c, Failed)]:
                    ctx.violation("loader_rejected", dict(case, loader=lname), results[lname].error, {"family": "loaders", "loader": lname, "key": key})
                    del results[lname]
                ctx.evaluations += len(results)
                if "mapping" not in results:
                    continue
                snaps = {k: snapshot(c) for k, c in results.items()}
                for k in ("cli_file", "cli_python", "cli_toml", "cli_flag"):
                    if k in snaps and not (k == "cli_flag" and key == "application_path"):
                        snaps[k].pop("application_path", None)       # the positional argument of main(), always "app:app" here
                ref = snaps["mapping"]
                for lname, s in snaps.items():
                    ctx.count("loaders.loader", lname)
                    ctx.distinct(["loader", lname, key, vclass])
                    if key == "application_path" and lname in ("cli_file", "cli_python", "cli_toml"):
                        continue        # main()'s positional argument is the command line's own value for this setting: it wins over the file
                    if s != ref:
                        diff = {a: (ref.get(a), s.get(a)) for a in set(ref) | set(s) if ref.get(a) != s.get(a)}
                        ctx.violation("loaders_agree", dict(case, loader=lname), diff, {"family": "loaders", "loader": lname})
                # the setting itself took effect (through the public attribute; for a write-only setting: through the
                # attribute its setter is documented to store) — for every loader
                attr, want = key, v
                if key in ("bind", "insecure_bind", "quic_bind") and isinstance(v, str):
                    want = [v]
                if key == "root_path":
                    want = v.rstrip("/")
                if key in WRITE_ONLY:
                    attr, want = WRITE_ONLY[key][0], WRITE_ONLY[key][1](v)
                for lname, cfg in results.items():
                    if key == "application_path" and lname in ("cli_file", "cli_python", "cli_toml"):
                        continue
                    got = getattr(cfg, attr, MISSING)
                    if key == "root_path" and got.endswith("/"):
                        ctx.violation("root_path_trailing_slash", dict(case, loader=lname), got, {"family": "loaders", "key": "root_path"})
                    if not (got is want or (pv.imports == "" and got is not MISSING and got == want and type(got) is type(want))):
                        ctx.violation("setting_effect", dict(case, loader=lname), {"attribute": attr, "got": "<not set>" if got is MISSING else repr(got), "want": repr(want)},
                                      {"family": "loaders", "key": key, "loader": lname})
                    if key == "logger_class":
                        # the effect of the setting: the server's logger (`config.log`) is built by the given class / factory
                        made_by = type(cfg.log).__qualname__
                        if made_by != "QuietLogger":
                            ctx.violation("setting_effect", dict(case, loader=lname), {"config.log built by": made_by, "want": "QuietLogger"},
                                          {"family": "loaders", "key": key, "loader": lname, "effect": "config.log"})
                    if key in TLS_KEYS:
                        # the effect of the setting: the TLS context the server builds asks for client certificates as configured
                        eff = _load(_tls_effect, cfg)
                        idx = 0 if TLS_KEYS[key] == "verify_mode" else 1
                        if isinstance(eff, Failed) or eff[idx] != want:
                            ctx.violation("setting_effect", dict(case, loader=lname),
                                          {"ssl context": eff.error if isinstance(eff, Failed) else repr(eff[idx]), "want": repr(want)},
                                          {"family": "loaders", "key": key, "loader": lname, "effect": "ssl_context"})
                        ctx.count("loaders.tls_context_effect", key)
                ctx.sample(case, cap=3)
                # correspondence: the stored attributes, against the model's from_mapping / from_object on what the loader sees
                # (a dunder key is stored like any other; `log` is a read-only property: skipped silently)
                reqs.append({"cmd": "c19.from_mapping", "items": [[key, _jv(v)], ["__dunder__", 1], ["log", 1]]})
                metas.append((dict(case, loader="mapping"), _load(Config.from_mapping, {key: v, "__dunder__": 1, "log": 1})))
                for lname in ("object", "class", "instance", "module"):
                    if lname in results:
                        reqs.append({"cmd": "c19.from_object", "items": _model_attrs(objs[lname])})
                        metas.append((dict(case, loader=lname), results[lname]))
        # an object that also carries things that are not settings: a helper function, a class, a module, a dunder name
        mod = importlib.import_module(helper)
        extra = type("WithHelpers", (), {})()
        extra.workers, extra.helper, extra.Helper, extra.os, extra.__private__ = 3, mod.make_logger, mod.QuietLogger, os, 1
        reqs.append({"cmd": "c19.from_object", "items": _model_attrs(extra)})
        metas.append(({"family": "loaders", "key": "workers", "value": 3, "loader": "object+helpers"}, _load(Config.from_object, extra)))
    finally:
        sys.path.remove(str(tmp))
        for m in made:
            sys.modules.pop(m, None)
        for f in tmp.glob("*"):
            if f.is_dir():
                for g in f.glob("*"):
                    g.unlink()
                f.rmdir()
            else:
                f.unlink()
        tmp.rmdir()
    model = ctx.model(reqs)
    if model is not None:
        for m, (case, cfg) in zip(model, metas):
            ctx.disagreements_checked += 1
            what = "c19." + ("from_mapping" if case["loader"] == "mapping" else "from_object")
            if isinstance(cfg, Failed):
                ctx.disagree(what, case, m.get("ok"), {"raised": cfg.error})
                continue
            store = dict((k, val) for k, val in m.get("ok", []))
            impl = {k: _jv(val) for k, val in vars(cfg).items() if k != "_log"}
            if json.loads(json.dumps(impl)) != store:
                ctx.disagree(what, case, store, impl)


# --------------------------------------------------------------------------------------------------------------
# binds
# --------------------------------------------------------------------------------------------------------------
HOSTS4 = ["127.0.0.1", "0.0.0.0", "localhost", "a-b.example", "unixx", "fd", "x"]
HOSTS6 = ["::", "::1", "fe80::1", "2001:db8::8a2e:370:7334"]
# IPv6 literals given as a bare host WITHOUT brackets: what stands behind the last colon is no decimal number, so the string
# cannot be read as host:port - it is a bare host, and an IPv6 one
HOSTS6_BARE = ["::", "fe80::a", "2001:db8::beef", "::ffff:192.0.2.1", "fe80::1%eth0", "1::", "::ffff:c000:2a1", "2001:db8:0:0:0:0:0:a"]
# ... and the spellings that are of the shape host:port as well (the last group is decimal): the syntax reads them as
# host:port (as it reads `unix:80` as a path); whichever reading, the host that is bound contains a colon: AF_INET6
HOSTS6_AMBIGUOUS = ["::1", "fe80::1", "2001:db8::8a2e:370:7334", "::ffff:c000:201"]


def gen_binds(ctx: Ctx) -> List[dict]:
    rng = ctx.rng
    out = []
    for h in HOSTS4:
        out.append({"family": "bind", "bind": h, "shape": "bare"})
        for _ in range(ctx.budget(2, 20)):
            p = rng.choice([0, 1, 80, 8000, 65535, rng.randint(1, 65535)])
            out.append({"family": "bind", "bind": f"{h}:{p}", "shape": "host:port"})
    for h in HOSTS6:
        for _ in range(ctx.budget(2, 20)):
            p = rng.choice([0, 1, 443, 65535, rng.randint(1, 65535)])
            out.append({"family": "bind", "bind": f"[{h}]:{p}", "shape": "[v6]:port"})
        out.append({"family": "bind", "bind": f"[{h}]", "shape": "[v6]"})
    for h in HOSTS6_BARE:
        out.append({"family": "bind", "bind": h, "shape": "bare-v6"})
    for h in HOSTS6_AMBIGUOUS:
        out.append({"family": "bind", "bind": h, "shape": "bare-v6/host:port"})
    for path in ["/tmp/x.sock", "rel.sock", "/a:b", ""]:
        out.append({"family": "bind", "bind": f"unix:{path}", "shape": "unix"})
    out.append({"family": "bind", "bind": "fd://", "shape": "fd"})
    # the same parser serves `bind` / `insecure_bind` (stream sockets) and `quic_bind` (datagram sockets)
    for c in list(out):
        if c["shape"] not in ("fd", "unix") and (c["shape"] != "host:port" or rng.random() < 0.3):
            out.append(dict(c, type="dgram"))
    return out


class _Recording:
    """`hypercorn.config.socket` replaced by a module whose `socket` class records what it is asked for (one record per socket, in
    the order of creation) instead of asking the OS; `getsockname()` reports the address given to `bind()`."""

    def __init__(self, type_: int = socket.SOCK_STREAM) -> None:
        self.recs: List[Dict[str, Any]] = []
        self.type_ = type_

    def __enter__(self) -> "_Recording":
        import hypercorn.config as hc
        recs, type_ = self.recs, self.type_

        class RecSock:
            def __init__(self, family=-1, type=-1, proto=-1, fileno=None):
                self.rec: Dict[str, Any] = {"family": family, "type": type, "fileno": fileno}
                recs.append(self.rec)

            def setsockopt(self, *a):
                pass

            def getsockopt(self, *a):
                return self.rec["type"] if self.rec["fileno"] is None else self.rec.get("fd_type", type_)

            def bind(self, addr):
                self.rec["bind"] = addr

            def getsockname(self):
                return self.rec.get("bind", ("0.0.0.0", 0))

            def setblocking(self, f):
                pass

            def set_inheritable(self, f):
                pass

            def close(self):
                pass

        class FakeSocketModule:
            def __getattr__(self, n):
                return getattr(socket, n)

        fake = FakeSocketModule()
        fake.__dict__["socket"] = RecSock
        self.hc, self.orig = hc, hc.socket
        hc.socket = fake
        return self

    def __exit__(self, *a) -> None:
        self.hc.socket = self.orig


def _record_binds(binds: List[str], type_: int = socket.SOCK_STREAM, call=None) -> List[Dict[str, Any]]:
    """Run the real `_create_sockets` (or `call(config)`) with a recording socket class: what it asked the OS for, one record
    per socket, in the order of creation."""
    with _Recording(type_) as r:
        hc = r.hc
        if call is not None:
            out = call(hc.Config())
            for name in ("secure_sockets", "insecure_sockets", "quic_sockets"):
                for sk in getattr(out, name):
                    sk.rec["returned_in"] = name
        else:
            out = hc.Config()._create_sockets(binds, type_)
            for i, sk in enumerate(out):
                sk.rec["returned_at"] = i
    return r.recs


def _record_bind(bind: str, type_: int = socket.SOCK_STREAM):
    recs = _record_binds([bind], type_)
    return recs[0] if recs else {}


def _intended(shape: str, b: str, o: Dict[str, Any]):
    """monitor: intended (family, address) of ONE bind string, by its shape (independent of the model)"""
    if shape == "host:port":
        h, p = b.rsplit(":", 1)
        return (socket.AF_INET, (h, int(p)))
    if shape == "bare":
        return (socket.AF_INET, (b, 8000))
    if shape == "[v6]:port":
        h, p = b[1:].split("]:")
        return (socket.AF_INET6, (h, int(p)))
    if shape == "[v6]":
        return (socket.AF_INET6, (b[1:-1], 8000))
    if shape == "bare-v6":
        return (socket.AF_INET6, (b, 8000))
    if shape == "bare-v6/host:port":
        h, p = b.rsplit(":", 1)
        if o.get("bind") == (b, 8000):
            return (socket.AF_INET6, (b, 8000))          # the bare-host reading of the same string
        return (socket.AF_INET6, (h, int(p)))
    if shape == "fd":
        return (-1, None)                                # the socket is taken over as it is: nothing is bound
    return (socket.AF_UNIX, b[5:])


def check_binds(ctx: Ctx, cases: List[dict]) -> None:
    obs = []
    for c in cases:
        b = c["bind"]
        if b.startswith("fd://"):
            obs.append(None)
            continue
        try:
            obs.append(_record_bind(b, socket.SOCK_DGRAM if c.get("type") == "dgram" else socket.SOCK_STREAM))
        except Exception as e:
            obs.append({"error": repr(e)})
    model = ctx.model([{"cmd": "c19.bind", "bind": c["bind"]} for c in cases])
    for i, (c, o) in enumerate(zip(cases, obs)):
        ctx.evaluations += 1
        ctx.count("bind.shape", c["shape"])
        ctx.count("bind.type", c.get("type", "stream"))
        ctx.distinct(["bind", c["shape"], c["bind"].rsplit(":", 1)[0], c.get("type", "stream")])
        ctx.sample(c, cap=3)
        if o is None:
            continue
        if "error" in o:
            ctx.violation("bind_rejected", c, o, {"family": "bind", "shape": c["shape"]})
            continue
        b = c["bind"]
        # monitor: intended family / address / port, by shape (independent of the model)
        want = _intended(c["shape"], b, o)
        want_type = socket.SOCK_DGRAM if c.get("type") == "dgram" else socket.SOCK_STREAM
        if (o.get("family"), o.get("bind")) != want or o.get("type") != want_type:
            ctx.violation("bind_parse", c, {"got": [int(o.get("family", -1)), o.get("bind"), int(o.get("type", -1))], "want": [int(want[0]), want[1], int(want_type)]},
                          {"family": "bind", "shape": c["shape"]})
        # whatever the spelling: the host that is bound decides the family (an address with a colon is an IPv6 address)
        if isinstance(o.get("bind"), tuple) and (o.get("family") == socket.AF_INET6) != (":" in o["bind"][0]):
            ctx.violation("bind_family", c, {"family": int(o.get("family", -1)), "bound": o.get("bind")}, {"family": "bind", "shape": c["shape"]})
        if model is not None:
            ctx.disagreements_checked += 1
            m = model[i].get("ok", {})
            if m.get("kind") == "unix":
                mm = (socket.AF_UNIX, m["path"])
            elif m.get("kind") == "inet":
                mm = (socket.AF_INET6 if m["v6"] else socket.AF_INET, (m["host"], m["port"]))
            else:
                mm = None
            if mm != (o.get("family"), o.get("bind")):
                ctx.disagree("c19.bind", c, m, [int(o.get("family", -1)), o.get("bind")])


# ---- lists of bind strings: `bind` / `insecure_bind` / `quic_bind` are lists, parsed by ONE loop; every entry must produce the
#      socket it produces alone, whatever stands in front of it (a local or an attribute that survives an iteration is invisible
#      to any single bind string and to any list whose port-less entries come first)
LIST_SHAPES = ["host:port", "bare", "[v6]:port", "[v6]", "bare-v6", "bare-v6/host:port", "unix", "fd"]


def _entry(rng, shape: str, k: int) -> str:
    """one bind string of the shape; `k` makes hosts / ports of one list pairwise different (a mixed-up entry is identifiable)"""
    port = rng.choice([rng.randint(1, 7999), rng.randint(8001, 65535)])
    if shape == "host:port":
        return f"{rng.choice(['127.0.0.%d' % (k + 1), 'h%d.example' % k, 'localhost'])}:{port}"
    if shape == "bare":
        return rng.choice(["127.0.1.%d" % (k + 1), "b%d.example" % k, "x%d" % k])
    if shape == "[v6]:port":
        return f"[{rng.choice(['::%x' % (k + 1), 'fe80::%x' % (k + 1), '::'])}]:{port}"
    if shape == "[v6]":
        return f"[{rng.choice(['::%x' % (k + 1), '2001:db8::%x' % (k + 1)])}]"
    if shape == "bare-v6":
        return rng.choice(["fe80::a%x" % k, "2001:db8::b%x" % k, "%x::" % (k + 1)])
    if shape == "bare-v6/host:port":
        return rng.choice(["fe80::%d" % (k + 1), "::ffff:c000:%d" % (200 + k)])
    if shape == "unix":
        return f"unix:/nonexistent-c19/{k}.sock"
    return f"fd://{3 + k}"


def gen_bind_lists(ctx: Ctx) -> List[dict]:
    rng = ctx.rng
    out: List[dict] = []

    def lst(shapes: List[str], type_: str, setting: str = "bind") -> dict:
        return {"setting": setting, "type": type_, "shapes": list(shapes), "binds": [_entry(rng, sh, k) for k, sh in enumerate(shapes)]}

    # every ordered pair of shapes (exhaustive), stream; datagram for the pairs of inet shapes
    for a in LIST_SHAPES:
        for b in LIST_SHAPES:
            out.append({"family": "binds", "via": "_create_sockets", "lists": [lst([a, b], "stream")]})
            if "unix" not in (a, b) and (ctx.tier == "thorough" or rng.random() < 0.4):
                out.append({"family": "binds", "via": "_create_sockets", "lists": [lst([a, b], "dgram", "quic_bind")]})
    # something that is no inet bind between an entry that names a port and one that does not, and longer lists
    for mid in ("unix", "fd"):
        for a in ("host:port", "[v6]:port"):
            for b in ("bare", "[v6]", "bare-v6"):
                out.append({"family": "binds", "via": "_create_sockets", "lists": [lst([a, mid, b], "stream")]})
    for _ in range(ctx.budget(40, 2000)):
        shapes = [rng.choice(LIST_SHAPES) for _ in range(rng.randint(3, 6))]
        type_ = rng.choice(["stream", "stream", "dgram"])
        out.append({"family": "binds", "via": "_create_sockets", "lists": [lst(shapes, type_, "quic_bind" if type_ == "dgram" else "bind")]})
    # the three settings together through `Config.create_sockets()` (TLS configured: bind -> secure, insecure_bind, quic_bind)
    for _ in range(ctx.budget(24, 600)):
        ls = []
        for setting, type_ in (("bind", "stream"), ("insecure_bind", "stream"), ("quic_bind", "dgram")):
            shapes = [rng.choice([x for x in LIST_SHAPES if x != "fd" and (type_ == "stream" or x != "unix")]) for _ in range(rng.randint(1, 3))]
            ls.append(lst(shapes, type_, setting))
        out.append({"family": "binds", "via": "create_sockets", "lists": ls})
    return out


def check_bind_lists(ctx: Ctx, cases: List[dict]) -> None:
    obs = []
    for c in cases:
        try:
            if c["via"] == "create_sockets":
                def call(cfg, c=c):
                    cfg.certfile, cfg.keyfile = "cert.pem", "key.pem"
                    for l in c["lists"]:
                        setattr(cfg, l["setting"], list(l["binds"]))
                    return cfg.create_sockets()
                with warnings.catch_warnings():
                    warnings.simplefilter("ignore")
                    obs.append(_record_binds([], call=call))
                # the object that made these sockets is gone: a Config() made now answers like any other
                _fresh_probe(ctx, c, "create_sockets() of another Config object with bind + insecure_bind + quic_bind under TLS")
            else:
                l = c["lists"][0]
                obs.append(_record_binds(list(l["binds"]), socket.SOCK_DGRAM if l["type"] == "dgram" else socket.SOCK_STREAM))
        except Exception as e:
            obs.append(repr(e))
    model = ctx.model([{"cmd": "c19.binds", "binds": l["binds"]} for c in cases for l in c["lists"]])
    mi = 0
    for c, o in zip(cases, obs):
        ctx.evaluations += 1
        n = sum(len(l["binds"]) for l in c["lists"])
        ctx.count("binds.via", c["via"])
        ctx.count("binds.entries", n)
        for l in c["lists"]:
            ctx.distinct(["binds", c["via"], l["setting"], l["type"], "+".join(l["shapes"][:3])])
            for a, b in zip(l["shapes"], l["shapes"][1:]):
                ctx.count("binds.adjacent", f"{a} , {b}")
        ctx.sample(c, cap=4)
        sig = {"family": "binds", "via": c["via"]}
        if isinstance(o, str):
            ctx.violation("bind_rejected", c, {"error": o}, sig)
            mi += len(c["lists"])
            continue
        if len(o) != n:
            ctx.violation("bind_list_sockets", c, {"sockets": len(o), "entries": n}, sig)
            mi += len(c["lists"])
            continue
        at = 0
        for li, l in enumerate(c["lists"]):
            want_type = socket.SOCK_DGRAM if l["type"] == "dgram" else socket.SOCK_STREAM
            where = {"bind": "secure_sockets", "insecure_bind": "insecure_sockets", "quic_bind": "quic_sockets"}[l["setting"]]
            m = None
            if model is not None:
                m = model[mi].get("ok")
            mi += 1
            for i, (b, sh) in enumerate(zip(l["binds"], l["shapes"])):
                r = o[at]
                at += 1
                want = _intended(sh, b, r)
                got = (r.get("family"), r.get("bind"))
                bad = got != want or (sh != "fd" and r.get("type") != want_type)
                if c["via"] == "create_sockets":
                    bad = bad or r.get("returned_in") != where
                else:
                    bad = bad or r.get("returned_at") != i or (sh == "fd" and r.get("fileno") != int(b[5:]))
                if bad:
                    # the same string alone: is it the position in the list that matters?
                    try:
                        alone = _record_bind(b, want_type)
                        alone = [int(alone.get("family", -1)), alone.get("bind")]
                    except Exception as e:
                        alone = repr(e)
                    ctx.violation("bind_list_entry", c,
                                  {"setting": l["setting"], "index": i, "entry": b, "shape": sh, "in_front": l["binds"][:i],
                                   "got": [int(r.get("family", -1)), r.get("bind"), int(r.get("type", -1)), r.get("returned_in", r.get("returned_at"))],
                                   "want": [int(want[0]), want[1], int(want_type)], "alone": alone},
                                  dict(sig, shape=sh, after="+".join(sorted(set(l["shapes"][:i]))) or "-"))
                if isinstance(r.get("bind"), tuple) and (r.get("family") == socket.AF_INET6) != (":" in r["bind"][0]):
                    ctx.violation("bind_family", c, {"index": i, "entry": b, "family": int(r.get("family", -1)), "bound": r.get("bind")}, dict(sig, shape=sh))
                if m is not None:
                    ctx.disagreements_checked += 1
                    e = m[i] if i < len(m) else {}
                    if e.get("kind") == "unix":
                        mm = (socket.AF_UNIX, e["path"])
                    elif e.get("kind") == "inet":
                        mm = (socket.AF_INET6 if e["v6"] else socket.AF_INET, (e["host"], e["port"]))
                    elif e.get("kind") == "fd":
                        mm = (-1, None)
                        if e.get("fd") != r.get("fileno"):
                            mm = None
                    else:
                        mm = None
                    if mm != got:
                        ctx.disagree("c19.binds", dict(c, index=i, entry=b), e, [int(r.get("family", -1)), r.get("bind")])


def check_real_sockets(ctx: Ctx) -> None:
    """A few real sockets: family, type and address as the OS reports them (runtime behaviour, sampled)."""
    from hypercorn.config import Config
    rng = ctx.rng
    tmpd = tempfile.mkdtemp(prefix="c19s")
    trials = []
    for _ in range(4):
        trials.append((f"127.0.0.1:{rng.randint(20000, 60000)}", socket.AF_INET))
    trials.append(("127.0.0.1", socket.AF_INET))  # port 8000 may be taken: tolerated below
    v6 = False
    if socket.has_ipv6:
        try:
            probe = socket.socket(socket.AF_INET6, socket.SOCK_STREAM)
            probe.bind(("::1", 0))
            probe.close()
            v6 = True
        except OSError:
            ctx.count("sockets.oserror", "no usable IPv6 on this machine")
    if v6:
        trials.append((f"[::1]:{rng.randint(20000, 60000)}", socket.AF_INET6))
        trials.append(("::", socket.AF_INET6))             # bare IPv6 host without brackets (port 8000 may be taken: tolerated below)
        trials.append(("[::1]", socket.AF_INET6))
    trials.append((f"unix:{tmpd}/s.sock", socket.AF_UNIX))
    for bind, fam in trials:
        try:
            socks = Config()._create_sockets([bind])
        except socket.gaierror as e:
            # the address cannot be resolved for the family the socket was created with
            ctx.violation("socket_created", {"family": "socket", "bind": bind}, repr(e), {"family": "socket", "error": "gaierror"})
            continue
        except OSError as e:
            ctx.count("sockets.oserror", type(e).__name__)
            continue
        s = socks[0]
        ctx.evaluations += 1
        ctx.distinct(["socket", fam.name])
        name = s.getsockname()
        ok = s.family == fam and s.type == socket.SOCK_STREAM
        if fam == socket.AF_UNIX:
            ok = ok and name == bind[5:]
        elif bind not in ("::", "[::1]") and ":" in bind.replace("[::1]", ""):
            ok = ok and name[1] == int(bind.rsplit(":", 1)[1])
        if not ok:
            ctx.violation("socket_created", {"family": "socket", "bind": bind}, {"family": int(s.family), "name": name}, {"family": "socket"})
        s.close()
    # fd://
    src = socket.socket(socket.AF_INET, socket.SOCK_STREAM)
    src.bind(("127.0.0.1", 0))
    try:
        socks = Config()._create_sockets([f"fd://{src.fileno()}"])
        ctx.evaluations += 1
        ctx.distinct(["socket", "fd"])
        if socks[0].getsockname() != src.getsockname() or socks[0].type != socket.SOCK_STREAM:
            ctx.violation("socket_created", {"family": "socket", "bind": "fd://N"}, socks[0].getsockname(), {"family": "socket", "shape": "fd"})
        socks[0].detach()
    finally:
        src.close()
    try:
        os.unlink(f"{tmpd}/s.sock")
    except OSError:
        pass
    os.rmdir(tmpd)


# --------------------------------------------------------------------------------------------------------------
# date + response headers
# --------------------------------------------------------------------------------------------------------------
IMF = re.compile(r"^(Mon|Tue|Wed|Thu|Fri|Sat|Sun), (\d\d) (Jan|Feb|Mar|Apr|May|Jun|Jul|Aug|Sep|Oct|Nov|Dec) (\d{4}) (\d\d):(\d\d):(\d\d) GMT$")


def check_dates(ctx: Ctx) -> None:
    from wsgiref.handlers import format_date_time
    rng = ctx.rng
    ts = [0, 1, 59, 60, 86399, 86400, 5000, 951782400, 951868799, 951868800, 4102444799, 4102444800, 253402300799, 253402214400,
          68169600 - 1, 68169600, 1709164800, 1709251199]
    ts += [rng.randint(0, 253402300799) for _ in range(ctx.budget(1500, 60000))]
    ts += [rng.randint(1_600_000_000, 2_000_000_000) for _ in range(ctx.budget(500, 20000))]
    model = ctx.model([{"cmd": "c19.date", "t": t} for t in ts])
    for i, t in enumerate(ts):
        s = format_date_time(t)
        ctx.evaluations += 1
        m = IMF.match(s)
        ok = bool(m) and len(s) == 29
        if ok:
            dt = email.utils.parsedate_to_datetime(s)
            ok = int(dt.timestamp()) == t
        if not ok:
            ctx.violation("date_wellformed", {"family": "date", "t": t}, s, {"family": "date"})
        if model is not None:
            ctx.disagreements_checked += 1
            if model[i].get("ok") != s:
                ctx.disagree("c19.date", {"family": "date", "t": t}, model[i], s)
    ctx.count("date.samples", "n", len(ts))
    ctx.distinct(["date", "boundaries"])
    ctx.distinct(["date", "random"])


def check_headers(ctx: Ctx) -> None:
    from hypercorn.config import Config
    reqs, metas = [], []
    for inc_d in (True, False):
        for inc_s in (True, False):
            for alt in ([], ['h3=":443"; ma=3600'], ["a", "b"]):
                for proto in ("h11", "h2", "h3"):
                    c = Config()
                    c.include_date_header, c.include_server_header, c.alt_svc_headers = inc_d, inc_s, alt
                    case = {"family": "headers", "include_date": inc_d, "include_server": inc_s, "alt_svc": alt, "protocol": proto}
                    try:
                        hs = c.response_headers(proto)
                    except Exception as e:      # a configuration that cannot answer at all (never a harness error)
                        ctx.evaluations += 1
                        ctx.violation("response_headers", case, {"error": repr(e)}, {"family": "headers", "kind": "raises"})
                        continue
                    ctx.evaluations += 1
                    ctx.distinct(["headers", inc_d, inc_s, len(alt), proto])
                    names = [n for n, _ in hs]
                    date = dict(hs).get(b"date", b"")
                    ok = (names == ([b"date"] if inc_d else []) + ([b"server"] if inc_s else []) + [b"alt-svc"] * len(alt)
                          and (not inc_d or IMF.match(date.decode()))
                          and (not inc_s or dict(hs)[b"server"] == f"hypercorn-{proto}".encode())
                          and [v for n, v in hs if n == b"alt-svc"] == [a.encode() for a in alt])
                    if not ok:
                        ctx.violation("response_headers", case, [[b2s(n), b2s(v)] for n, v in hs], {"family": "headers"})
                    reqs.append({"cmd": "c19.headers", "include_date": inc_d, "include_server": inc_s, "alt_svc": alt,
                                 "date": b2s(date), "protocol": proto})
                    metas.append((case, hs))
    ctx.extra["header_switch_grid_exhaustive"] = True
    model = ctx.model(reqs)
    if model is not None:
        for m, (case, hs) in zip(model, metas):
            ctx.disagreements_checked += 1
            if m.get("ok") != [[b2s(n), b2s(v)] for n, v in hs]:
                ctx.disagree("c19.headers", case, m, hs)


# --------------------------------------------------------------------------------------------------------------
# histories: several Config objects in one process, operations in any order
# --------------------------------------------------------------------------------------------------------------
# "The server's response headers are ... the server/alt-svc values the configuration asks for": the configuration is ONE object.
# What it asks for is its own switches, its own alt-svc values and - when it names none - the QUIC sockets its own last
# create_sockets() made (that is where `alt-svc: h3=":<port>"` comes from).  Nothing another Config object did, and nothing an earlier
# create_sockets() of the same object did, may show.  A history is a list of operations on objects 0, 1, 2 …:
#   {"op": "new", "via": "attrs" | "mapping" | "kwargs", "init": {key: value}}      Config() / Config.from_mapping(init) / (**init)
#   {"op": "set", "obj": i, "key": k, "value": v [, "ports": [...]]}                 setattr; key "tls" sets certfile + keyfile
#   {"op": "create_sockets", "obj": i}
# and after EVERY operation the headers and the public settings of EVERY object are compared with what the object's own
# operations ask for (computed here, independently of the Lean model), and with the model run on the same history (`c19.history`).
HISTORY_KEYS = ("include_date_header", "include_server_header", "alt_svc_headers", "quic_bind", "bind", "insecure_bind", "server_names", "tls")


def _h3_alpn(ctx: Optional[Ctx] = None) -> List[str]:
    """`response_headers` imports the optional aioquic only for the constant `H3_ALPN` (the HTTP/3 ALPN tokens).  Where aioquic is
    not installed a stand-in module carrying that one constant is registered (no hypercorn name is touched), so that a
    configuration with QUIC sockets can render its headers."""
    try:
        from aioquic.h3.connection import H3_ALPN
        kind = "stand-in" if getattr(sys.modules.get("aioquic"), "__verif_standin__", False) else "aioquic"
    except ImportError:
        import types
        for name in ("aioquic", "aioquic.h3", "aioquic.h3.connection"):
            sys.modules[name] = types.ModuleType(name)
        sys.modules["aioquic"].__verif_standin__ = True  # type: ignore[attr-defined]
        sys.modules["aioquic.h3.connection"].H3_ALPN = ["h3"]  # type: ignore[attr-defined]
        H3_ALPN, kind = ["h3"], "stand-in"
    if ctx is not None:
        ctx.extra["h3_alpn"] = {"source": kind, "value": list(H3_ALPN)}
    return list(H3_ALPN)


def _public_snapshot(config) -> Dict[str, str]:
    return {k: v for k, v in snapshot(config).items() if not k.startswith("_")}


_PRISTINE: Dict[str, Any] = {}


def _pristine(reset: bool = False) -> Dict[str, str]:
    """the public settings of the first `Config()` this process made for C19 (before any family ran)"""
    if reset or "snap" not in _PRISTINE:
        from hypercorn.config import Config
        _PRISTINE["snap"] = _public_snapshot(Config())
    return _PRISTINE["snap"]


def _fresh_probe(ctx: Ctx, case: dict, after: str) -> bool:
    """A `Config()` made now answers like the first one did: date and server only, the default settings.  If it does not, what ran
    before (`case`) has left state behind that every later object sees; the module is then re-imported so that what follows is
    judged on its own."""
    import hypercorn.config as hc
    _h3_alpn()
    ctx.evaluations += 1
    try:
        c = hc.Config()
        hs = c.response_headers("h2")
        got = [[b2s(n), b2s(v)] for n, v in hs if n != b"date"]
        snap = _public_snapshot(c)
    except Exception as e:
        got, snap = repr(e), {}
    want = [["server", "hypercorn-h2"]]
    diff = {k: [_pristine().get(k), snap.get(k)] for k in set(_pristine()) | set(snap) if _pristine().get(k) != snap.get(k)} if snap else {}
    if got == want and not diff:
        return True
    ctx.violation("config_fresh_instance", case, {"after": after, "fresh_config_headers": got, "want": want, "settings_changed": diff},
                  {"family": case.get("family"), "after": after})
    importlib.reload(hc)
    return False


def _hist_new_state() -> Dict[str, Any]:
    return {"include_date_header": True, "include_server_header": True, "alt_svc_headers": [], "quic_bind": [], "quic_bind_ports": [],
            "tls": False, "quic_ports": [], "sets": {}}


def _hist_apply_intent(st: Dict[str, Any], key: str, value: Any, ports: Optional[list]) -> None:
    if key == "tls":
        st["tls"] = bool(value)
        st["sets"]["certfile"] = "cert.pem" if value else None
        st["sets"]["keyfile"] = "key.pem" if value else None
        return
    st["sets"][key] = value
    if key in st:
        st[key] = value
    if key == "quic_bind":
        st["quic_bind_ports"] = list(ports or [])


def _hist_want_headers(st: Dict[str, Any], proto: str, alpn: List[str]) -> List[List[str]]:
    out = []
    if st["include_date_header"]:
        out.append(["date", "<date>"])
    if st["include_server_header"]:
        out.append(["server", f"hypercorn-{proto}"])
    if st["alt_svc_headers"]:
        out += [["alt-svc", a] for a in st["alt_svc_headers"]]
    else:
        out += [["alt-svc", f'{v}=":{p}"; ma=3600'] for v in alpn for p in st["quic_ports"]]
    return out


def _hist_real_set(cfg, key: str, value: Any) -> None:
    if key == "tls":
        cfg.certfile, cfg.keyfile = ("cert.pem", "key.pem") if value else (None, None)
    else:
        setattr(cfg, key, list(value) if isinstance(value, list) else value)


def gen_histories(ctx: Ctx) -> List[dict]:
    rng = ctx.rng
    import itertools
    ports = itertools.cycle(rng.sample(range(20000, 60000), 40000))     # distinct within any one history

    def qb(n: int = 1, unix: bool = False) -> Tuple[List[str], List[Optional[int]]]:
        binds: List[str] = []
        pts: List[Optional[int]] = []
        for _ in range(n):
            pt = next(ports)
            binds.append(rng.choice([f"127.0.0.1:{pt}", f"[::1]:{pt}", f"q{pt % 7}.example:{pt}", f"0.0.0.0:{pt}"]))
            pts.append(pt)
        if unix:
            binds.insert(rng.randrange(len(binds) + 1), "unix:/nonexistent-c19/quic.sock")
            pts.insert(binds.index("unix:/nonexistent-c19/quic.sock"), None)
        return binds, pts

    def new(via: str = "attrs", **init: Any) -> dict:
        return {"op": "new", "via": via, "init": init}

    def set_(i: int, key: str, value: Any, pts: Optional[list] = None) -> dict:
        o = {"op": "set", "obj": i, "key": key, "value": value}
        if pts is not None:
            o["ports"] = pts
        return o

    def quic(i: int, n: int = 1, unix: bool = False) -> dict:
        b, p = qb(n, unix)
        return set_(i, "quic_bind", b, p)

    def cs(i: int) -> dict:
        return {"op": "create_sockets", "obj": i}

    def tls(i: int, on: bool = True) -> dict:
        return set_(i, "tls", on)

    def tls_quic_new(via: str, n: int = 1) -> dict:
        b, p = qb(n)
        o = new(via, certfile="cert.pem", keyfile="key.pem", quic_bind=b)
        o["ports"] = p
        return o

    out: List[dict] = []

    def hist(shape: str, ops: List[dict], sockets: str = "recorded", proto: Optional[str] = None) -> None:
        out.append({"family": "history", "shape": shape, "sockets": sockets, "protocol": proto or rng.choice(["h11", "h2", "h3"]), "ops": ops})

    # one object with TLS + QUIC, another object afterwards
    hist("other-object-after", [new(), tls(0), quic(0), cs(0), new()])
    hist("other-object-before", [new(), new(), tls(0), quic(0), cs(0)])
    hist("other-object-serves", [new(), tls(0), quic(0), cs(0), new(), set_(1, "bind", [f"127.0.0.1:{next(ports)}"]), cs(1)])
    hist("other-object-from-mapping", [tls_quic_new("mapping"), cs(0), new("mapping", include_server_header=False), new("kwargs")])
    hist("two-quic-objects", [new(), tls(0), quic(0), new(), tls(1), quic(1, 2), cs(0), cs(1), cs(0)])
    hist("other-object-alt-svc", [new(), tls(0), quic(0), cs(0), new(), set_(1, "alt_svc_headers", ['h2=":443"']), set_(1, "alt_svc_headers", [])])
    # the same object again: restart, second serve()
    hist("again-same-bind", [new(), tls(0), quic(0), cs(0), cs(0)])
    hist("again-other-bind", [new(), tls(0), quic(0), cs(0), quic(0), cs(0)])
    hist("again-fewer", [new(), tls(0), quic(0, 3), cs(0), quic(0, 1), cs(0)])
    hist("again-none", [new(), tls(0), quic(0, 2), cs(0), set_(0, "quic_bind", [], []), cs(0)])
    hist("again-three-times", [tls_quic_new("kwargs", 2), cs(0), cs(0), cs(0)])
    # switches and alt-svc values of one object around its sockets
    hist("alt-svc-overrides", [new(), tls(0), quic(0), cs(0), set_(0, "alt_svc_headers", ['h3=":443"; ma=60', "x"]), set_(0, "alt_svc_headers", [])])
    hist("switches", [new(), set_(0, "include_date_header", False), new(), set_(1, "include_server_header", False), tls(1), quic(1), cs(1),
                      set_(0, "include_date_header", True), new()])
    hist("unix-quic", [new(), tls(0), quic(0, 2, unix=True), cs(0), new()])
    hist("tls-off-again", [new(), tls(0), quic(0, 2), cs(0), tls(0, False), cs(0), new(), tls(0), cs(0)])
    hist("no-tls-no-quic-sockets", [new(), quic(0), cs(0), new(), tls(1), quic(1), cs(1), cs(0)])
    hist("lists-of-one-object", [new(), set_(0, "server_names", ["a.example"]), set_(0, "bind", [f"127.0.0.1:{next(ports)}"]),
                                 set_(0, "insecure_bind", [f"127.0.0.1:{next(ports)}"]), tls(0), cs(0), new(), cs(1)])
    # real sockets on loopback (port 0: the port is what the OS gives, read from the socket create_sockets() returned)
    hist("real-other-object", [new(), tls(0), set_(0, "bind", ["127.0.0.1:0"]), set_(0, "quic_bind", ["127.0.0.1:0"], [0]), cs(0), new(),
                               set_(1, "bind", ["127.0.0.1:0"]), cs(1)], sockets="real", proto="h11")
    hist("real-again", [new(), tls(0), set_(0, "bind", ["127.0.0.1:0"]), set_(0, "quic_bind", ["127.0.0.1:0", "127.0.0.1:0"], [0, 0]), cs(0), cs(0),
                        new()], sockets="real", proto="h2")
    # random histories
    for _ in range(ctx.budget(60, 1500)):
        ops: List[dict] = [new(rng.choice(["attrs", "attrs", "mapping", "kwargs"]))]
        n_obj, tls_on, served = 1, {0: False}, set()
        for _ in range(rng.randint(4, 14)):
            i = rng.randrange(n_obj)
            r = rng.random()
            if r < 0.12 and n_obj < 4:
                if rng.random() < 0.5:
                    ops.append(tls_quic_new(rng.choice(["mapping", "kwargs"]), rng.randint(1, 2)))
                    tls_on[n_obj] = True
                else:
                    ops.append(new(rng.choice(["attrs", "mapping", "kwargs"])))
                    tls_on[n_obj] = False
                n_obj += 1
            elif r < 0.30:
                # (TLS may be switched OFF again on an object that has made sockets under TLS: its next create_sockets() records
                # that it has no QUIC socket - F117)
                on = rng.random() < 0.8
                ops.append(tls(i, on))
                tls_on[i] = on
            elif r < 0.50:
                ops.append(quic(i, rng.randint(1, 3), unix=rng.random() < 0.1) if rng.random() < 0.85 else set_(i, "quic_bind", [], []))
            elif r < 0.78:
                ops.append(cs(i))
                if tls_on[i]:
                    served.add(i)
            elif r < 0.86:
                ops.append(set_(i, "alt_svc_headers", rng.choice([[], [], ['h3=":443"; ma=3600'], ["a", "b"]])))
            elif r < 0.93:
                ops.append(set_(i, rng.choice(["include_date_header", "include_server_header"]), rng.random() < 0.5))
            else:
                ops.append(set_(i, rng.choice(["bind", "insecure_bind"]), [f"127.0.0.1:{next(ports)}" for _ in range(rng.randint(1, 2))]))
        hist("random", ops)
    return out


def check_histories(ctx: Ctx, cases: List[dict]) -> None:
    import hypercorn.config as hc
    alpn = _h3_alpn(ctx)
    reqs: List[Optional[dict]] = []
    observed: List[Optional[list]] = []
    for c in cases:
        _fresh_probe(ctx, {"family": "history-probe"}, "whatever ran before this history")
        proto = c["protocol"]
        cfgs: List[Any] = []
        sts: List[Dict[str, Any]] = []
        open_socks: List[Any] = []
        mops: List[dict] = []
        per_op: List[list] = []
        sig = {"family": "history", "shape": c["shape"]}
        ctx.distinct(["history", c["shape"], "+".join(o["op"][0] + (o.get("key", "")[:1]) for o in c["ops"])[:80]])
        ctx.count("history.shape", c["shape"])
        ctx.count("history.ops", len(c["ops"]))
        ctx.sample(c, cap=5)
        failed = False
        rec = _Recording(socket.SOCK_DGRAM) if c["sockets"] == "recorded" else None
        try:
            if rec is not None:
                rec.__enter__()
            for k, op in enumerate(c["ops"]):
                ctx.count("history.op", op["op"] + (":" + op["key"] if op["op"] == "set" else ""))
                try:
                    with warnings.catch_warnings():
                        warnings.simplefilter("ignore")
                        if op["op"] == "new":
                            init = dict(op.get("init") or {})
                            if op["via"] == "mapping":
                                cfg = hc.Config.from_mapping(init)
                            elif op["via"] == "kwargs":
                                cfg = hc.Config.from_mapping(**init)
                            else:
                                cfg = hc.Config()
                                for kk, vv in init.items():
                                    setattr(cfg, kk, vv)
                            cfgs.append(cfg)
                            st = _hist_new_state()
                            for kk, vv in init.items():
                                if kk in ("certfile", "keyfile"):
                                    st["sets"][kk] = vv
                                else:
                                    _hist_apply_intent(st, kk, vv, op.get("ports"))
                            st["tls"] = init.get("certfile") is not None and init.get("keyfile") is not None
                            sts.append(st)
                            mops.append({"op": "new"})
                            j = len(sts) - 1
                            for kk, mk in (("include_date_header", "set_date"), ("include_server_header", "set_server")):
                                if kk in init:
                                    mops.append({"op": mk, "obj": j, "value": bool(init[kk])})
                            if "alt_svc_headers" in init:
                                mops.append({"op": "set_alt_svc", "obj": j, "value": init["alt_svc_headers"]})
                            if st["tls"]:
                                mops.append({"op": "set_ssl", "obj": j, "value": True})
                        elif op["op"] == "set":
                            j = op["obj"]
                            _hist_real_set(cfgs[j], op["key"], op["value"])
                            _hist_apply_intent(sts[j], op["key"], op["value"], op.get("ports"))
                            mk = {"include_date_header": "set_date", "include_server_header": "set_server", "alt_svc_headers": "set_alt_svc", "tls": "set_ssl"}.get(op["key"])
                            if mk is not None:
                                mops.append({"op": mk, "obj": j, "value": op["value"]})
                        elif op["op"] == "create_sockets":
                            j = op["obj"]
                            if c["sockets"] == "real":
                                for sk in open_socks:
                                    sk.close()
                                open_socks.clear()
                            made = cfgs[j].create_sockets()
                            quic_ports = [sk.getsockname()[1] for sk in made.quic_sockets if not isinstance(sk.getsockname(), str)]
                            if c["sockets"] == "real":
                                open_socks += list(made.secure_sockets) + list(made.insecure_sockets) + list(made.quic_sockets)
                            if sts[j]["tls"]:
                                # what THIS call made: the ports the entries of the object's own quic_bind name (the OS's choice for port 0)
                                want_ports = [p for p in sts[j]["quic_bind_ports"] if p is not None]
                                if c["sockets"] == "real":
                                    want_ports = quic_ports if len(quic_ports) == len(want_ports) else want_ports
                                sts[j]["quic_ports"] = want_ports
                                if quic_ports != want_ports:
                                    ctx.violation("config_history_sockets", c, {"op_index": k, "object": j, "quic_sockets_report": quic_ports,
                                                                                "quic_bind": sts[j]["quic_bind"], "want_ports": want_ports}, sig)
                            else:
                                # without TLS this call makes no QUIC socket: whatever an earlier call (under TLS) made is not
                                # the object's any more and must not be advertised (F117, repaired in /repo)
                                sts[j]["quic_ports"] = []
                                if quic_ports:
                                    ctx.violation("config_history_sockets", c, {"op_index": k, "object": j, "quic_sockets_report": quic_ports,
                                                                                "want": "no QUIC socket without TLS"}, sig)
                            mops.append({"op": "create_sockets", "obj": j, "quic": quic_ports})
                        else:
                            raise ValueError(f"unknown operation {op}")
                except Exception as e:
                    ctx.violation("config_history_error", c, {"op_index": k, "op": op, "error": repr(e)}, dict(sig, op=op["op"]))
                    failed = True
                    break
                # after every operation: every object answers for itself
                now: List[Any] = []
                for j, (cfg, st) in enumerate(zip(cfgs, sts)):
                    ctx.evaluations += 1
                    try:
                        hs = cfg.response_headers(proto)
                        got = [[b2s(n), b2s(v)] for n, v in hs]
                        date_ok = all(IMF.match(v) for n, v in got if n == "date")
                        got = [[n, "<date>" if n == "date" and date_ok else v] for n, v in got]
                    except Exception as e:
                        got = repr(e)
                    now.append(got)
                    want = _hist_want_headers(st, proto, alpn)
                    if got != want and not failed:
                        failed = True
                        foreign = sorted({(jj, p) for jj, st2 in enumerate(sts) for p in st2["quic_bind_ports"] if jj != j and p is not None
                                          and isinstance(got, list) and any(f':{p}"' in v for n, v in got if n == "alt-svc")})
                        ctx.violation("config_history_headers", c,
                                      {"op_index": k, "op": op, "object": j, "protocol": proto, "got": got, "want": want,
                                       "own_quic_ports_of_last_create_sockets": st["quic_ports"],
                                       "ports_of_other_objects_advertised": [{"object": a, "port": b} for a, b in foreign],
                                       "history_so_far": c["ops"][:k + 1]},
                                      dict(sig, kind=("raises" if isinstance(got, str) else "foreign-port" if foreign else
                                                      "stale-or-duplicate" if isinstance(got, list) and len(got) > len(want) else "other")))
                    try:
                        snap = _public_snapshot(cfg)
                    except Exception as e:
                        snap = {"<snapshot>": repr(e)}
                    wants = dict(_pristine())
                    for kk, vv in st["sets"].items():
                        wants[kk] = repr(vv)
                    diff = {kk: [wants.get(kk), snap.get(kk)] for kk in set(wants) | set(snap) if wants.get(kk) != snap.get(kk)}
                    if diff and not failed:
                        failed = True
                        ctx.violation("config_history_settings", c, {"op_index": k, "op": op, "object": j, "differs [want, got]": diff,
                                                                     "history_so_far": c["ops"][:k + 1]}, dict(sig, keys="+".join(sorted(diff))[:80]))
                per_op.append(now)
        finally:
            if rec is not None:
                rec.__exit__(None, None, None)
            for sk in open_socks:
                try:
                    sk.close()
                except OSError:
                    pass
        if len(per_op) == len(c["ops"]):
            reqs.append({"cmd": "c19.history", "alpn": alpn, "date": "<date>", "protocol": proto, "ops": mops,
                         "_marks": None})
            # the model answers after each of ITS operations; a `new` with initial settings is several of them: keep the last
            marks, at = [], 0
            for op in c["ops"]:
                n = 1
                if op["op"] == "new":
                    init = op.get("init") or {}
                    n = 1 + sum(1 for kk in ("include_date_header", "include_server_header", "alt_svc_headers") if kk in init) + \
                        (1 if init.get("certfile") is not None and init.get("keyfile") is not None else 0)
                elif op["op"] == "set" and op["key"] not in ("include_date_header", "include_server_header", "alt_svc_headers", "tls"):
                    n = 0
                at += n
                marks.append(at - 1)
            reqs[-1]["_marks"] = marks
            observed.append(per_op)
        else:
            reqs.append(None)
            observed.append(None)
        _fresh_probe(ctx, c, "this history")
    live = [(c, r, o) for c, r, o in zip(cases, reqs, observed) if r is not None]
    model = ctx.model([{k: v for k, v in r.items() if k != "_marks"} for _, r, _ in live])
    if model is not None:
        for m, (c, r, o) in zip(model, live):
            ctx.disagreements_checked += 1
            ans = m.get("ok")
            if ans is None:
                ctx.disagree("c19.history", c, m, o)
                continue
            picked = [ans[i] if 0 <= i < len(ans) else [] for i in r["_marks"]]
            if picked != o:
                k = next((i for i, (a, b) in enumerate(zip(picked, o)) if a != b), -1)
                ctx.disagree("c19.history", dict(c, first_difference_after_op=k), picked[k] if k >= 0 else picked, o[k] if k >= 0 else o)


def run(ctx: Ctx) -> None:
    _h3_alpn(ctx)
    _pristine()
    check_cli(ctx)
    check_loaders(ctx)
    check_binds(ctx, gen_binds(ctx))
    check_bind_lists(ctx, gen_bind_lists(ctx))
    check_real_sockets(ctx)
    check_dates(ctx)
    check_headers(ctx)
    check_histories(ctx, gen_histories(ctx))


def replay(ctx: Ctx, case: dict) -> None:
    fam = case.get("family")
    if fam == "bind":
        check_binds(ctx, [case])
    elif fam == "binds":
        _h3_alpn(ctx)
        _pristine()
        check_bind_lists(ctx, [case])
    elif fam == "history":
        _h3_alpn(ctx)
        _pristine()
        check_histories(ctx, [case])
    elif fam == "date":
        from wsgiref.handlers import format_date_time
        s = format_date_time(case["t"])
        if not IMF.match(s):
            ctx.violation("date_wellformed", case, s, {"family": "date"})
    else:
        run(ctx)
