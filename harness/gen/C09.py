"""C09 — HTTP/2 flow control is respected; multiplexed delivery is live and ordered.

Layer 1 (direct): the real `H2Protocol` (real HTTPStream objects, real send task, real StreamBuffers, h2, priority) driven
in-process under a seeded schedule (`harness/core/h2drive.py`): 1-6 streams, windows from 0 to 1 MiB, WINDOW_UPDATE /
SETTINGS / MAX_FRAME_SIZE / PRIORITY (before HEADERS, exclusive, chains, loops) / RST_STREAM / client EOF / write errors at
random points, extra loop turns at every suspension point.  The op sequence the real code took is reconstructed from taps
and replayed through the Lean model (`h2send.run`: trace acceptance, state compared after every op); the monitors judge
the client's view (independent h2 client + the harness's own frame ledger), the applications' view and step counts.
Layer 2 (end-to-end): the same kind of sessions through `TCPServer` on both workers, judged by the monitors only."""
from __future__ import annotations

import random
from typing import Any, Dict, List

from ..core import clients as C
from ..core import h2drive as H
from ..core import runner as R
from ..core.framework import Ctx

SPEC = {
    "modules": ["HC.Props.C09"],
    "extracted": ["Guards", "Consts", "Excepts", "Atomic", "ReqGlue"],
    "technique": "Lean 4 invariants over all op sequences of an executable model of the HTTP/2 send path (StreamBuffer, stream_send, send_task/_send_data split at its suspension points, _window_updated, _priority_updated, reset, abandon, close; unboundedly many streams; priority.next = any unblocked member): window accounting, no lost wake-up, stall-means-no-credit, END_STREAM once and last, a quiescence theorem (everything delivered where credit exists) and a strictly decreasing measure for the send task; the recovery from a priority tree that schedules a stream it does not know (tree rebuilt from the buffered streams, their blocked status extracted) as a step of an extended machine over which every invariant and theorem is proved; the receive side: upload credit conserved for padded and unpadded DATA frames (acknowledged amount and call counts extracted); tied by trace acceptance of the real H2Protocol's op sequences reconstructed from library taps, plus monitors on an independent h2 client and a raw frame ledger, on both workers end-to-end",
    "level_text": "Proved in Lean for every interleaving of application writes (any sizes), send-task steps (whatever unblocked stream the priority tree returns; _send_data split at both transport flushes), WINDOW_UPDATE, SETTINGS (window up/down, frame size), PRIORITY, RST_STREAM, abandoned responses and connection close, for any number of streams: each DATA frame is at most the frame size, the stream window and the connection window as they stand (chunk computation extracted from _send_data); sent = credit - window on every stream and the connection, so sent never exceeds the credit granted (connection: always; stream: as long as INITIAL_WINDOW_SIZE is not lowered); pushed = sent + buffered + dropped, END_STREAM at most once and only when everything pushed was sent and nothing dropped (END_STREAM guard and StreamBuffer.complete extracted); a parked send task with has_data clear implies every tree member is blocked, and a blocked buffered stream has no credit; at every quiescent state of an open connection every opened, non-reset stream with positive stream and connection window has an empty buffer, all its bytes on the wire and END_STREAM iff the application ended the body (delivered as soon as the windows permit); a stream with data and credit keeps the send task non-quiescent whatever the other streams' states (stalled / reset siblings do not stop it); the send task's ops never set has_data, at deadlock its only op is park, parked with has_data clear it has none, and a measure strictly decreases on each of its ops (no spinning); all of this also over runs in which the priority library hands the send task a stream the tree does not know at any time (rebuild: every buffered stream is a member of the fresh tree and unblocked, nothing else changes); on the receive side every DATA frame - padded or not, for a live or an already completed stream - is acknowledged with exactly its flow-controlled length, so the client's upload windows are conserved over any sequence of frames.  Tie: thousands of generated schedules of the real H2Protocol accepted op by op by the model with equal state projections (buffer, events, pusher, tree membership/blocked, windows, has_data, task pc), monitors on every run.",
    "level_note": "Trusted: Lean kernel; the model HC/Proto/H2Send.lean (tied by trace acceptance); library assumptions sampled by the taps - h2's window arithmetic / which calls raise, priority.next returns an unblocked member of the tree and raises DeadlockError iff none (priority 2.0.0 violates this after a dependency loop is reprioritised: a NON-MEMBER handed out is the modelled `rebuild` step, generated deterministically by the PRIORITY-loop corpus; a BLOCKED member handed out is not modelled - such a run is then only judged by the monitors, counted as libm_ghost_unmodelled in the evidence); how often a fresh PriorityTree can misbehave again is not modelled (each occurrence needs a client PRIORITY frame), so the no-spinning measure excludes the rebuild step - spinning through it is left to the monitors; Event.set/clear do not suspend (extracted from both worker_context.py); the transport serialises writes with a FIFO lock as both TCPServer.protocol_send do; the HTTP/2 client library cannot represent negative receive windows, so SETTINGS decreases that would make a window negative are not sent (the model covers them).",
    "rule": "distinct = (profile, initial window, stream count, application kinds, client action kinds, terminal event, schedule density); non-trivial = a stream stalled with data buffered, or more than one stream, or a reset / priority / settings event",
    "trusted": ["h2 4.4.1 (both roles), priority 2.0.0, hpack", "asyncio scheduling in the direct layer; asyncio and trio in the end-to-end layer"],
    "partial": [],
    "assumptions": ["request HEADERS are not fed after handle(Closed) (the reader has stopped)",
                    "WebSocket-over-HTTP/2 streams are exercised end-to-end (C08) but the abandon rule of the model is the HTTPStream one"],
}

E2E_BODY = {"type": "http.response.body"}


# ------------------------------------------------------------------------------------------------------------
# layer 1
# ------------------------------------------------------------------------------------------------------------
def grid_scenarios() -> List[dict]:
    """two streams, windows 0/1, every order of {push, WINDOW_UPDATE(stream), WINDOW_UPDATE(conn), SETTINGS, RST} up to length 3
    around a write (DESIGN.md C09 search), each with a sibling that must complete"""
    import itertools
    events = [("win", {"do": "win", "sid": 1, "n": 1}), ("winbig", {"do": "win", "sid": 1, "n": 70000}), ("winconn", {"do": "winconn", "n": 70000}),
              ("settings", {"do": "settings", "v": 50000}), ("rst", {"do": "rst", "sid": 1}), ("prio", {"do": "prio", "sid": 1, "dep": 3, "excl": True})]
    out = []
    for iw in (0, 1):
        for k in (1, 2, 3):
            for combo in itertools.permutations(events, k):
                acts: List[dict] = [{"do": "open", "sid": 1, "app": [{"start": 200}, {"body": 40000, "more": True}, {"body": 30000, "more": False}]},
                                    {"do": "open", "sid": 3, "app": [{"start": 200}, {"body": 100, "more": False}]}]
                for _, a in combo:
                    acts.append(dict(a))
                    acts.append({"do": "settle"})
                acts.append({"do": "drain_all"})
                out.append({"seed": iw * 1000 + len(out), "density": 0.3, "trio_like": bool(len(out) % 2), "initial_window": iw, "max_frame": None,
                            "profile": "grid", "actions": acts, "grid": [n for n, _ in combo]})
    return out


def corpus() -> List[dict]:
    """minimised scenarios of the defects this check found (they run first, always)"""
    out = []
    # F70: client RST, PRIORITY puts the stream back into the tree, the application (still writing) unblocks it
    out.append({"seed": 1, "density": 0.0, "initial_window": 100, "profile": "corpus", "corpus": "F70", "actions": [
        {"do": "open", "sid": 1, "app": [{"start": 200}, {"body": 300, "more": True}, {"turns": 30}, {"body": 50, "more": True}, {"turns": 30}, {"body": 50, "more": False}]},
        {"do": "open", "sid": 3, "app": [{"start": 200}, {"turns": 60}, {"body": 50, "more": False}]},
        {"do": "turns", "n": 10}, {"do": "rst", "sid": 1}, {"do": "turns", "n": 5}, {"do": "prio", "sid": 1, "dep": 0}, {"do": "settle"}, {"do": "drain_all"}]})
    # F71: the connection is closed (client EOF) while a DATA frame is being flushed
    for seed in range(6):
        out.append({"seed": seed, "density": 1.0, "profile": "corpus", "corpus": "F71", "terminal": True, "actions": [
            {"do": "open", "sid": 1, "app": [{"start": 200}, {"body": 20000, "more": True}, {"turns": 100}, {"body": 5, "more": False}]},
            {"do": "turns", "n": 6}, {"do": "closed"}, {"do": "settle"}]})
    # F72: a dependency loop resolved by reprioritize leaves a removed stream scheduled (priority 2.0.0)
    out.append({"seed": 1, "density": 0.2, "initial_window": 65535, "profile": "corpus", "corpus": "F72", "actions": [
        {"do": "open", "sid": 1, "app": [{"start": 200}, {"turns": 50}, {"body": 100, "more": False}]},
        {"do": "open", "sid": 3, "app": [{"start": 200}, {"turns": 60}, {"body": 100, "more": False}], "prio": {"dep": 1}},
        {"do": "open", "sid": 5, "app": [{"start": 200}, {"body": 100, "more": False}], "prio": {"dep": 3}},
        {"do": "prio", "sid": 1, "dep": 3}, {"do": "settle"}, {"do": "drain_all"}]})
    # F36: the final send must not return before END_STREAM is written (every write is a checkpoint on trio)
    for seed in range(4):
        out.append({"seed": seed, "density": 1.0, "trio_like": True, "initial_window": 65535, "profile": "corpus", "corpus": "F36", "actions": [
            {"do": "open", "sid": 1, "app": [{"start": 200}, {"body": 70000, "more": False}]}, {"do": "settle"}, {"do": "drain_all"}]})
    # PRIORITY dependency loops with a transfer in progress when the tree is rebuilt (seeded C08-7); uploads in padded DATA frames (C09-8)
    out += H.loop_corpus()
    out += H.upload_corpus()
    return out


def check_direct(ctx: Ctx, scenarios: List[dict], prop: str = "C09") -> None:
    results = []
    for sc in scenarios:
        results.append(H.run_scenario(sc))
    model = ctx.model([H.model_request(r) for r in results])
    high = _high()
    for k, (sc, res) in enumerate(zip(scenarios, results)):
        ctx.evaluations += 1
        _count(ctx, sc, res)
        if res["errors"]:
            ctx.notes.append(f"harness note: {res['errors'][:2]}") if len(ctx.notes) < 5 else None
        if model is not None:
            ctx.disagreements_checked += 1
            d = H.compare(res, model[k])
            if d is None:
                ctx.traces_validated += 1
                bad_hyp = [i for i, st in enumerate(model[k]["ok"]["steps"]) if st.get("ok") is False and (res.get("unmodelled_at") is None or i < res["unmodelled_at"])]
                if bad_hyp:
                    ctx.disagree("h2send: theorem hypothesis (park only at deadlock) does not hold on the implementation's trace", _case(sc), bad_hyp[:3], res["ops"][bad_hyp[0]])
            else:
                ctx.disagree("h2send trace acceptance", _case(sc), d, {"ops_before": res["ops"][max(0, d["at"] - 6): d["at"] + 1]})
        mons = H.monitor_c09(sc, res) if prop == "C09" else H.monitor_c08(sc, res, high)
        for clause, detail, sig in mons:
            ctx.violation(clause, _case(sc), detail, sig)


def _high() -> int:
    from hypercorn.protocol import h2 as hh2
    return int(hh2.BUFFER_HIGH_WATER)


def _case(sc: dict) -> dict:
    return {"layer": "direct", "scenario": sc}


def _count(ctx: Ctx, sc: dict, res: dict) -> None:
    ctx.count("profile", sc.get("profile"))
    ctx.count("initial_window", sc.get("initial_window"))
    ctx.count("density", sc.get("density"))
    ctx.count("streams", len(res["apps"]))
    for o in res["ops"]:
        ctx.count("model_op", o["op"])
    for a in sc["actions"]:
        if a["do"] not in ("settle", "turns"):
            ctx.count("client_action", a["do"])
    for summ in (sc.get("apps") or {}).values():
        ctx.count("app_kind", summ["kind"])
    stalled = any(q["quiet"] and any(n > 0 for n in q["bufs"].values()) for q in res["quiescent"])
    waited = any(o["op"] in ("pushWake", "drainWake") for o in res["ops"]) or any(a["waiting"] for q in res["quiescent"] for a in q["apps"].values())
    ctx.count("stalled_with_data_at_quiescence", stalled)
    ctx.count("a_send_waited", waited)
    if res["client"]["error"] and "shrunk below 0" in res["client"]["error"]:
        ctx.count("oracle_limit(h2 client cannot hold a negative receive window)", 1)
    if res["ghost_at"] is not None:
        ctx.count("libm_ghost(priority.next returned a non-member or a blocked member)", 1)
    if res.get("unmodelled_at") is not None:
        ctx.count("libm_ghost_unmodelled(priority.next returned a blocked member)", 1)
    if res.get("rebuilds"):
        ctx.count("tree_rebuilt(with a sender waiting on a buffered stream)",
                  any(o["op"] == "rebuild" and any(st["hasBuf"] and st["pusher"] != "idle" for st in res["snaps"][k]["str"].values()) for k, o in enumerate(res["ops"])))
    up = res.get("upload") or {}
    if up.get("frames"):
        ctx.count("upload.frames", "padded", sum(1 for f in up["frames"] if f[1] != f[2]))
        ctx.count("upload.frames", "unpadded", sum(1 for f in up["frames"] if f[1] == f[2]))
        ctx.count("upload.beyond_one_window(flow-controlled bytes > 65535)", sum(f[1] for f in up["frames"]) > 65535)
    kinds = sorted({a["do"] for a in sc["actions"] if a["do"] not in ("settle", "turns", "open", "drain_all")})
    if stalled or len(res["apps"]) > 1 or kinds:
        ctx.distinct([sc.get("profile"), sc.get("initial_window"), len(res["apps"]), sorted(s["kind"] for s in (sc.get("apps") or {}).values()), kinds,
                      sc.get("terminal"), sc.get("density"), stalled, waited, bool(res.get("rebuilds")), len(up.get("frames") or []) // 50])
    ctx.sample({"profile": sc.get("profile"), "initial_window": sc.get("initial_window"), "actions": [a["do"] for a in sc["actions"]][:20],
                "ops": len(res["ops"]), "streams": len(res["apps"])}, cap=3)


# ------------------------------------------------------------------------------------------------------------
# layer 2: through TCPServer on both workers
# ------------------------------------------------------------------------------------------------------------
def gen_e2e(rng: random.Random) -> dict:
    n = rng.choice([1, 2, 3, 4])
    streams = []
    for k in range(n):
        chunks = [rng.choice([1, 100, 5000, 16384, 20000, 40000]) for _ in range(rng.choice([1, 2, 4]))]
        streams.append({"chunks": chunks, "rst_after": rng.choice([None, None, None, 0.3]), "sleep": rng.choice([0, 0, 0.1])})
    return {"layer": "e2e", "initial_window": rng.choice([0, 1, 100, 65535, 1048576]), "streams": streams,
            "grants": [[rng.choice([1, 1000, 16384, 65535]) for _ in range(rng.choice([0, 1, 3]))] for _ in range(n)],
            "conn_grant": rng.choice([0, 0, 200000]), "settings_up": rng.choice([None, None, 70000]), "prio": rng.random() < 0.3}


def run_e2e(case: dict, worker: str) -> dict:
    scripts = []
    for st in case["streams"]:
        steps: List[list] = [["send", {"type": "http.response.start", "status": 200, "headers": []}]]
        for k, n in enumerate(st["chunks"]):
            if st["sleep"]:
                steps.append(["sleep", st["sleep"]])
            steps.append(["send", {**E2E_BODY, "body": bytes([65 + (k % 26)]) * n, "more_body": k < len(st["chunks"]) - 1}])
        scripts.append(steps)

    async def client(io):
        c = C.H2Client(initial_window=case["initial_window"], auto_window=False)
        sids = []
        for k, st in enumerate(case["streams"]):
            sid = c.conn.get_next_available_stream_id()
            kw = {}
            if case["prio"] and sids:
                kw = {"priority_depends_on": sids[-1], "priority_weight": 10, "priority_exclusive": bool(k % 2)}
            c.conn.send_headers(sid, C.h2_headers("GET", f"/s{k}"), end_stream=True, **kw)
            c._st(sid)
            sids.append(sid)
        await c.pump(io)
        await io.sleep(0.2)
        await c.pump(io)
        stalled_view = {sid: len(c.streams[sid]["data"]) for sid in sids}
        if case["conn_grant"]:
            c.conn.increment_flow_control_window(case["conn_grant"])
        for sid, grants in zip(sids, case["grants"]):
            for g in grants:
                try:
                    c.conn.increment_flow_control_window(g, stream_id=sid)
                except Exception:
                    pass
                await c.pump(io)
        if case["settings_up"] and case["settings_up"] > case["initial_window"]:
            import h2.settings
            c.conn.update_settings({h2.settings.SettingCodes.INITIAL_WINDOW_SIZE: case["settings_up"]})
            await c.pump(io)
        reset = []
        for sid, st in zip(sids, case["streams"]):
            if st["rst_after"] is not None and not c.streams[sid]["ended"]:
                try:
                    c.conn.reset_stream(sid, error_code=8)
                    reset.append(sid)
                except Exception:
                    pass
        await c.pump(io)
        # open the windows until everything is in
        for _ in range(40):
            moved = False
            for sid in sids:
                if sid in reset or c.streams[sid]["ended"]:
                    continue
                try:
                    c.conn.increment_flow_control_window(100000, stream_id=sid)
                    moved = True
                except Exception:
                    pass
            c.conn.increment_flow_control_window(400000)
            await c.pump(io)
            await io.sleep(0.3)
            await c.pump(io)
            if not moved:
                break
        return {"summary": c.summary(), "sids": sids, "reset": reset, "stalled_view": stalled_view}

    res = _runner(worker)({"keep_alive_timeout": 30}, "h2", client, scripts, tail=5)
    return res


_RUNNERS: Dict[str, Any] = {}


def _runner(worker: str):
    """the in-memory runners with a shorter kill timeout (a session takes < 2 s; a spinning server never reports)"""
    if not _RUNNERS:
        _RUNNERS.update({"asyncio": R._isolated(R.run_asyncio, timeout=20.0), "trio": R._isolated(R.run_trio, timeout=20.0)})
    return _RUNNERS[worker]


def check_e2e(ctx: Ctx, cases: List[dict]) -> None:
    stuck = 0
    for case in cases:
        for worker in ("asyncio", "trio"):
            res = run_e2e(case, worker)
            ctx.evaluations += 1
            ctx.count("e2e.worker", worker)
            ctx.count("e2e.initial_window", case["initial_window"])
            sig = {"layer": "e2e", "worker": worker}
            cc = {**case, "worker": worker}
            if res.get("stuck_session"):
                ctx.violation("spinning", cc, "the session never reported (event loop stuck)", {**sig, "error": "stuck"})
                stuck += 1
                if stuck >= 3:
                    return              # the server hangs: every further session would only wait for the kill timeout
                continue
            if res["error"] or res["loop_errors"]:
                ctx.violation("send_task_died", cc, {"error": res["error"], "loop": res["loop_errors"]}, {**sig, "error": str(res["error"])})
                continue
            cr = res.get("client_result")
            if not cr:
                ctx.violation("client_parser_error", cc, res.get("client_error"), {**sig, "error": "client script failed"})
                continue
            summ = cr["summary"]
            if summ["error"]:
                ctx.violation("flow_control_exceeded", cc, summ["error"], {**sig, "kind": summ["error"].split(":")[0]})
                continue
            ctx.distinct(["e2e", worker, case["initial_window"], len(case["streams"]), bool(cr["reset"]), case["prio"]])
            for sid, st in zip(cr["sids"], case["streams"]):
                v = summ["streams"].get(str(sid), {})
                want = b"".join(bytes([65 + (k % 26)]) * n for k, n in enumerate(st["chunks"])).decode("latin1")
                got = v.get("data", "")
                if not want.startswith(got):
                    ctx.violation("data_not_a_prefix_of_what_was_written", cc, {"sid": sid, "got": len(got)}, sig)
                if sid in cr["reset"]:
                    continue
                if got != want:
                    ctx.violation("not_delivered_with_windows_open", cc, {"sid": sid, "got": len(got), "want": len(want)}, sig)
                elif not v.get("ended"):
                    ctx.violation("end_stream_missing_or_spurious", cc, {"sid": sid}, sig)
                if any(f > 16384 for f in v.get("frames", [])):
                    ctx.violation("flow_control_exceeded", cc, {"sid": sid, "frames": v["frames"][:5]}, {**sig, "kind": "frame_size"})


# ------------------------------------------------------------------------------------------------------------
# layer 2, receive side: uploads in padded DATA frames through TCPServer on both workers
# ------------------------------------------------------------------------------------------------------------
def e2e_upload_cases() -> List[dict]:
    return [{"layer": "e2e_upload", "frames": [[1, 255]] * 320, "reads": True},                    # 81 920 flow-controlled bytes, 320 of payload
            {"layer": "e2e_upload", "frames": [[16000, 255]] * 9 + [[0, 0]] * 3, "reads": True},
            {"layer": "e2e_upload", "frames": [[100, 200], [16384, None], [0, 255]] * 30, "reads": False}]   # the application answers without reading


def run_e2e_upload(case: dict, worker: str) -> dict:
    app = ([["recv_body"]] if case["reads"] else []) + [["send", {"type": "http.response.start", "status": 200, "headers": []}],
                                                       ["send", {"type": "http.response.body", "body": b"done"}]]

    async def client(io):
        c = C.H2Client()
        await c.pump(io)
        sid = c.conn.get_next_available_stream_id()
        c.conn.send_headers(sid, C.h2_headers("POST", "/up"), end_stream=False)
        c._st(sid)
        await c.pump(io)
        sent = flow = 0
        stalled = None
        for k, (n, pad) in enumerate(case["frames"]):
            need = n + (0 if pad is None else pad + 1)
            for attempt in (0, 1, 2):
                st = c.conn.streams.get(sid)
                if st is None or st.closed:
                    break
                if c.conn.local_flow_control_window(sid) >= need:
                    c.conn.send_data(sid, b"u" * n, end_stream=(k == len(case["frames"]) - 1), pad_length=pad)
                    await io.send(c.out())
                    c.receive(io.take())
                    sent += 1
                    flow += need
                    break
                await io.sleep(0.2)          # the server is at rest: every WINDOW_UPDATE it will send for what it has is in
                c.receive(io.take())
            else:
                stalled = {"frame_index": k, "frame": need, "client_stream_window": c.conn.streams[sid].outbound_flow_control_window,
                           "client_conn_window": c.conn.outbound_flow_control_window, "flow_controlled_bytes_sent": flow}
                break
            st = c.conn.streams.get(sid)
            if st is None or st.closed:
                break
        await io.sleep(0.5)
        await c.pump(io)
        return {"summary": c.summary(), "sid": sid, "sent": sent, "flow": flow, "stalled": stalled,
                "conn_window": c.conn.outbound_flow_control_window}

    return _runner(worker)({"keep_alive_timeout": 30}, "h2", client, [app], tail=3)


def check_e2e_upload(ctx: Ctx, cases: List[dict]) -> None:
    for case in cases:
        for worker in ("asyncio", "trio"):
            res = run_e2e_upload(case, worker)
            ctx.evaluations += 1
            ctx.count("e2e.upload", worker)
            sig = {"layer": "e2e_upload", "worker": worker}
            cc = {**case, "worker": worker}
            if res.get("stuck_session"):
                ctx.violation("spinning", cc, "the session never reported (event loop stuck)", {**sig, "error": "stuck"})
                continue
            cr = res.get("client_result")
            if res["error"] or res["loop_errors"] or not cr:
                ctx.violation("send_task_died", cc, {"error": res["error"], "loop": res["loop_errors"], "client": res.get("client_error")}, {**sig, "error": str(res["error"])})
                continue
            ctx.distinct(["e2e_upload", worker, len(case["frames"]), case["reads"]])
            if cr["stalled"]:
                ctx.violation("upload_stalled_for_want_of_credit", cc, cr["stalled"], {**sig, "kind": "client_window_exhausted"})
                continue
            v = cr["summary"]["streams"].get(str(cr["sid"]), {})
            if case["reads"] and not (v.get("ended") and v.get("data") == "done"):
                ctx.violation("not_delivered_with_windows_open", cc, {"sid": cr["sid"], "got": v.get("data"), "ended": v.get("ended")}, sig)
            # conservation as the client sees it: what is still missing from its connection window is at most what h2 (server
            # role) may hold back before it announces a WINDOW_UPDATE (half the window)
            if 65535 - cr["conn_window"] > 65535 // 2 + 1:
                ctx.violation("upload_credit_not_returned", cc, {"client_conn_window": cr["conn_window"], "flow_controlled_bytes_sent": cr["flow"]},
                              {**sig, "kind": "connection_window_not_restored"})


def run(ctx: Ctx) -> None:
    H.limit_memory()
    rng = ctx.rng
    grid = grid_scenarios()
    scenarios = corpus() + (grid if ctx.thorough else grid[::3])
    scenarios += [H.gen_loop_scenario(rng) for _ in range(ctx.budget(150, 1500))]
    scenarios += [H.gen_upload_scenario(rng) for _ in range(ctx.budget(40, 400))]
    scenarios += [H.gen_scenario(rng, "flow") for _ in range(ctx.budget(2400, 14000))]
    for lo in range(0, len(scenarios), 250):
        check_direct(ctx, scenarios[lo: lo + 250], "C09")
    check_e2e_upload(ctx, e2e_upload_cases())
    check_e2e(ctx, [gen_e2e(rng) for _ in range(ctx.budget(24, 250))])


def replay(ctx: Ctx, case: dict) -> None:
    if case.get("layer") == "direct":
        check_direct(ctx, [case["scenario"]], "C09")
    elif case.get("layer") == "e2e_upload":
        check_e2e_upload(ctx, [{k: v for k, v in case.items() if k != "worker"}])
    else:
        check_e2e(ctx, [{k: v for k, v in case.items() if k != "worker"}])
