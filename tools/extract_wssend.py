"""Extractor part for the way ONE WebSocket frame travels from `WSStream` to the connection's byte stream (C10: messages
the application sends reach the client with identical type and payload; every ping is answered by a pong), regenerated from
the AST of the current source.  Writes HC/Extracted/WsSend.lean.  Used by tools/extract.py (`run(src, ex)`).

A WebSocket stream has several writer tasks (the application's sends, the reader task's pong / close replies, the ping
task).  The model `HC/Stream/WsWire.lean` treats the hand-over of one serialised frame as ONE atomic append to the ordered
byte stream of the connection; `HC.Props.C10.frame_hand_over_assumed` states the source facts that granularity rests on:

  * `WSStream._send_wsproto_event`: the `data=` of every `Data(...)` event built there, local names followed
        -> `wsEventData : List String`          (one `self.connection.send(event)` = one whole frame per Data event)
  * `H2Protocol.stream_send`, `(Body, Data)` branch: the argument of every `….push(…)` call, and whether the branch
    contains a loop / comprehension   -> `h2DataPushArgs : List String`, `h2DataLoops : Bool`
  * `StreamBuffer.push(self, data)`: the argument of every `self.buffer.extend(…)` / `self.buffer += …` (parameter written
    `data`), the awaited calls in front of the first of them, loops
        -> `pushExtendArgs`, `pushAwaitsBeforeExtend : List String`, `pushLoops : Bool`
  * `H11Protocol.stream_send`, `Data` branch: the `data=` of every `RawData(...)` handed to `self.send`, loops
        -> `h11DataSendArgs : List String`, `h11DataLoops : Bool`
  * `TCPServer.protocol_send` of both workers, `RawData` branch: the argument of every transport write
    (`self.writer.write` / `self.stream.send_all`), whether all of them sit inside `async with self.send_lock`, loops
        -> `asyncioWriteArgs`, `asyncioWriteLocked`, `asyncioWriteLoops`, `trioWriteArgs`, `trioWriteLocked`, `trioWriteLoops`
A function or branch that is not found is an EXTRACT-FAIL [WsSend]; an unexpected shape is written out as it is and fails the
Lean obligation."""
from __future__ import annotations

import ast
from pathlib import Path
from typing import Any, Dict, List, Optional, Sequence

LOOPS = (ast.For, ast.AsyncFor, ast.While, ast.ListComp, ast.SetComp, ast.DictComp, ast.GeneratorExp)


def _pos(n: ast.AST) -> tuple:
    return (getattr(n, "lineno", 0), getattr(n, "col_offset", 0))


def _walk(nodes: Sequence[ast.AST]) -> List[ast.AST]:
    out: List[ast.AST] = []
    for st in nodes:
        out += list(ast.walk(st))
    out.sort(key=_pos)
    return out


def _has_loop(nodes: Sequence[ast.AST]) -> bool:
    return any(isinstance(n, LOOPS) for n in _walk(nodes))


def _locals(nodes: Sequence[ast.AST]) -> Dict[str, Optional[ast.AST]]:
    """local names bound exactly once by a plain `name = expr` (None: bound more than once / in another way)"""
    seen: Dict[str, Optional[ast.AST]] = {}
    for n in _walk(nodes):
        if isinstance(n, ast.Assign) and len(n.targets) == 1 and isinstance(n.targets[0], ast.Name):
            name = n.targets[0].id
            seen[name] = n.value if name not in seen else None
        elif isinstance(n, (ast.AugAssign, ast.AnnAssign)) and isinstance(n.target, ast.Name):
            seen[n.target.id] = n.value if isinstance(n, ast.AnnAssign) and n.target.id not in seen and n.value is not None else None
        elif isinstance(n, (ast.For, ast.AsyncFor)):
            for t in ast.walk(n.target):
                if isinstance(t, ast.Name):
                    seen[t.id] = None
    return seen


def _resolve(node: ast.AST, env: Dict[str, Optional[ast.AST]], rename: Optional[Dict[str, str]] = None, depth: int = 0) -> str:
    """the expression with single-assignment local names replaced by what they were bound to (two levels), parameters renamed"""
    class T(ast.NodeTransformer):
        def visit_Name(self, n: ast.Name) -> Any:
            if rename and n.id in rename:
                return ast.copy_location(ast.Name(id=rename[n.id], ctx=n.ctx), n)
            v = env.get(n.id)
            if v is not None and depth < 2:
                return ast.parse(_resolve(v, env, rename, depth + 1), mode="eval").body
            return n
    import copy
    return ast.unparse(T().visit(copy.deepcopy(node)))


def _isinstance_branch(fn: ast.AST, var: str, classes: set) -> Optional[List[ast.stmt]]:
    """body of the `if isinstance(<var>, <exactly these classes>)` of the function (if / elif chain or guard clause)"""
    for n in ast.walk(fn):
        if isinstance(n, ast.If) and isinstance(n.test, ast.Call) and ast.unparse(n.test.func) == "isinstance" and len(n.test.args) == 2 \
                and ast.unparse(n.test.args[0]) == var:
            t = n.test.args[1]
            names = {ast.unparse(e).split(".")[-1] for e in (t.elts if isinstance(t, ast.Tuple) else [t])}
            if names == classes:
                return n.body
    return None


def _calls(nodes: Sequence[ast.AST], pred) -> List[ast.Call]:
    return [n for n in _walk(nodes) if isinstance(n, ast.Call) and pred(n)]


def _kw(call: ast.Call, name: str, index: int) -> Optional[ast.AST]:
    for k in call.keywords:
        if k.arg == name:
            return k.value
    return call.args[index] if len(call.args) > index else None


def run(src: Path, ex: Any) -> str:
    q, fail, parse, find_def = ex.q, ex.fail, ex.parse, ex.find_def
    out = ["/- GENERATED by tools/extract_wssend.py — how one WebSocket frame is handed from WSStream to the connection's byte stream — do not edit -/",
           "namespace HC.Extracted.WsSend"]

    def lst(name: str, xs: List[str], note: str = "") -> None:
        out.append(f"def {name} : List String := [" + ", ".join(q(x) for x in xs) + "]" + (f"   -- {note}" if note else ""))

    def boolean(name: str, v: bool, note: str = "") -> None:
        out.append(f"def {name} : Bool := {'true' if v else 'false'}" + (f"   -- {note}" if note else ""))

    # ---- WSStream._send_wsproto_event -------------------------------------------------------------------------
    fn = find_def(parse(src / "protocol/ws_stream.py"), "WSStream", "_send_wsproto_event")
    if fn is None:
        fail("wsEventData", "WSStream._send_wsproto_event not found")
        lst("wsEventData", ["?"])
    else:
        params = [a.arg for a in fn.args.args if a.arg != "self"]      # type: ignore
        env = _locals(fn.body)                                          # type: ignore
        ren = {params[0]: "event"} if params else {}
        datas = _calls(fn.body, lambda c: ast.unparse(c.func).split(".")[-1] == "Data")      # type: ignore
        lst("wsEventData", [_resolve(_kw(c, "data", 1) or ast.Constant(value=None), env, ren) for c in datas],
            "`data=` of every Data event built by _send_wsproto_event")
    # ---- H2Protocol.stream_send, (Body, Data) branch ----------------------------------------------------------
    h2tree = parse(src / "protocol/h2.py")
    fn = find_def(h2tree, "H2Protocol", "stream_send")
    body = None if fn is None else _isinstance_branch(fn, "event", {"Body", "Data"})
    if body is None:
        fail("h2DataPushArgs", "the isinstance(event, (Body, Data)) branch of H2Protocol.stream_send not found")
        lst("h2DataPushArgs", ["?"])
        boolean("h2DataLoops", True)
    else:
        env = _locals(body)
        pushes = _calls(body, lambda c: isinstance(c.func, ast.Attribute) and c.func.attr == "push")
        lst("h2DataPushArgs", [_resolve(c.args[0], env) if c.args else "" for c in pushes], "argument of every StreamBuffer.push in the branch")
        boolean("h2DataLoops", _has_loop(body), "a loop / comprehension in the branch")
    # ---- StreamBuffer.push --------------------------------------------------------------------------------------
    fn = find_def(h2tree, "StreamBuffer", "push")
    if fn is None:
        fail("pushExtendArgs", "StreamBuffer.push not found")
        lst("pushExtendArgs", ["?"])
        lst("pushAwaitsBeforeExtend", ["?"])
        boolean("pushLoops", True)
    else:
        params = [a.arg for a in fn.args.args if a.arg != "self"]      # type: ignore
        ren = {params[0]: "data"} if params else {}
        env = _locals(fn.body)                                          # type: ignore
        ext: List[tuple] = []
        for n in _walk(fn.body):                                        # type: ignore
            if isinstance(n, ast.Call) and ast.unparse(n.func) == "self.buffer.extend":
                ext.append((_pos(n), _resolve(n.args[0], env, ren) if n.args else ""))
            elif isinstance(n, ast.AugAssign) and ast.unparse(n.target) == "self.buffer":
                ext.append((_pos(n), _resolve(n.value, env, ren)))
            elif isinstance(n, ast.Assign) and any(ast.unparse(t) == "self.buffer" for t in n.targets):
                ext.append((_pos(n), "self.buffer = " + _resolve(n.value, env, ren)))
        lst("pushExtendArgs", [e[1] for e in ext], "what push appends to self.buffer (its parameter written `data`)")
        first = ext[0][0] if ext else (10 ** 9, 0)
        awaits = [n for n in _walk(fn.body) if isinstance(n, ast.Await) and _pos(n) < first]      # type: ignore
        lst("pushAwaitsBeforeExtend", [ast.unparse(a.value.func) if isinstance(a.value, ast.Call) else ast.unparse(a.value) for a in awaits])
        boolean("pushLoops", _has_loop(fn.body))                        # type: ignore
    # ---- H11Protocol.stream_send, Data branch -------------------------------------------------------------------
    fn = find_def(parse(src / "protocol/h11.py"), "H11Protocol", "stream_send")
    body = None if fn is None else _isinstance_branch(fn, "event", {"Data"})
    if body is None:
        fail("h11DataSendArgs", "the isinstance(event, Data) branch of H11Protocol.stream_send not found")
        lst("h11DataSendArgs", ["?"])
        boolean("h11DataLoops", True)
    else:
        env = _locals(body)
        raws = _calls(body, lambda c: ast.unparse(c.func).split(".")[-1] == "RawData")
        lst("h11DataSendArgs", [_resolve(_kw(c, "data", 0) or ast.Constant(value=None), env) for c in raws], "`data=` of every RawData sent for a Data event")
        boolean("h11DataLoops", _has_loop(body))
    # ---- TCPServer.protocol_send, RawData branch (both workers) -----------------------------------------------------
    for worker, write in (("asyncio", "self.writer.write"), ("trio", "self.stream.send_all")):
        fn = find_def(parse(src / worker / "tcp_server.py"), "TCPServer", "protocol_send")
        body = None if fn is None else _isinstance_branch(fn, "event", {"RawData"})
        if body is None:
            fail(f"{worker}WriteArgs", f"the isinstance(event, RawData) branch of {worker} TCPServer.protocol_send not found")
            lst(f"{worker}WriteArgs", ["?"])
            boolean(f"{worker}WriteLocked", False)
            boolean(f"{worker}WriteLoops", True)
            continue
        env = _locals(body)
        writes = _calls(body, lambda c: ast.unparse(c.func) == write)
        locked: List[ast.AST] = []
        for n in _walk(body):
            if isinstance(n, ast.AsyncWith) and any(ast.unparse(i.context_expr) == "self.send_lock" for i in n.items):
                locked += [m for m in _walk(n.body) if isinstance(m, ast.Call)]
        lst(f"{worker}WriteArgs", [_resolve(c.args[0], env) if c.args else "" for c in writes], f"argument of every {write} for a RawData event")
        boolean(f"{worker}WriteLocked", bool(writes) and all(any(c is m for m in locked) for c in writes), "all of them inside `async with self.send_lock`")
        boolean(f"{worker}WriteLoops", _has_loop(body))
    out += ["end HC.Extracted.WsSend", ""]
    return "\n".join(out)
