#!/venv/bin/python
"""Regenerate /verif/MANIFEST.json from the SPEC dictionaries of harness/gen/Cxx.py (one source of truth)."""
import importlib
import json
import sys
from pathlib import Path

VERIF = Path(__file__).resolve().parents[1]
sys.path.insert(0, str(VERIF))
BASELINE = "cd /repo && env -u HYPERCORN_VERIF /venv/bin/python -m pytest -ra -q -p no:cacheprovider --timeout=900 --continue-on-collection-errors"
props = [json.loads(l) for l in (VERIF / "properties.jsonl").read_text().splitlines() if l.strip()]
checks, na = [], []
# properties whose check exists in the tree but is not claimed yet (being built / not yet quiet on the unchanged tree)
UNREADY = json.loads((VERIF / "tools" / "unready.json").read_text()) if (VERIF / "tools" / "unready.json").exists() else {}
for p in props:
    pid = p["id"]
    if pid in UNREADY:
        na.append({"property_id": pid, "reason": UNREADY[pid]})
        continue
    try:
        spec = importlib.import_module(f"harness.gen.{pid}").SPEC
    except ModuleNotFoundError as e:
        if e.name != f"harness.gen.{pid}":
            raise
        na.append({"property_id": pid, "reason": "check not built yet in this round (planned: Lean model + theorems + correspondence, DESIGN.md section 4)"})
        continue
    if spec.get("not_applicable"):
        na.append({"property_id": pid, "reason": spec["not_applicable"]})
        continue
    checks.append({
        "property_id": pid,
        "quick_cmd": f"./check {pid} --tier quick",
        "thorough_cmd": f"./check {pid} --tier thorough",
        "replay_cmd_template": f"./check {pid} --replay {{path}}",
        "evidence_file": f"evidence/{pid}.json",
        "engine": "lean-proof+correspondence",
        "level_claimed": {"category": "proof", "text": spec["level_text"], "design_ref": f"DESIGN.md section 4 ({pid}), section 10"},
        "level_note": spec["level_note"],
        "technique": spec["technique"],
    })
hooks_commits = json.loads((VERIF / "hooks.json").read_text()) if (VERIF / "hooks.json").exists() else []
manifest = {
    "version": 1,
    "setup_cmd": "./setup.sh",
    "hooks": {"guard": "HYPERCORN_VERIF",
              "enable": "env HYPERCORN_VERIF=1 (set by ./check; no source hook exists in /repo: every observation point is reached from outside)",
              "baseline_off_cmd": BASELINE, "source_commits": hooks_commits, "add_only": True},
    "engines": [
        {"name": "lean-proof", "path": "lean", "serves_properties": [c["property_id"] for c in checks],
         "kind_free_text": "Lean 4 models of hypercorn's glue + property theorems (HC/Props), axiom audit, compiled model driver (hcdriver)"},
        {"name": "correspondence", "path": "harness", "serves_properties": [c["property_id"] for c in checks],
         "kind_free_text": "differential execution of the Lean model and the real code on generated inputs; monitors evaluate the property on the implementation's own observations"},
        {"name": "extractor", "path": "tools/extract.py", "serves_properties": [c["property_id"] for c in checks],
         "kind_free_text": "AST translator regenerating constants, comparators, except-clauses and the CLI table into Lean on every run"},
    ],
    "checks": checks,
    "not_applicable": na,
    "notes": "All checks: ./check <ID>. Exit 2 = harness failure (not a verdict). Known findings: known_findings.json.",
}
(VERIF / "MANIFEST.json").write_text(json.dumps(manifest, indent=1) + "\n")
print(f"{len(checks)} checks, {len(na)} not applicable")
