"""Extractor part for C03: the statement SEQUENCES of `WSStream` that close the stream, path by path, regenerated from the AST of
the current source.  Writes HC/Extracted/WsSeq.lean.  Used by tools/extract.py (`run(src, ex)`, `ex` = that module's helpers).

A WebSocket stream answers on its own in several places (404 for an unknown server name, 400 for an invalid handshake, 400 for
data before the acceptance, 500 / close frame 1011 for an application that has finished, the echo of the client's close frame)
and each of these is a sequence of several awaited steps that ends by closing the stream.  Every awaited step is a point at which
the connection can be lost: a failed transport write (or the reader's end, the idle timer) makes the protocol call
`stream.handle(StreamClosed)` INSIDE that await, and the sequence then runs on to its end.  Whether the application is still
sent exactly one `websocket.disconnect` depends on the ORDER of `self.closed = True`, the sends and the `app_put` of the sequence -
which is what is written out here, for every path through `WSStream.handle` and `WSStream.app_send` (awaited methods of the class
expanded in place) that contains a closing step:

    setClosed v      `self.closed = <True|False>`
    assumeClosed v   the path takes the branch on which `self.closed` tested as v        (`if self.closed: return`, `if not self.closed:`)
    assumeApp v      … on which `self.app_put is not None` tested as v
    spawnApp         `self.app_put = …` (the application is spawned)
    send             `await self.send(<anything but StreamClosed>)`: reaches the transport
    tell             `await self.send(StreamClosed(…))`: the protocol closes the stream (`handle(StreamClosed)`) unless it already has
    spawnTell        `task_group.spawn(self.send, StreamClosed(…))`: the same in a task of its own, later
    put d            `await self.app_put(m)`, d = m is the `websocket.disconnect`
    wait             any other await

Other conditions are opaque: both branches are followed.  A loop body runs zero times or once, a `try` runs its body and `else`
or (from the start) one of its handlers.  The model that runs these paths with the connection lost at any of their awaits is
`HC/Stream/WsSeq.lean`, the theorem is `HC.Props.C03.ws_sequences_disconnect_once`."""
from __future__ import annotations

import ast
from pathlib import Path
from typing import Any, Dict, List, Optional, Tuple

MAX_DEPTH = 4
MAX_PATHS = 4000

Step = str
# (steps, conditions taken, outcome); outcome: "fall" | "return" | "raise" | "break" | "continue"
PathT = Tuple[Tuple[Step, ...], Tuple[str, ...], str]


class TooMany(Exception):
    pass


def _atoms(test: ast.AST) -> Tuple[List[Step], List[Step]]:
    """steps assumed on the true / on the false branch of a test"""
    t = ast.unparse(test)
    if t == "self.closed":
        return ["assumeClosed true"], ["assumeClosed false"]
    if t == "not self.closed":
        return ["assumeClosed false"], ["assumeClosed true"]
    if t == "self.app_put is not None":
        return ["assumeApp true"], ["assumeApp false"]
    if t == "self.app_put is None":
        return ["assumeApp false"], ["assumeApp true"]
    if isinstance(test, ast.BoolOp) and isinstance(test.op, ast.And):
        yes: List[Step] = []
        for v in test.values:
            yes += _atoms(v)[0]
        return yes, []
    if isinstance(test, ast.BoolOp) and isinstance(test.op, ast.Or):
        no: List[Step] = []
        for v in test.values:
            no += _atoms(v)[1]
        return [], no
    return [], []


class Walker:
    def __init__(self, cls: ast.ClassDef) -> None:
        self.methods: Dict[str, ast.AST] = {f.name: f for f in cls.body if isinstance(f, (ast.AsyncFunctionDef, ast.FunctionDef))}
        self.unknown: List[str] = []

    # -- one awaited / called expression ---------------------------------------------------------------------
    def _call_paths(self, call: ast.Call, awaited: bool, depth: int) -> List[PathT]:
        f = ast.unparse(call.func)
        arg0 = ast.unparse(call.args[0]) if call.args else ""
        if f == "self.send" and awaited:
            return [((("tell" if arg0.startswith("StreamClosed(") else "send"),), (), "fall")]
        if f == "self.task_group.spawn" and arg0 == "self.send" and len(call.args) > 1 and ast.unparse(call.args[1]).startswith("StreamClosed("):
            return [(("spawnTell",), (), "fall")]
        if f == "self.app_put" and awaited:
            return [((f"put {'true' if '.disconnect' in arg0 else 'false'}",), (), "fall")]
        if f.startswith("self.") and f.count(".") == 1 and f[5:] in self.methods:
            m = self.methods[f[5:]]
            if isinstance(m, ast.AsyncFunctionDef) and awaited and depth < MAX_DEPTH:
                out = []
                for steps, conds, oc in self.block(m.body, depth + 1):
                    out.append((steps, conds, "raise" if oc == "raise" else "fall"))
                return out
            if isinstance(m, ast.AsyncFunctionDef) and awaited:
                self.unknown.append(f"{f}: nesting deeper than {MAX_DEPTH}")
        return [((("wait",) if awaited else ()), (), "fall")]

    def _expr_paths(self, node: ast.AST, depth: int) -> List[PathT]:
        """the awaits / spawns inside one expression statement, in source order"""
        found: List[Tuple[Tuple[int, int], ast.Call, bool]] = []
        awaited_calls = set()
        for n in ast.walk(node):
            if isinstance(n, ast.Await) and isinstance(n.value, ast.Call):
                awaited_calls.add(id(n.value))
        for n in ast.walk(node):
            if isinstance(n, ast.Call):
                aw = id(n) in awaited_calls
                if aw or ast.unparse(n.func) == "self.task_group.spawn":
                    found.append(((getattr(n, "end_lineno", 0), getattr(n, "end_col_offset", 0)), n, aw))
            elif isinstance(n, ast.Await) and not isinstance(n.value, ast.Call):
                found.append(((getattr(n, "end_lineno", 0), getattr(n, "end_col_offset", 0)), ast.Call(func=ast.Name(id="?"), args=[], keywords=[]), True))
        found.sort(key=lambda x: x[0])      # inner (argument) awaits end before the call that takes them
        paths: List[PathT] = [((), (), "fall")]
        for _, call, aw in found:
            nxt: List[PathT] = []
            for steps, conds, oc in paths:
                if oc != "fall":
                    nxt.append((steps, conds, oc))
                    continue
                for s2, c2, o2 in self._call_paths(call, aw, depth):
                    nxt.append((steps + s2, conds + c2, o2))
            paths = nxt
        return paths

    # -- statements --------------------------------------------------------------------------------------------
    def stmt(self, st: ast.stmt, depth: int) -> List[PathT]:
        if isinstance(st, ast.Return):
            base = self._expr_paths(st.value, depth) if st.value is not None else [((), (), "fall")]
            return [(s, c, "return" if o == "fall" else o) for s, c, o in base]
        if isinstance(st, ast.Raise):
            return [((), (), "raise")]
        if isinstance(st, ast.Break):
            return [((), (), "break")]
        if isinstance(st, ast.Continue):
            return [((), (), "continue")]
        if isinstance(st, ast.If):
            yes, no = _atoms(st.test)
            t = ast.unparse(st.test)
            pre = self._expr_paths(st.test, depth)
            out: List[PathT] = []
            for s0, c0, o0 in pre:
                if o0 != "fall":
                    out.append((s0, c0, o0))
                    continue
                for s, c, o in self.block(st.body, depth):
                    out.append((s0 + tuple(yes) + s, c0 + (t[:70],) + c, o))
                for s, c, o in (self.block(st.orelse, depth) if st.orelse else [((), (), "fall")]):
                    out.append((s0 + tuple(no) + s, c0 + ("not (" + t[:60] + ")",) + c, o))
            return out
        if isinstance(st, (ast.For, ast.AsyncFor, ast.While)):
            head = self._expr_paths(st.iter if not isinstance(st, ast.While) else st.test, depth)
            out = []
            for s0, c0, o0 in head:
                if o0 != "fall":
                    out.append((s0, c0, o0))
                    continue
                pre = s0 + (("wait",) if isinstance(st, ast.AsyncFor) else ())
                out.append((pre, c0 + ("loop: no pass",), "fall"))
                for s, c, o in self.block(st.body, depth):
                    out.append((pre + s, c0 + ("loop: one pass",) + c, "fall" if o in ("break", "continue") else o))
            return out
        if isinstance(st, ast.Try):
            out = []
            for s, c, o in self.block(st.body + st.orelse, depth):
                out.append((s, c, o))
            for h in st.handlers:
                for s, c, o in self.block(h.body, depth):
                    out.append((s, c + ("except " + (ast.unparse(h.type) if h.type is not None else "") + " (raised at the start of the try)",), o))
            if st.finalbody:
                fin = self.block(st.finalbody, depth)
                out = [(s + fs, c + fc, o if fo == "fall" else fo) for s, c, o in out for fs, fc, fo in fin]
            return out
        if isinstance(st, (ast.With, ast.AsyncWith)):
            pre: Tuple[Step, ...] = ("wait",) if isinstance(st, ast.AsyncWith) else ()
            return [(pre + s, c, o) for s, c, o in self.block(st.body, depth)]
        if isinstance(st, (ast.FunctionDef, ast.AsyncFunctionDef, ast.ClassDef)):
            return [((), (), "fall")]
        # plain statements: what they await, then what they assign
        base = self._expr_paths(st, depth)
        extra: Tuple[Step, ...] = ()
        if isinstance(st, (ast.Assign, ast.AnnAssign)):
            targets = st.targets if isinstance(st, ast.Assign) else [st.target]
            value = st.value
            for tg in targets:
                tt = ast.unparse(tg)
                if tt == "self.closed":
                    if isinstance(value, ast.Constant) and isinstance(value.value, bool):
                        extra += (f"setClosed {'true' if value.value else 'false'}",)
                    else:
                        self.unknown.append(f"self.closed = {ast.unparse(value) if value is not None else '?'}")
                elif tt == "self.app_put" and value is not None:
                    if isinstance(value, ast.Constant) and value.value is None:
                        self.unknown.append("self.app_put = None")
                    else:
                        extra += ("spawnApp",)
        return [(s + (extra if o == "fall" else ()), c, o) for s, c, o in base]

    def block(self, body: List[ast.stmt], depth: int) -> List[PathT]:
        paths: List[PathT] = [((), (), "fall")]
        for st in body:
            if not any(o == "fall" for _, _, o in paths):
                break
            here = self.stmt(st, depth)
            nxt: List[PathT] = []
            for s, c, o in paths:
                if o != "fall":
                    nxt.append((s, c, o))
                    continue
                for s2, c2, o2 in here:
                    nxt.append((s + s2, c + c2, o2))
            if len(nxt) > MAX_PATHS:
                raise TooMany()
            paths = nxt
        return paths


CLOSING = ("tell", "spawnTell", "setClosed true")


def run(src: Path, ex: Any) -> str:
    fail, find_def, parse, q = ex.fail, ex.find_def, ex.parse, ex.q
    out = ["/- GENERATED by tools/extract_wsseq.py — every path through WSStream.handle / WSStream.app_send that closes the stream, step by step — do not edit -/",
           "import HC.Stream.WsSeq",
           "namespace HC.Extracted.WsSeq",
           "open HC.Stream.WsSeq"]
    ws = parse(src / "protocol/ws_stream.py")
    cls = find_def(ws, "WSStream")
    paths_out: List[str] = []
    starts_none = False
    if cls is None:
        fail("wsClosingPaths", "class WSStream not found")
    else:
        init = next((f for f in cls.body if isinstance(f, ast.FunctionDef) and f.name == "__init__"), None)
        if init is not None:
            for st in init.body:
                if isinstance(st, (ast.Assign, ast.AnnAssign)):
                    tg = st.targets[0] if isinstance(st, ast.Assign) else st.target
                    if ast.unparse(tg) == "self.app_put":
                        starts_none = isinstance(st.value, ast.Constant) and st.value.value is None
        w = Walker(cls)
        seen = set()
        for root in ("handle", "app_send"):
            fn = w.methods.get(root)
            if not isinstance(fn, ast.AsyncFunctionDef):
                fail("wsClosingPaths", f"WSStream.{root} not found")
                continue
            try:
                found = w.block(fn.body, 0)
            except TooMany:
                fail("wsClosingPaths", f"WSStream.{root}: more than {MAX_PATHS} paths")
                continue
            n = 0
            for steps, conds, _ in found:
                if not any(s in CLOSING for s in steps):
                    continue
                # the Request event is the first a stream is given: `app_put` is what `__init__` left
                first = root == "handle" and any(c.startswith("isinstance(event, Request)") for c in conds)
                key = (root, first, steps)
                if key in seen:
                    continue
                seen.add(key)
                n += 1
                what = "; ".join(c for c in conds if not c.startswith("not (") and not c.startswith("loop: no"))[:300].replace("-/", "- /")
                paths_out.append(f"  -- {what}\n  {{ root := {q(root)}, first := {'true' if first else 'false'}, steps := [" + ", ".join("." + s for s in steps) + "] }")
            if n == 0:
                fail("wsClosingPaths", f"WSStream.{root}: no path that closes the stream was found")
        for u in sorted(set(w.unknown)):
            fail("wsClosingPaths", f"statement not understood: {u}")
    out.append(f"def appPutStartsNone : Bool := {'true' if starts_none else 'false'}   -- `self.app_put = None` in WSStream.__init__: a stream that has not seen its Request has no application")
    out.append("def wsClosingPaths : List Path := [")
    out.append(",\n".join(paths_out))
    out.append("]")
    out += ["end HC.Extracted.WsSeq", ""]
    return "\n".join(out)
