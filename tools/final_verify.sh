#!/bin/sh
# Development helper (not registered in MANIFEST): run every claimed check of one tier, a few at a time, and print a verdict table.
#   tools/final_verify.sh quick "0 1"        every check, --tier quick, seeds 0 and 1
#   tools/final_verify.sh thorough "0"       every check, --tier thorough
# Logs under $OUT (default /tmp/final).
TIER="${1:-quick}"
SEEDS="${2:-0}"
PAR="${3:-5}"
OUT="${OUT:-/tmp/final}"
cd "$(dirname "$0")/.." || exit 1
mkdir -p "$OUT"
IDS="C01 C02 C03 C04 C05 C06 C07 C08 C09 C10 C11 C12 C13 C14 C15 C16 C17 C18 C19 C20"
for s in $SEEDS; do
  for id in $IDS; do echo "$id $s"; done
done | xargs -P "$PAR" -L 1 sh -c './check $0 --tier '"$TIER"' --seed $1 > '"$OUT"'/$0.'"$TIER"'.$1.log 2>&1; echo "$0 seed=$1 exit=$? $(grep -E "^(PASS|FAIL|HARNESS)" '"$OUT"'/$0.'"$TIER"'.$1.log | tail -1)"'
echo "--- lines that need attention:"
grep -lE "^(VIOLATION|FAIL|HARNESS-ERROR)" "$OUT"/*."$TIER".*.log 2>/dev/null || echo "(none)"
