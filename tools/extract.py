#!/usr/bin/env python3
"""Translator: /repo/src/hypercorn  →  /verif/lean/HC/Extracted/*.lean   (stdlib `ast` only; never imports hypercorn).

What is translated mechanically (DESIGN.md 3.4a):
  * module constants and `class Config` literal defaults (constant-folded),
  * comparison operators / which operand is compared at the limit-guarding sites,
  * the expression-level function `suppress_body`,
  * the argparse table and the `config.X = args.Y` wiring of `__main__.main`,
  * the exception classes named by the `except` clauses of the protocol glue.
The hand-written models take these as parameters, so the theorems are re-checked against what the code says now.
A shape the translator does not recognise is reported as `EXTRACT-FAIL <item>: <why>` and exit status 1;
the other files are still written (only when their content changed, so an unchanged tree triggers no rebuild).
"""
from __future__ import annotations

import argparse
import ast
import json
import os
import sys
from pathlib import Path
from typing import Any, Dict, List, Optional, Tuple

FAILS: List[str] = []
CURRENT = ["?"]


def fail(item: str, why: str) -> None:
    FAILS.append(f"EXTRACT-FAIL [{CURRENT[0]}] {item}: {why}")


def q(s: str) -> str:
    return json.dumps(s, ensure_ascii=False)


def parse(path: Path) -> ast.Module:
    return ast.parse(path.read_text(), filename=str(path))


def find_def(tree: ast.AST, *names: str) -> Optional[ast.AST]:
    node: Any = tree
    for name in names:
        nxt = None
        for ch in ast.walk(node):
            if ch is node:
                continue
            if isinstance(ch, (ast.FunctionDef, ast.AsyncFunctionDef, ast.ClassDef)) and ch.name == name:
                nxt = ch
                break
        if nxt is None:
            return None
        node = nxt
    return node


# ---------------------------------------------------------------------------------------------------------
# constant folding
# ---------------------------------------------------------------------------------------------------------
def fold(node: ast.AST, env: Dict[str, Any]) -> Any:
    if isinstance(node, ast.Constant):
        return node.value
    if isinstance(node, ast.Name):
        if node.id in env:
            return env[node.id]
        raise ValueError(f"name {node.id}")
    if isinstance(node, ast.UnaryOp) and isinstance(node.op, ast.USub):
        return -fold(node.operand, env)
    if isinstance(node, ast.BinOp):
        a, b = fold(node.left, env), fold(node.right, env)
        if isinstance(node.op, ast.Mult):
            return a * b
        if isinstance(node.op, ast.Pow):
            return a ** b
        if isinstance(node.op, ast.Add):
            return a + b
        if isinstance(node.op, ast.Sub):
            return a - b
        if isinstance(node.op, ast.Div):
            return a / b
        if isinstance(node.op, ast.FloorDiv):
            return a // b
    if isinstance(node, (ast.List, ast.Tuple)):
        return [fold(e, env) for e in node.elts]
    if isinstance(node, ast.Set):
        return sorted(fold(e, env) for e in node.elts)
    raise ValueError(ast.dump(node)[:60])


def module_consts(tree: ast.Module) -> Dict[str, Any]:
    env: Dict[str, Any] = {}
    for st in tree.body:
        if isinstance(st, ast.Assign) and len(st.targets) == 1 and isinstance(st.targets[0], ast.Name):
            try:
                env[st.targets[0].id] = fold(st.value, env)
            except Exception:
                pass
    return env


def lean_val(v: Any) -> Tuple[str, str]:
    """(type, term)"""
    if isinstance(v, bool):
        return "Bool", "true" if v else "false"
    if isinstance(v, int):
        return ("Int", f"({v})") if v < 0 else ("Nat", str(v))
    if isinstance(v, float):
        if v == int(v):
            return "Nat", str(int(v))
        # milli-units
        return "Nat", str(int(round(v * 1000)))
    if isinstance(v, str):
        return "String", q(v)
    if v is None:
        return "Option Nat", "none"
    if isinstance(v, list) and all(isinstance(x, str) for x in v):
        return "List String", "[" + ", ".join(q(x) for x in v) + "]"
    raise ValueError(repr(v))


# ---------------------------------------------------------------------------------------------------------
# expression translation (BoolOp / Compare / in {…} / names / literals)  → Lean Bool term
# ---------------------------------------------------------------------------------------------------------
CMP = {ast.Lt: "<", ast.LtE: "≤", ast.Gt: ">", ast.GtE: "≥", ast.Eq: "==", ast.NotEq: "!="}
CMPNAME = {ast.Lt: "lt", ast.LtE: "le", ast.Gt: "gt", ast.GtE: "ge", ast.Eq: "eq", ast.NotEq: "ne"}


NAMES: Dict[str, str] = {}


def expr(node: ast.AST) -> str:
    txt = ast.unparse(node)
    if txt in NAMES:
        return NAMES[txt]
    if isinstance(node, ast.BoolOp):
        op = " || " if isinstance(node.op, ast.Or) else " && "
        return "(" + op.join(expr(v) for v in node.values) + ")"
    if isinstance(node, ast.UnaryOp) and isinstance(node.op, ast.Not):
        return f"(!{expr(node.operand)})"
    if isinstance(node, ast.Compare):
        parts = []
        left = node.left
        for op, right in zip(node.ops, node.comparators):
            if isinstance(op, ast.In) and isinstance(right, ast.Set):
                parts.append("(" + " || ".join(f"({expr(left)} == {expr(e)})" for e in right.elts) + ")")
            elif type(op) in (ast.Eq, ast.NotEq):
                parts.append(f"({expr(left)} {CMP[type(op)]} {expr(right)})")
            elif type(op) in CMP:
                parts.append(f"(decide ({expr(left)} {CMP[type(op)]} {expr(right)}))")
            else:
                raise ValueError(f"operator {type(op).__name__}")
            left = right
        return "(" + " && ".join(parts) + ")"
    if isinstance(node, ast.Name):
        return node.id
    if isinstance(node, ast.Constant):
        if isinstance(node.value, str):
            return q(node.value)
        if isinstance(node.value, bool):
            return "true" if node.value else "false"
        if isinstance(node.value, int):
            return str(node.value)
    raise ValueError(ast.dump(node)[:80])


def find_compare(fn: ast.AST, needle: str) -> Optional[ast.Compare]:
    for n in ast.walk(fn):
        if isinstance(n, ast.Compare) and needle in ast.unparse(n) and len(n.ops) == 1 and type(n.ops[0]) in CMPNAME:
            return n
    return None


# ---------------------------------------------------------------------------------------------------------
def write_if_changed(path: Path, text: str) -> bool:
    if path.exists() and path.read_text() == text:
        return False
    tmp = path.with_suffix(path.suffix + f".tmp{os.getpid()}")
    tmp.write_text(text)
    os.replace(tmp, path)
    return True


def extract_cli(src: Path) -> str:
    tree = parse(src / "__main__.py")
    main = find_def(tree, "main")
    args, wires = [], []
    if main is None:
        fail("cli", "function main not found")
        main = ast.Module(body=[], type_ignores=[])

    def const(n: ast.AST) -> Any:
        if isinstance(n, ast.Constant):
            return n.value
        if isinstance(n, ast.Name):
            return f"${n.id}"
        if isinstance(n, ast.List) and not n.elts:
            return []
        return "?"

    for node in ast.walk(main):
        if isinstance(node, ast.Call) and isinstance(node.func, ast.Attribute) and node.func.attr == "add_argument":
            flags = [a.value for a in node.args if isinstance(a, ast.Constant)]
            kw = {k.arg: k.value for k in node.keywords}
            dest = const(kw["dest"]) if "dest" in kw else None
            if dest is None:
                longs = [f for f in flags if f.startswith("--")]
                dest = (longs[0][2:] if longs else flags[0].lstrip("-")).replace("-", "_")
            default = const(kw["default"]) if "default" in kw else None
            dk = "sentinel" if default == "$sentinel" else ("list" if default == [] else ("none" if default is None else f"lit:{default!r}"))
            ty = kw.get("type")
            tyname = ty.id if isinstance(ty, ast.Name) else ("func" if ty is not None else "str")
            args.append((flags, dest, dk, const(kw["action"]) if "action" in kw else "store", tyname))
    for node in getattr(main, "body", []):
        if isinstance(node, ast.If):
            t = node.test
            guard = kind = None
            if isinstance(t, ast.Compare) and isinstance(t.ops[0], ast.IsNot) and isinstance(t.left, ast.Attribute) \
                    and isinstance(t.comparators[0], ast.Name) and t.comparators[0].id == "sentinel":
                guard, kind = t.left.attr, "sentinel"
            elif isinstance(t, ast.Compare) and isinstance(t.left, ast.Call) and getattr(t.left.func, "id", "") == "len" \
                    and isinstance(t.ops[0], ast.Gt) and isinstance(t.comparators[0], ast.Constant) and t.comparators[0].value == 0:
                guard, kind = t.left.args[0].attr, "nonempty"
            else:
                continue
            for st in node.body:
                if isinstance(st, ast.Assign) and isinstance(st.targets[0], ast.Attribute) and getattr(st.targets[0].value, "id", "") == "config":
                    v = st.value
                    wires.append((guard, st.targets[0].attr, v.attr if isinstance(v, ast.Attribute) and getattr(v.value, "id", "") == "args" else "?", kind))
        elif isinstance(node, ast.Assign) and isinstance(node.targets[0], ast.Attribute) and getattr(node.targets[0].value, "id", "") == "config":
            v = node.value
            wires.append(("", node.targets[0].attr, v.attr if isinstance(v, ast.Attribute) else "?", "always"))
    if len(args) < 10 or len(wires) < 10:
        fail("cli", f"only {len(args)} arguments / {len(wires)} wires recognised")
    out = ["/- GENERATED by tools/extract.py from src/hypercorn/__main__.py — do not edit -/", "namespace HC.Extracted.Cli",
           "structure Arg where\n  flags : List String\n  dest : String\n  default : String\n  action : String\n  type : String\nderiving Repr, DecidableEq",
           "structure Wire where\n  guard : String\n  attr : String\n  source : String\n  kind : String\nderiving Repr, DecidableEq",
           "def args : List Arg := [\n" + ",\n".join(f"  ⟨[{', '.join(q(x) for x in a[0])}], {q(a[1])}, {q(a[2])}, {q(a[3])}, {q(a[4])}⟩" for a in args) + "]",
           "def wires : List Wire := [\n" + ",\n".join(f"  ⟨{q(g)}, {q(a)}, {q(s)}, {q(k)}⟩" for g, a, s, k in wires) + "]",
           "end HC.Extracted.Cli", ""]
    return "\n".join(out)


def extract_consts(src: Path) -> str:
    out = ["/- GENERATED by tools/extract.py — module constants and Config defaults — do not edit -/", "namespace HC.Extracted.Consts"]

    def emit(name: str, v: Any, note: str = "") -> None:
        try:
            ty, term = lean_val(v)
            out.append(f"def {name} : {ty} := {term}" + (f"   -- {note}" if note else ""))
        except Exception as e:
            fail(f"const {name}", str(e))

    wanted = [
        ("protocol/h2.py", ["BUFFER_HIGH_WATER", "BUFFER_LOW_WATER"], "h2"),
        ("protocol/h11.py", ["STREAM_ID"], "h11"),
        ("asyncio/tcp_server.py", ["MAX_RECV"], "asyncio"),
        ("trio/tcp_server.py", ["MAX_RECV"], "trio"),
        ("protocol/http_stream.py", ["TRAILERS_VERSIONS", "PUSH_VERSIONS", "EARLY_HINTS_VERSIONS"], "http"),
        ("middleware/dispatcher.py", ["MAX_QUEUE_SIZE"], "dispatcher"),
        ("middleware/wsgi.py", ["MAX_BODY_SIZE"], "wsgi"),
    ]
    for rel, names, pre in wanted:
        try:
            env = module_consts(parse(src / rel))
        except Exception as e:
            fail(f"consts {rel}", str(e))
            continue
        for n in names:
            if n not in env:
                fail(f"const {rel}:{n}", "not found / not foldable")
            else:
                emit(f"{pre}_{n}", env[n])
    # Config defaults
    try:
        tree = parse(src / "config.py")
        env = module_consts(tree)
        cfg = find_def(tree, "Config")
        keys = []
        for st in cfg.body:  # type: ignore
            name = val = None
            if isinstance(st, ast.Assign) and isinstance(st.targets[0], ast.Name):
                name, val = st.targets[0].id, st.value
            elif isinstance(st, ast.AnnAssign) and isinstance(st.target, ast.Name) and st.value is not None:
                name, val = st.target.id, st.value
            if name is None:
                continue
            try:
                v = fold(val, env)
            except Exception:
                continue
            if isinstance(v, list) and not all(isinstance(x, str) for x in v):
                continue
            if isinstance(v, float) and v != int(v):
                emit(f"cfg_{name.lstrip('_')}_ms", v, "milliseconds")
            else:
                emit(f"cfg_{name.lstrip('_')}", v)
            keys.append(name)
        out.append("def configKeys : List String := [" + ", ".join(q(k) for k in keys) + "]")
        if len(keys) < 30:
            fail("config defaults", f"only {len(keys)} literal defaults found")
    except Exception as e:
        fail("config defaults", str(e))
    out += ["end HC.Extracted.Consts", ""]
    return "\n".join(out)


def extract_guards(src: Path) -> str:
    out = ["/- GENERATED by tools/extract.py — comparison sites and expression-level functions — do not edit -/",
           "import HC.Extracted.Consts",
           "namespace HC.Extracted.Guards",
           "inductive Cmp | lt | le | gt | ge | eq | ne\nderiving Repr, DecidableEq",
           "def Cmp.eval : Cmp → Nat → Nat → Bool\n  | .lt, a, b => decide (a < b)\n  | .le, a, b => decide (a ≤ b)\n  | .gt, a, b => decide (a > b)\n"
           "  | .ge, a, b => decide (a ≥ b)\n  | .eq, a, b => a == b\n  | .ne, a, b => a != b",
           "def Cmp.evalI : Cmp → Int → Int → Bool\n  | .lt, a, b => decide (a < b)\n  | .le, a, b => decide (a ≤ b)\n  | .gt, a, b => decide (a > b)\n"
           "  | .ge, a, b => decide (a ≥ b)\n  | .eq, a, b => a == b\n  | .ne, a, b => a != b"]
    sites = [
        # (lean name, file, path to def, needle in the comparison, expected left operand text)
        ("h11KeepAliveCmp", "protocol/h11.py", ("H11Protocol", "stream_send"), "keep_alive_max_requests", "self.keep_alive_requests"),
        ("h11FinalStatusCmp", "protocol/h11.py", ("H11Protocol", "stream_send"), "status_code", "event.status_code"),
        ("h2KeepAliveCmp", "protocol/h2.py", ("H2Protocol", "_handle_events"), "keep_alive_max_requests", "self.keep_alive_requests"),
        ("bufferPushCmp", "protocol/h2.py", ("StreamBuffer", "push"), "BUFFER_HIGH_WATER", "len(self.buffer)"),
        ("asyncioRecycleCmp", "asyncio/worker_context.py", ("WorkerContext", "mark_request"), "max_requests", "self.requests"),
        ("trioRecycleCmp", "trio/worker_context.py", ("WorkerContext", "mark_request"), "max_requests", "self.requests"),
        ("wsgiBodyCmp", "app_wrappers.py", ("WSGIWrapper", "handle_http"), "max_body_size", "len(body)"),
        ("wsBufferCmp", "protocol/ws_stream.py", ("WebsocketBuffer", "extend"), "max_length", "self.length"),
        ("proxyEnoughCmp", "middleware/proxy_fix.py", ("_get_trusted_value",), "len(values)", "len(values)"),
    ]
    for lean, rel, path, needle, left in sites:
        try:
            fn = find_def(parse(src / rel), *path)
            if fn is None:
                fail(f"guard {lean}", f"{rel}:{'.'.join(path)} not found")
                continue
            c = find_compare(fn, needle)
            if c is None or len(c.ops) != 1 or type(c.ops[0]) not in CMPNAME:
                fail(f"guard {lean}", f"no simple comparison mentioning {needle} in {rel}:{'.'.join(path)}")
                continue
            ltxt = ast.unparse(c.left)
            if left is not None and ltxt != left:
                fail(f"guard {lean}", f"left operand is `{ltxt}`, expected `{left}`")
                continue
            out.append(f"def {lean} : Cmp := .{CMPNAME[type(c.ops[0])]}   -- `{ast.unparse(c)}` in {rel}")
        except Exception as e:
            fail(f"guard {lean}", str(e))
    # StreamBuffer.pop: the condition under which a waiting pusher is released (`await self._paused.set()`)
    try:
        fn = find_def(parse(src / "protocol/h2.py"), "StreamBuffer", "pop")
        test = None
        for n in ast.walk(fn):  # type: ignore
            if isinstance(n, ast.If) and any("_paused.set" in ast.unparse(b) for b in n.body):
                test = n.test
        if test is None:
            fail("bufferPopRelease", "no `if …: await self._paused.set()` in StreamBuffer.pop")
        else:
            NAMES.clear()
            NAMES.update({"len(data)": "chunk", "len(self.buffer)": "remaining", "BUFFER_LOW_WATER": "HC.Extracted.Consts.h2_BUFFER_LOW_WATER",
                          "BUFFER_HIGH_WATER": "HC.Extracted.Consts.h2_BUFFER_HIGH_WATER"})
            out.append(f"def bufferPopRelease (chunk remaining : Nat) : Bool :=\n  {expr(test)}   -- `{ast.unparse(test)}`")
            NAMES.clear()
        # the popped length: `length = min(len(self.buffer), max_length)`
        mins = [n for n in ast.walk(fn) if isinstance(n, ast.Assign) and ast.unparse(n.value).replace(" ", "") == "min(len(self.buffer),max_length)"]  # type: ignore
        if not mins:
            fail("bufferPopLength", "`length = min(len(self.buffer), max_length)` not found")
    except Exception as e:
        fail("bufferPopRelease", str(e))
    # suppress_body
    try:
        fn = find_def(parse(src / "utils.py"), "suppress_body")
        ret = [s for s in fn.body if isinstance(s, ast.Return)]  # type: ignore
        argn = [a.arg for a in fn.args.args]  # type: ignore
        if len(fn.body) != 1 or not ret or argn != ["method", "status_code"]:  # type: ignore
            fail("suppress_body", "unexpected shape")
        else:
            out.append(f"def suppressBody (method : String) (status_code : Nat) : Bool :=\n  {expr(ret[0].value)}")
    except Exception as e:
        fail("suppress_body", str(e))
    out += ["end HC.Extracted.Guards", ""]
    return "\n".join(out)


def extract_excepts(src: Path) -> str:
    out = ["/- GENERATED by tools/extract.py — exception classes caught per site — do not edit -/", "namespace HC.Extracted.Excepts"]
    sites = [
        ("h2SendData", "protocol/h2.py", ("H2Protocol", "_send_data")),
        ("h2Handle", "protocol/h2.py", ("H2Protocol", "handle")),
        ("h2StreamSend", "protocol/h2.py", ("H2Protocol", "stream_send")),
        ("h2HandleEvents", "protocol/h2.py", ("H2Protocol", "_handle_events")),
        ("h2PriorityUpdated", "protocol/h2.py", ("H2Protocol", "_priority_updated")),
        ("h2CreateStream", "protocol/h2.py", ("H2Protocol", "_create_stream")),
        ("h2ServerPush", "protocol/h2.py", ("H2Protocol", "_create_server_push")),
        ("h11HandleEvents", "protocol/h11.py", ("H11Protocol", "_handle_events")),
        ("h11SendEvent", "protocol/h11.py", ("H11Protocol", "_send_h11_event")),
        ("h11MaybeRecycle", "protocol/h11.py", ("H11Protocol", "_maybe_recycle")),
        ("wsHandleEvents", "protocol/ws_stream.py", ("WSStream", "_handle_events")),
        ("wsSendEvent", "protocol/ws_stream.py", ("WSStream", "_send_wsproto_event")),
        ("asyncioProtocolSend", "asyncio/tcp_server.py", ("TCPServer", "protocol_send")),
        ("asyncioReadData", "asyncio/tcp_server.py", ("TCPServer", "_read_data")),
        ("trioProtocolSend", "trio/tcp_server.py", ("TCPServer", "protocol_send")),
        ("trioReadData", "trio/tcp_server.py", ("TCPServer", "_read_data")),
    ]
    for lean, rel, path in sites:
        try:
            fn = find_def(parse(src / rel), *path)
            if fn is None:
                fail(f"except {lean}", f"{rel}:{'.'.join(path)} not found")
                continue
            names: List[str] = []
            for n in ast.walk(fn):
                if isinstance(n, ast.ExceptHandler) and n.type is not None:
                    ts = n.type.elts if isinstance(n.type, ast.Tuple) else [n.type]
                    for t in ts:
                        names.append(ast.unparse(t).split(".")[-1])
            out.append(f"def {lean} : List String := [" + ", ".join(q(x) for x in names) + "]")
        except Exception as e:
            fail(f"except {lean}", str(e))
    out += ["end HC.Extracted.Excepts", ""]
    return "\n".join(out)


def extract_h11_tables(src: Path) -> str:
    """The installed h11's state tables (data, `h11._state`); hypercorn itself is never imported."""
    out = ["/- GENERATED by tools/extract.py from the installed h11 (h11._state tables) — do not edit -/", "namespace HC.Extracted.H11Tables",
           "inductive HSt | idle | sendResponse | sendBody | done | mustClose | closed | error | mightSwitch | switched\nderiving Repr, DecidableEq",
           "inductive Role | client | server\nderiving Repr, DecidableEq",
           "inductive EvKey | request | requestClient | info | response | data | eom | connClosed | infoSwitchUpgrade | responseSwitchConnect\nderiving Repr, DecidableEq"]
    import h11
    from h11 import _state as st
    from h11 import _events as ev
    sname = {st.IDLE: "idle", st.SEND_RESPONSE: "sendResponse", st.SEND_BODY: "sendBody", st.DONE: "done", st.MUST_CLOSE: "mustClose",
             st.CLOSED: "closed", st.ERROR: "error", st.MIGHT_SWITCH_PROTOCOL: "mightSwitch", st.SWITCHED_PROTOCOL: "switched"}
    rname = {st.CLIENT: "client", st.SERVER: "server"}

    def key(k):
        if isinstance(k, tuple):
            a, b = k
            if a is ev.Request and b is st.CLIENT:
                return "requestClient"
            if a is ev.InformationalResponse and b is st._SWITCH_UPGRADE:
                return "infoSwitchUpgrade"
            if a is ev.Response and b is st._SWITCH_CONNECT:
                return "responseSwitchConnect"
            raise ValueError(repr(k))
        return {ev.Request: "request", ev.InformationalResponse: "info", ev.Response: "response", ev.Data: "data", ev.EndOfMessage: "eom",
                ev.ConnectionClosed: "connClosed"}[k]

    rows = []
    for role, table in st.EVENT_TRIGGERED_TRANSITIONS.items():
        for s0, trans in table.items():
            for k, s1 in trans.items():
                rows.append(f"  (.{rname[role]}, .{sname[s0]}, .{key(k)}, .{sname[s1]})")
    out.append("def eventTable : List (Role × HSt × EvKey × HSt) := [\n" + ",\n".join(rows) + "]")
    rows = []
    for (c, s_), changes in st.STATE_TRIGGERED_TRANSITIONS.items():
        for role, s1 in changes.items():
            rows.append(f"  (.{sname[c]}, .{sname[s_]}, .{rname[role]}, .{sname[s1]})")
    out.append("def stateTable : List (HSt × HSt × Role × HSt) := [\n" + ",\n".join(rows) + "]")
    out.append(f"def h11Version : String := {q(h11.__version__)}")
    out += ["end HC.Extracted.H11Tables", ""]
    return "\n".join(out)


def main() -> int:
    ap = argparse.ArgumentParser()
    ap.add_argument("--repo", default="/repo")
    ap.add_argument("--out", default=str(Path(__file__).resolve().parents[1] / "lean" / "HC" / "Extracted"))
    a = ap.parse_args()
    src = Path(a.repo) / "src" / "hypercorn"
    outd = Path(a.out)
    outd.mkdir(parents=True, exist_ok=True)
    for name, fn in [("Cli", extract_cli), ("Consts", extract_consts), ("Guards", extract_guards), ("Excepts", extract_excepts),
                     ("H11Tables", extract_h11_tables)]:
        CURRENT[0] = name
        try:
            text = fn(src)
        except Exception as e:  # a file that no longer parses etc.
            fail(name, f"{type(e).__name__}: {e}")
            continue
        changed = write_if_changed(outd / f"{name}.lean", text)
        print(f"EXTRACT {name}.lean {'updated' if changed else 'unchanged'}")
    for f in FAILS:
        print(f)
    return 1 if FAILS else 0


if __name__ == "__main__":
    sys.exit(main())
