#!/usr/bin/env python3
"""Translator: /repo/src/hypercorn  →  /verif/lean/HC/Extracted/*.lean   (stdlib `ast` only; never imports hypercorn).

What is translated mechanically (DESIGN.md 3.4a):
  * module constants and `class Config` literal defaults (constant-folded),
  * comparison operators / which operand is compared at the limit-guarding sites,
  * the expression-level function `suppress_body`,
  * the argparse table and the `config.X = args.Y` wiring of `__main__.main`,
  * the exception classes named by the `except` clauses of the protocol glue.
The hand-written models take these as parameters, so the theorems are re-checked against what the code says now.
A shape the translator does not recognise is reported as `EXTRACT-FAIL <item>: <why>` and exit status 1;
the other files are still written (only when their content changed, so an unchanged tree triggers no rebuild).
"""
from __future__ import annotations

import argparse
import ast
import json
import os
import re
import sys
from pathlib import Path
from typing import Any, Dict, List, Optional, Tuple

FAILS: List[str] = []
CURRENT = ["?"]


def fail(item: str, why: str) -> None:
    FAILS.append(f"EXTRACT-FAIL [{CURRENT[0]}] {item}: {why}")


def q(s: str) -> str:
    return json.dumps(s, ensure_ascii=False)


def parse(path: Path) -> ast.Module:
    # calls to simple helpers that did not exist at the pinned commit are expanded in place (tools/inline_helpers.py), so that
    # an "extract a helper" refactoring reads as the statements it replaced
    sys.path.insert(0, str(Path(__file__).resolve().parent))
    try:
        import inline_helpers
    finally:
        sys.path.pop(0)
    return inline_helpers.parse_expanded(path)


def find_def(tree: ast.AST, *names: str) -> Optional[ast.AST]:
    node: Any = tree
    for name in names:
        nxt = None
        for ch in ast.walk(node):
            if ch is node:
                continue
            if isinstance(ch, (ast.FunctionDef, ast.AsyncFunctionDef, ast.ClassDef)) and ch.name == name:
                nxt = ch
                break
        if nxt is None:
            return None
        if isinstance(node, ast.ClassDef) and isinstance(nxt, (ast.FunctionDef, ast.AsyncFunctionDef)):
            nxt = inline_simple_helpers(node, nxt)     # "extract a helper" refactors are read through (one level)
        node = nxt
    return node


# ---------------------------------------------------------------------------------------------------------
# reading through simple helper methods: `x = self._h(a)` where `_h` is a SYNC method of the same class whose body is
# straight-line assignments to local names ending in `return <expr>` is treated as the helper's assignments (parameters
# substituted) followed by `x = <expr>`; a helper that is a single `return <expr>` is substituted wherever it is called.
# One level only; anything else (async helpers, branches, loops, *args, arguments that are not plain names / attributes /
# constants, decorated methods) is left as it is - and so remains EXTRACT-FAIL wherever an item does not recognise it.
# ---------------------------------------------------------------------------------------------------------
_INLINE_CACHE: Dict[Tuple[int, str], Tuple[ast.AST, ast.AST]] = {}


def _simple_arg(e: ast.AST) -> bool:
    if isinstance(e, (ast.Name, ast.Constant)):
        return True
    if isinstance(e, ast.Attribute):
        return _simple_arg(e.value)
    if isinstance(e, ast.Subscript):
        return _simple_arg(e.value) and _simple_arg(e.slice)
    return False


def _simple_helper(cls_node: ast.ClassDef, name: str) -> Optional[Tuple[List[str], List[ast.stmt]]]:
    """(parameter names without self, body without docstring) of a helper of the recognised shape, else None"""
    for st in cls_node.body:
        if isinstance(st, ast.FunctionDef) and st.name == name:
            a = st.args
            if st.decorator_list or a.vararg or a.kwarg or a.kwonlyargs or a.posonlyargs or a.defaults or not a.args or a.args[0].arg != "self":
                return None
            body = list(st.body)
            if body and isinstance(body[0], ast.Expr) and isinstance(body[0].value, ast.Constant) and isinstance(body[0].value.value, str):
                body = body[1:]
            if not body or not isinstance(body[-1], ast.Return) or body[-1].value is None:
                return None
            for b in body[:-1]:
                plain = isinstance(b, ast.Assign) and len(b.targets) == 1 and isinstance(b.targets[0], ast.Name)
                ann = isinstance(b, ast.AnnAssign) and isinstance(b.target, ast.Name) and b.value is not None
                if not (plain or ann):
                    return None
            if any(isinstance(n, (ast.Await, ast.Yield, ast.YieldFrom, ast.Lambda, ast.NamedExpr, ast.ListComp, ast.SetComp, ast.DictComp, ast.GeneratorExp))
                   for b in body for n in ast.walk(b)):
                return None
            return [x.arg for x in a.args[1:]], body
    return None


def inline_simple_helpers(cls_node: ast.ClassDef, fn_node: ast.AST) -> ast.AST:
    """`fn_node` (a method of `cls_node`) with one level of calls to simple helper methods of the same class read through;
    `fn_node` itself when there is nothing to inline.  The result is re-parsed from its own source, so positions are consistent."""
    import copy
    key = (id(cls_node), getattr(fn_node, "name", "?"))
    hit = _INLINE_CACHE.get(key)
    if hit is not None and hit[0] is fn_node:
        return hit[1]
    caller_names = {n.id for n in ast.walk(fn_node) if isinstance(n, ast.Name)} | {a.arg for a in ast.walk(fn_node) if isinstance(a, ast.arg)}
    changed = [False]

    def helper_call(e: Any) -> Optional[Tuple[str, List[str], List[ast.stmt], List[ast.AST]]]:
        if not (isinstance(e, ast.Call) and isinstance(e.func, ast.Attribute) and isinstance(e.func.value, ast.Name) and e.func.value.id == "self"):
            return None
        if e.func.attr == getattr(fn_node, "name", None) or any(isinstance(a, ast.Starred) for a in e.args) or any(k.arg is None for k in e.keywords):
            return None
        h = _simple_helper(cls_node, e.func.attr)
        if h is None:
            return None
        params, body = h
        bound: Dict[str, ast.AST] = dict(zip(params, e.args))
        for k in e.keywords:
            if k.arg in bound or k.arg not in params:
                return None
            bound[k.arg] = k.value
        if len(e.args) > len(params) or set(bound) != set(params) or not all(_simple_arg(v) for v in bound.values()):
            return None
        return e.func.attr, params, body, [bound[p] for p in params]

    def instantiate(name: str, params: List[str], body: List[ast.stmt], args: List[ast.AST], keep: Optional[str]) -> Tuple[List[ast.stmt], ast.AST]:
        """the helper's assignments and its return expression with parameters replaced by the arguments; a local of the helper
        that also occurs in the caller (other than as the target `keep` of this very assignment) or in an argument is renamed"""
        arg_names = {n.id for a in args for n in ast.walk(a) if isinstance(n, ast.Name)}
        locals_ = [b.targets[0].id if isinstance(b, ast.Assign) else b.target.id for b in body[:-1]]    # type: ignore[union-attr]
        ren = {v: f"_{name.strip('_')}_{v}" for v in locals_ if (v in arg_names or v in params or (v in caller_names and v != keep))}
        env = dict(zip(params, args))

        class Sub(ast.NodeTransformer):
            def visit_Name(self, n: ast.Name) -> Any:
                if n.id in ren:
                    return ast.copy_location(ast.Name(id=ren[n.id], ctx=n.ctx), n)
                if n.id in env and isinstance(n.ctx, ast.Load):
                    return copy.deepcopy(env[n.id])
                return n
        stmts = [Sub().visit(copy.deepcopy(b)) for b in body]
        return stmts[:-1], stmts[-1].value

    class Expr1(ast.NodeTransformer):
        """helpers that are a single `return <expr>`: substituted in place, wherever they are called"""
        def visit_Call(self, e: ast.Call) -> Any:
            self.generic_visit(e)
            h = helper_call(e)
            if h is not None and len(h[2]) == 1:
                changed[0] = True
                return instantiate(h[0], h[1], h[2], h[3], None)[1]
            return e

    def block(stmts: List[ast.stmt]) -> List[ast.stmt]:
        out: List[ast.stmt] = []
        for st in stmts:
            val = st.value if isinstance(st, (ast.Assign, ast.AnnAssign, ast.Expr, ast.Return)) else None
            h = helper_call(val) if val is not None else None
            if h is not None and not (isinstance(st, ast.Assign) and len(st.targets) != 1):
                keep = None
                if isinstance(st, ast.Assign) and isinstance(st.targets[0], ast.Name):
                    keep = st.targets[0].id
                elif isinstance(st, ast.AnnAssign) and isinstance(st.target, ast.Name):
                    keep = st.target.id
                pre, ret = instantiate(h[0], h[1], h[2], h[3], keep)
                new = copy.copy(st)
                new.value = ret         # type: ignore[attr-defined]
                out += pre + [new]
                changed[0] = True
                continue
            for field in ("body", "orelse", "finalbody"):
                sub = getattr(st, field, None)
                if isinstance(sub, list) and sub and isinstance(sub[0], ast.stmt) and not isinstance(st, (ast.FunctionDef, ast.AsyncFunctionDef, ast.ClassDef)):
                    setattr(st, field, block(sub))
            for hd in getattr(st, "handlers", []) or []:
                hd.body = block(hd.body)
            for case in getattr(st, "cases", []) or []:
                case.body = block(case.body)
            out.append(st)
        return out

    work = copy.deepcopy(fn_node)
    work.body = block(work.body)            # type: ignore[attr-defined]
    work = Expr1().visit(work)
    result: ast.AST = fn_node
    if changed[0]:
        try:
            ast.fix_missing_locations(work)
            result = ast.parse(ast.unparse(work)).body[0]
        except Exception:  # noqa
            result = fn_node
    _INLINE_CACHE[key] = (fn_node, result)
    return result


# ---------------------------------------------------------------------------------------------------------
# constant folding
# ---------------------------------------------------------------------------------------------------------
def fold(node: ast.AST, env: Dict[str, Any]) -> Any:
    if isinstance(node, ast.Constant):
        return node.value
    if isinstance(node, ast.Name):
        if node.id in env:
            return env[node.id]
        raise ValueError(f"name {node.id}")
    if isinstance(node, ast.UnaryOp) and isinstance(node.op, ast.USub):
        return -fold(node.operand, env)
    if isinstance(node, ast.BinOp):
        a, b = fold(node.left, env), fold(node.right, env)
        if isinstance(node.op, ast.Mult):
            return a * b
        if isinstance(node.op, ast.Pow):
            return a ** b
        if isinstance(node.op, ast.Add):
            return a + b
        if isinstance(node.op, ast.Sub):
            return a - b
        if isinstance(node.op, ast.Div):
            return a / b
        if isinstance(node.op, ast.FloorDiv):
            return a // b
    if isinstance(node, (ast.List, ast.Tuple)):
        return [fold(e, env) for e in node.elts]
    if isinstance(node, ast.Set):
        return sorted(fold(e, env) for e in node.elts)
    raise ValueError(ast.dump(node)[:60])


def module_consts(tree: ast.Module) -> Dict[str, Any]:
    env: Dict[str, Any] = {}
    for st in tree.body:
        if isinstance(st, ast.Assign) and len(st.targets) == 1 and isinstance(st.targets[0], ast.Name):
            try:
                env[st.targets[0].id] = fold(st.value, env)
            except Exception:
                pass
    return env


def lean_val(v: Any) -> Tuple[str, str]:
    """(type, term)"""
    if isinstance(v, bool):
        return "Bool", "true" if v else "false"
    if isinstance(v, int):
        return ("Int", f"({v})") if v < 0 else ("Nat", str(v))
    if isinstance(v, float):
        if v == int(v):
            return "Nat", str(int(v))
        # milli-units
        return "Nat", str(int(round(v * 1000)))
    if isinstance(v, str):
        return "String", q(v)
    if v is None:
        return "Option Nat", "none"
    if isinstance(v, list) and all(isinstance(x, str) for x in v):
        return "List String", "[" + ", ".join(q(x) for x in v) + "]"
    raise ValueError(repr(v))


# ---------------------------------------------------------------------------------------------------------
# expression translation (BoolOp / Compare / in {…} / names / literals)  → Lean Bool term
# ---------------------------------------------------------------------------------------------------------
CMP = {ast.Lt: "<", ast.LtE: "≤", ast.Gt: ">", ast.GtE: "≥", ast.Eq: "==", ast.NotEq: "!="}
CMPNAME = {ast.Lt: "lt", ast.LtE: "le", ast.Gt: "gt", ast.GtE: "ge", ast.Eq: "eq", ast.NotEq: "ne"}


NAMES: Dict[str, str] = {}


def expr(node: ast.AST) -> str:
    txt = ast.unparse(node)
    if txt in NAMES:
        return NAMES[txt]
    if isinstance(node, ast.BoolOp):
        op = " || " if isinstance(node.op, ast.Or) else " && "
        return "(" + op.join(expr(v) for v in node.values) + ")"
    if isinstance(node, ast.UnaryOp) and isinstance(node.op, ast.Not):
        return f"(!{expr(node.operand)})"
    if isinstance(node, ast.Compare):
        parts = []
        left = node.left
        for op, right in zip(node.ops, node.comparators):
            if isinstance(op, ast.In) and isinstance(right, ast.Set):
                parts.append("(" + " || ".join(f"({expr(left)} == {expr(e)})" for e in right.elts) + ")")
            elif type(op) in (ast.Eq, ast.NotEq):
                parts.append(f"({expr(left)} {CMP[type(op)]} {expr(right)})")
            elif type(op) in CMP:
                parts.append(f"(decide ({expr(left)} {CMP[type(op)]} {expr(right)}))")
            else:
                raise ValueError(f"operator {type(op).__name__}")
            left = right
        return "(" + " && ".join(parts) + ")"
    if isinstance(node, ast.Name):
        return node.id
    if isinstance(node, ast.Constant):
        if isinstance(node.value, str):
            return q(node.value)
        if isinstance(node.value, bool):
            return "true" if node.value else "false"
        if isinstance(node.value, int):
            return str(node.value)
    raise ValueError(ast.dump(node)[:80])


def find_compare(fn: ast.AST, needle: str) -> Optional[ast.Compare]:
    for n in ast.walk(fn):
        if isinstance(n, ast.Compare) and needle in ast.unparse(n) and len(n.ops) == 1 and type(n.ops[0]) in CMPNAME:
            return n
    return None


# ---------------------------------------------------------------------------------------------------------
def write_if_changed(path: Path, text: str) -> bool:
    if path.exists() and path.read_text() == text:
        return False
    tmp = path.with_suffix(path.suffix + f".tmp{os.getpid()}")
    tmp.write_text(text)
    os.replace(tmp, path)
    return True


def extract_cli(src: Path) -> str:
    tree = parse(src / "__main__.py")
    main = find_def(tree, "main")
    args, wires = [], []
    if main is None:
        fail("cli", "function main not found")
        main = ast.Module(body=[], type_ignores=[])

    def const(n: ast.AST) -> Any:
        if isinstance(n, ast.Constant):
            return n.value
        if isinstance(n, ast.Name):
            return f"${n.id}"
        if isinstance(n, ast.List) and not n.elts:
            return []
        return "?"

    for node in ast.walk(main):
        if isinstance(node, ast.Call) and isinstance(node.func, ast.Attribute) and node.func.attr == "add_argument":
            flags = [a.value for a in node.args if isinstance(a, ast.Constant)]
            kw = {k.arg: k.value for k in node.keywords}
            dest = const(kw["dest"]) if "dest" in kw else None
            if dest is None:
                longs = [f for f in flags if f.startswith("--")]
                dest = (longs[0][2:] if longs else flags[0].lstrip("-")).replace("-", "_")
            default = const(kw["default"]) if "default" in kw else None
            dk = "sentinel" if default == "$sentinel" else ("list" if default == [] else ("none" if default is None else f"lit:{default!r}"))
            ty = kw.get("type")
            tyname = ty.id if isinstance(ty, ast.Name) else ("func" if ty is not None else "str")
            args.append((flags, dest, dk, const(kw["action"]) if "action" in kw else "store", tyname))
    for node in getattr(main, "body", []):
        if isinstance(node, ast.If):
            t = node.test
            guard = kind = None
            if isinstance(t, ast.Compare) and isinstance(t.ops[0], ast.IsNot) and isinstance(t.left, ast.Attribute) \
                    and isinstance(t.comparators[0], ast.Name) and t.comparators[0].id == "sentinel":
                guard, kind = t.left.attr, "sentinel"
            elif isinstance(t, ast.Compare) and isinstance(t.left, ast.Call) and getattr(t.left.func, "id", "") == "len" \
                    and isinstance(t.ops[0], ast.Gt) and isinstance(t.comparators[0], ast.Constant) and t.comparators[0].value == 0:
                guard, kind = t.left.args[0].attr, "nonempty"
            else:
                continue
            for st in node.body:
                if isinstance(st, ast.Assign) and isinstance(st.targets[0], ast.Attribute) and getattr(st.targets[0].value, "id", "") == "config":
                    v = st.value
                    wires.append((guard, st.targets[0].attr, v.attr if isinstance(v, ast.Attribute) and getattr(v.value, "id", "") == "args" else "?", kind))
        elif isinstance(node, ast.Assign) and isinstance(node.targets[0], ast.Attribute) and getattr(node.targets[0].value, "id", "") == "config":
            v = node.value
            wires.append(("", node.targets[0].attr, v.attr if isinstance(v, ast.Attribute) else "?", "always"))
    if len(args) < 10 or len(wires) < 10:
        fail("cli", f"only {len(args)} arguments / {len(wires)} wires recognised")
    out = ["/- GENERATED by tools/extract.py from src/hypercorn/__main__.py — do not edit -/", "namespace HC.Extracted.Cli",
           "structure Arg where\n  flags : List String\n  dest : String\n  default : String\n  action : String\n  type : String\nderiving Repr, DecidableEq",
           "structure Wire where\n  guard : String\n  attr : String\n  source : String\n  kind : String\nderiving Repr, DecidableEq",
           "def args : List Arg := [\n" + ",\n".join(f"  ⟨[{', '.join(q(x) for x in a[0])}], {q(a[1])}, {q(a[2])}, {q(a[3])}, {q(a[4])}⟩" for a in args) + "]",
           "def wires : List Wire := [\n" + ",\n".join(f"  ⟨{q(g)}, {q(a)}, {q(s)}, {q(k)}⟩" for g, a, s, k in wires) + "]",
           "end HC.Extracted.Cli", ""]
    return "\n".join(out)


def extract_consts(src: Path) -> str:
    out = ["/- GENERATED by tools/extract.py — module constants and Config defaults — do not edit -/", "namespace HC.Extracted.Consts"]

    def emit(name: str, v: Any, note: str = "") -> None:
        try:
            ty, term = lean_val(v)
            out.append(f"def {name} : {ty} := {term}" + (f"   -- {note}" if note else ""))
        except Exception as e:
            fail(f"const {name}", str(e))

    wanted = [
        ("protocol/h2.py", ["BUFFER_HIGH_WATER", "BUFFER_LOW_WATER"], "h2"),
        ("protocol/h11.py", ["STREAM_ID"], "h11"),
        ("asyncio/tcp_server.py", ["MAX_RECV"], "asyncio"),
        ("trio/tcp_server.py", ["MAX_RECV"], "trio"),
        ("protocol/http_stream.py", ["TRAILERS_VERSIONS", "PUSH_VERSIONS", "EARLY_HINTS_VERSIONS"], "http"),
        ("middleware/dispatcher.py", ["MAX_QUEUE_SIZE"], "dispatcher"),
        ("middleware/wsgi.py", ["MAX_BODY_SIZE"], "wsgi"),
    ]
    for rel, names, pre in wanted:
        try:
            env = module_consts(parse(src / rel))
        except Exception as e:
            fail(f"consts {rel}", str(e))
            continue
        for n in names:
            if n not in env:
                fail(f"const {rel}:{n}", "not found / not foldable")
            else:
                emit(f"{pre}_{n}", env[n])
    # Config defaults
    try:
        tree = parse(src / "config.py")
        env = module_consts(tree)
        cfg = find_def(tree, "Config")
        keys = []
        for st in cfg.body:  # type: ignore
            name = val = None
            if isinstance(st, ast.Assign) and isinstance(st.targets[0], ast.Name):
                name, val = st.targets[0].id, st.value
            elif isinstance(st, ast.AnnAssign) and isinstance(st.target, ast.Name) and st.value is not None:
                name, val = st.target.id, st.value
            if name is None:
                continue
            try:
                v = fold(val, env)
            except Exception:
                continue
            if isinstance(v, list) and not all(isinstance(x, str) for x in v):
                continue
            if isinstance(v, float) and v != int(v):
                emit(f"cfg_{name.lstrip('_')}_ms", v, "milliseconds")
            else:
                emit(f"cfg_{name.lstrip('_')}", v)
            keys.append(name)
        out.append("def configKeys : List String := [" + ", ".join(q(k) for k in keys) + "]")
        if len(keys) < 30:
            fail("config defaults", f"only {len(keys)} literal defaults found")
    except Exception as e:
        fail("config defaults", str(e))
    out += ["end HC.Extracted.Consts", ""]
    return "\n".join(out)


def extract_guards(src: Path) -> str:
    out = ["/- GENERATED by tools/extract.py — comparison sites and expression-level functions — do not edit -/",
           "import HC.Extracted.Consts",
           "namespace HC.Extracted.Guards",
           "inductive Cmp | lt | le | gt | ge | eq | ne\nderiving Repr, DecidableEq",
           "def Cmp.eval : Cmp → Nat → Nat → Bool\n  | .lt, a, b => decide (a < b)\n  | .le, a, b => decide (a ≤ b)\n  | .gt, a, b => decide (a > b)\n"
           "  | .ge, a, b => decide (a ≥ b)\n  | .eq, a, b => a == b\n  | .ne, a, b => a != b",
           "def Cmp.evalI : Cmp → Int → Int → Bool\n  | .lt, a, b => decide (a < b)\n  | .le, a, b => decide (a ≤ b)\n  | .gt, a, b => decide (a > b)\n"
           "  | .ge, a, b => decide (a ≥ b)\n  | .eq, a, b => a == b\n  | .ne, a, b => a != b"]
    sites = [
        # (lean name, file, path to def, needle in the comparison, expected left operand text)
        ("h11KeepAliveCmp", "protocol/h11.py", ("H11Protocol", "stream_send"), "keep_alive_max_requests", "self.keep_alive_requests"),
        ("h11FinalStatusCmp", "protocol/h11.py", ("H11Protocol", "stream_send"), "status_code", "event.status_code"),
        ("h2KeepAliveCmp", "protocol/h2.py", ("H2Protocol", "_handle_events"), "keep_alive_max_requests", "self.keep_alive_requests"),
        ("bufferPushCmp", "protocol/h2.py", ("StreamBuffer", "push"), "BUFFER_HIGH_WATER", "len(self.buffer)"),
        ("asyncioRecycleCmp", "asyncio/worker_context.py", ("WorkerContext", "mark_request"), "max_requests", "self.requests"),
        ("trioRecycleCmp", "trio/worker_context.py", ("WorkerContext", "mark_request"), "max_requests", "self.requests"),
        ("wsgiBodyCmp", "app_wrappers.py", ("WSGIWrapper", "handle_http"), "max_body_size", "len(body)"),
        ("wsBufferCmp", "protocol/ws_stream.py", ("WebsocketBuffer", "extend"), "max_length", "self.length"),
        ("proxyEnoughCmp", "middleware/proxy_fix.py", ("_get_trusted_value",), "len(values)", "len(values)"),
    ]
    for lean, rel, path, needle, left in sites:
        try:
            fn = find_def(parse(src / rel), *path)
            if fn is None:
                fail(f"guard {lean}", f"{rel}:{'.'.join(path)} not found")
                continue
            c = find_compare(fn, needle)
            if c is None or len(c.ops) != 1 or type(c.ops[0]) not in CMPNAME:
                fail(f"guard {lean}", f"no simple comparison mentioning {needle} in {rel}:{'.'.join(path)}")
                continue
            ltxt = ast.unparse(c.left)
            if left is not None and ltxt != left:
                fail(f"guard {lean}", f"left operand is `{ltxt}`, expected `{left}`")
                continue
            if lean == "bufferPushCmp" and ast.unparse(c.comparators[0]) != needle:
                # the model compares with the module constant itself (HC.Proto.H2Send.HIGH): a mark computed from anything else
                # (the peer's frame size, an instance attribute) is not what the theorems are about
                fail(f"guard {lean}", f"right operand is `{ast.unparse(c.comparators[0])}`, expected `{needle}`")
                continue
            out.append(f"def {lean} : Cmp := .{CMPNAME[type(c.ops[0])]}   -- `{ast.unparse(c)}` in {rel}")
        except Exception as e:
            fail(f"guard {lean}", str(e))
    # StreamBuffer.pop: the condition under which a waiting pusher is released (`await self._paused.set()`)
    try:
        fn = find_def(parse(src / "protocol/h2.py"), "StreamBuffer", "pop")
        test = None
        for n in ast.walk(fn):  # type: ignore
            if isinstance(n, ast.If) and any("_paused.set" in ast.unparse(b) for b in n.body):
                test = n.test
        if test is None:
            fail("bufferPopRelease", "no `if …: await self._paused.set()` in StreamBuffer.pop")
        else:
            NAMES.clear()
            NAMES.update({"len(data)": "chunk", "len(self.buffer)": "remaining", "BUFFER_LOW_WATER": "HC.Extracted.Consts.h2_BUFFER_LOW_WATER",
                          "BUFFER_HIGH_WATER": "HC.Extracted.Consts.h2_BUFFER_HIGH_WATER"})
            out.append(f"def bufferPopRelease (chunk remaining : Nat) : Bool :=\n  {expr(test)}   -- `{ast.unparse(test)}`")
            NAMES.clear()
        # the popped length: `length = min(len(self.buffer), max_length)`
        mins = [n for n in ast.walk(fn) if isinstance(n, ast.Assign) and ast.unparse(n.value).replace(" ", "") == "min(len(self.buffer),max_length)"]  # type: ignore
        if not mins:
            fail("bufferPopLength", "`length = min(len(self.buffer), max_length)` not found")
    except Exception as e:
        fail("bufferPopRelease", str(e))
    # StreamBuffer.complete (property) and the END_STREAM guard of H2Protocol._send_data
    try:
        tree = parse(src / "protocol/h2.py")
        fn = find_def(tree, "StreamBuffer", "complete")
        ret = [st for st in fn.body if isinstance(st, ast.Return)] if fn is not None else []  # type: ignore
        if fn is None or len(fn.body) != 1 or not ret:  # type: ignore
            fail("bufferComplete", "StreamBuffer.complete is not a single return")
        else:
            NAMES.clear()
            NAMES.update({"self._complete": "flag", "len(self.buffer)": "len"})
            out.append(f"def bufferComplete (flag : Bool) (len : Nat) : Bool :=\n  {expr(ret[0].value)}   -- `{ast.unparse(ret[0].value)}`")
            NAMES.clear()
        # StreamBuffer.pop: when `_is_empty` is set; StreamBuffer.drain: when it is cleared before waiting
        fn = find_def(tree, "StreamBuffer", "pop")
        tests = [n.test for n in ast.walk(fn) if isinstance(n, ast.If) and any("_is_empty.set" in ast.unparse(b) for b in n.body)]  # type: ignore
        if len(tests) != 1:
            fail("bufferPopEmpty", "no single `if …: await self._is_empty.set()` in StreamBuffer.pop")
        else:
            NAMES.clear()
            NAMES.update({"len(self.buffer)": "remaining", "self._complete": "complete"})
            out.append(f"def bufferPopEmpty (remaining : Nat) (complete : Bool) : Bool :=\n  {expr(tests[0])}   -- `{ast.unparse(tests[0])}`")
            NAMES.clear()
        fn = find_def(tree, "StreamBuffer", "drain")
        tests = [n.test for n in ast.walk(fn) if isinstance(n, ast.If) and any("_is_empty.clear" in ast.unparse(b) for b in n.body)]  # type: ignore
        waits = [n for n in ast.walk(fn) if isinstance(n, ast.Await) and "_is_empty.wait" in ast.unparse(n)]  # type: ignore
        if len(tests) != 1 or len(waits) != 1:
            fail("bufferDrainClears", "StreamBuffer.drain is not `if …: await self._is_empty.clear()` followed by one wait")
        else:
            NAMES.clear()
            NAMES.update({"self._complete": "complete", "self._closed": "closed"})
            out.append(f"def bufferDrainClears (complete closed : Bool) : Bool :=\n  {expr(tests[0])}   -- `{ast.unparse(tests[0])}`")
            NAMES.clear()
        fn = find_def(tree, "H2Protocol", "_send_data")
        tests = [n.test for n in ast.walk(fn) if isinstance(n, ast.If) and any("end_stream" in ast.unparse(b) for b in n.body)]  # type: ignore
        if len(tests) != 1:
            fail("sendDataEnds", "no single `if …: self.connection.end_stream(stream_id)` in H2Protocol._send_data")
        else:
            NAMES.clear()
            NAMES.update({"self.stream_buffers[stream_id].complete": "complete", "self.closed": "closed"})
            out.append(f"def sendDataEnds (complete closed : Bool) : Bool :=\n  {expr(tests[0])}   -- `{ast.unparse(tests[0])}`")
            NAMES.clear()
        # the number of bytes taken: max(0, min(local_flow_control_window, max_outbound_frame_size))
        assigns = [ast.unparse(n.value).replace(" ", "").replace("\n", "") for n in ast.walk(fn)  # type: ignore
                   if isinstance(n, ast.Assign) and ast.unparse(n.targets[0]) == "chunk_size"]
        want = ["min(self.connection.local_flow_control_window(stream_id),self.connection.max_outbound_frame_size)", "max(0,chunk_size)"]
        if assigns != want:
            fail("sendDataChunk", f"chunk_size assignments are {assigns}, expected {want}")
        pops = [ast.unparse(n).replace(" ", "") for n in ast.walk(fn) if isinstance(n, ast.Call) and ast.unparse(n.func).endswith("].pop")]  # type: ignore
        if pops != ["self.stream_buffers[stream_id].pop(chunk_size)"]:
            fail("sendDataChunk", f"pop call is {pops}")
    except Exception as e:
        fail("bufferComplete/sendDataEnds", str(e))
    # H11Protocol._maybe_recycle: `await self._close_stream()`, then ONE `if <guard>: <start_next_cycle …> else: …; await self.send(Closed())`;
    # the guard as a function of its four atoms (C15: no recycling once `context.terminated` is set).  Any other atom (e.g. a
    # different event of the worker context) is not translated: EXTRACT-FAIL, and the model that uses `h11Recycle` does not build.
    try:
        fn = find_def(parse(src / "protocol/h11.py"), "H11Protocol", "_maybe_recycle")
        body = list(fn.body) if fn is not None else []  # type: ignore
        ifs = [st for st in body if isinstance(st, ast.If)]
        if (fn is None or len(body) != 2 or len(ifs) != 1 or body[1] is not ifs[0]
                or ast.unparse(body[0]) != "await self._close_stream()"
                or "start_next_cycle" not in ast.unparse(ifs[0].body)
                or not ifs[0].orelse or ast.unparse(ifs[0].orelse[-1]) != "await self.send(Closed())"
                or "start_next_cycle" in ast.unparse(ifs[0].orelse)):
            fail("h11Recycle", "_maybe_recycle is not `await self._close_stream(); if <guard>: …start_next_cycle… else: …; await self.send(Closed())`")
        else:
            NAMES.clear()
            NAMES.update({"self.closed": "closed", "self.context.terminated.is_set()": "terminated",
                          "self.connection.our_state is h11.DONE": "ourDone", "self.connection.their_state is h11.DONE": "theirDone"})
            try:
                out.append(f"def h11Recycle (closed terminated ourDone theirDone : Bool) : Bool :=\n  {expr(ifs[0].test)}"
                           f"   -- `{' '.join(ast.unparse(ifs[0].test).split())}` in H11Protocol._maybe_recycle")
            except ValueError as e:
                fail("h11Recycle", f"the guard of _maybe_recycle has an atom that is not one of {sorted(NAMES)}: {e}")
            NAMES.clear()
    except Exception as e:
        fail("h11Recycle", str(e))
    # the exit path of both `worker_serve`s (C15 bounded): what is awaited between `context.terminated.set()` and the wait for the
    # connection handlers that `graceful_timeout` bounds.  asyncio: nothing (an `await server.wait_closed()` there waits, on
    # CPython >= 3.12.1, for every open connection: `Runtime.waitClosedBlocksOnConnections`); trio: the deadline assignment is the
    # next statement.  Any other suspension there is not translated.
    try:
        fn = find_def(parse(src / "asyncio/run.py"), "worker_serve")
        tries = [n for n in ast.walk(fn) if isinstance(n, ast.Try)  # type: ignore
                 and any(ast.unparse(st) == "await context.terminated.set()" for st in n.finalbody)]
        if len(tries) != 1:
            fail("asyncioExitPath", "no single `try: … finally: await context.terminated.set() …` in asyncio worker_serve")
        else:
            fb = tries[0].finalbody
            drain = [k for k, st in enumerate(fb) if isinstance(st, ast.Try) and "graceful_timeout" in ast.unparse(st.body)]
            waits = [ast.unparse(n).replace(" ", "") for st in (fb[drain[0]].body if drain else []) for n in ast.walk(st) if isinstance(n, ast.Await)]
            if ast.unparse(fb[0]) != "await context.terminated.set()" or len(drain) != 1:
                fail("asyncioExitPath", "the finally block does not start with `await context.terminated.set()` followed (later) by one `try:` that waits with graceful_timeout")
            elif waits != ["awaitasyncio.wait_for(gathered_server_tasks,config.graceful_timeout)"]:
                fail("asyncioExitPath", f"the bounded wait for the handlers is {waits}")
            else:
                between = [ast.unparse(n.value.func) for st in fb[1:drain[0]] for n in ast.walk(st)
                           if isinstance(n, ast.Await) and isinstance(n.value, ast.Call)]
                other = [c for c in between if not c.endswith(".wait_closed")]
                bare = [ast.unparse(n) for st in fb[1:drain[0]] for n in ast.walk(st) if isinstance(n, ast.Await) and not isinstance(n.value, ast.Call)]
                if other or bare:
                    fail("asyncioExitPath", f"awaited between terminated.set() and the bounded wait: {other + bare}")
                else:
                    out.append(f"def asyncioWaitClosedBeforeDrain : Bool := {'true' if between else 'false'}"
                               f"   -- awaited between `context.terminated.set()` and `wait_for(gather(*server_tasks), graceful_timeout)` in asyncio/run.py: {between}")
        # the ORDER of the exit path (C14: lifespan.shutdown only after the connections have drained; no connection is accepted
        # once shutdown has begun): the statements of that `finally:` block - and of the `finally:` of the bounded wait inside it -
        # in source order.  The listeners must be closed before the wait for the handlers starts: `gather(*server_tasks)` is a
        # snapshot, a connection accepted during the wait is not waited for.  Always written (`?…` for what is not recognised).
        order: List[str] = []
        try:
            def exit_stmt(st: ast.stmt) -> Optional[str]:
                u = " ".join(ast.unparse(st).split())
                if u == "await context.terminated.set()":
                    return "terminated.set"
                if isinstance(st, ast.For) and u == "for server in servers: server.close()":
                    return "server.close"
                if ".wait_closed()" in u and "await" in u and not isinstance(st, ast.Try):
                    return "server.wait_closed"
                if u == "gathered_server_tasks.exception()":
                    return None                     # retrieves the gathered tasks' exception: no effect on the order of events
                if u == "await lifespan.wait_for_shutdown()":
                    return "wait_for_shutdown"
                if u == "lifespan_task.cancel()":
                    return "lifespan_task.cancel"
                if isinstance(st, ast.Try) and [" ".join(ast.unparse(b).split()) for b in st.body] == ["await lifespan_task"] and not st.finalbody:
                    return "await lifespan_task"
                fail("asyncioExitOrder", f"statement of the exit path not recognised: `{u[:90]}`")
                return "?" + u[:40]
            if len(tries) == 1:
                for st in tries[0].finalbody:
                    if isinstance(st, ast.Try) and "graceful_timeout" in ast.unparse(st.body):
                        order.append("bounded_drain")
                        if st.orelse:
                            fail("asyncioExitOrder", "the bounded wait has an else block")
                        for st2 in st.finalbody:
                            name = exit_stmt(st2)
                            if name is not None:
                                order.append(name)
                    else:
                        name = exit_stmt(st)
                        if name is not None:
                            order.append(name)
        except Exception as e:
            fail("asyncioExitOrder", str(e))
        out.append("def asyncioExitOrder : List String := [" + ", ".join(q(x) for x in order) + "]"
                   "   -- the `finally:` exit path of asyncio worker_serve, statement by statement")
        fn = find_def(parse(src / "trio/run.py"), "worker_serve")
        tries = [n for n in ast.walk(fn) if isinstance(n, ast.Try)  # type: ignore
                 and any(ast.unparse(st) == "await context.terminated.set()" for st in n.finalbody)]
        want = ["await context.terminated.set()", "server_nursery.cancel_scope.deadline = trio.current_time() + config.graceful_timeout"]
        if len(tries) != 1 or [ast.unparse(st) for st in tries[0].finalbody] != want:
            fail("trioExitPath", f"the finally block of trio worker_serve is not {want}")
        else:
            out.append("def trioDeadlineFollowsTerminated : Bool := true   -- `await context.terminated.set(); server_nursery.cancel_scope.deadline = "
                       "trio.current_time() + config.graceful_timeout` in trio/run.py")
        # trio: the listeners (`trio.serve_listeners`) run in the nursery INSIDE the `try:` whose `finally:` sets `terminated`: that
        # nursery has been cancelled and joined - nothing accepts any more - before `terminated` is set and the grace period starts
        inside = False
        if len(tries) == 1:
            for w in [n for st in tries[0].body for n in ast.walk(st) if isinstance(n, ast.AsyncWith)]:
                names = [ast.unparse(i.optional_vars) for i in w.items if i.optional_vars is not None and "open_nursery" in ast.unparse(i.context_expr)]
                starts = [ast.unparse(n) for st in w.body for n in ast.walk(st) if isinstance(n, ast.Call) and names and ast.unparse(n.func) == names[0] + ".start_soon"]
                if any("trio.serve_listeners" in c for c in starts):
                    inside = True
            elsewhere = [n for n in ast.walk(fn) if isinstance(n, ast.Attribute) and ast.unparse(n) == "trio.serve_listeners"]  # type: ignore
            if len(elsewhere) != 1:
                fail("trioListenersStopBeforeTerminated", f"trio.serve_listeners is referred to {len(elsewhere)} times in trio worker_serve")
                inside = False
        out.append(f"def trioListenersStopBeforeTerminated : Bool := {'true' if inside else 'false'}"
                   "   -- `trio.serve_listeners` is started in the nursery inside the `try:` whose `finally:` sets `terminated`")
    except Exception as e:
        fail("exitPath", str(e))
    # H2Protocol.send_task (C15, F32): however the send task ends - closed, or cancelled with the connection's task group - it
    # releases every sender waiting in push() / drain(): `try: <loop> finally: for … in self.stream_buffers.values(): await ….close()`.
    # Without it a cancelled asyncio handler with a stream in progress never finishes (`Runtime.h2CancelDeadlocks`).
    try:
        fn = find_def(parse(src / "protocol/h2.py"), "H2Protocol", "send_task")
        if fn is None:
            fail("h2SendTaskReleasesSenders", "H2Protocol.send_task not found")
        else:
            body = [st for st in fn.body if not (isinstance(st, ast.Expr) and isinstance(st.value, ast.Constant))]  # type: ignore
            releases = False
            if len(body) == 1 and isinstance(body[0], ast.Try) and not body[0].handlers:
                fb = body[0].finalbody
                releases = (len(fb) == 1 and isinstance(fb[0], ast.For)
                            and ast.unparse(fb[0].iter) == "self.stream_buffers.values()"
                            and [ast.unparse(x) for x in fb[0].body] == [f"await {ast.unparse(fb[0].target)}.close()"])
                if not releases:
                    fail("h2SendTaskReleasesSenders", f"the finally of send_task is `{' '.join(ast.unparse(x) for x in fb)[:120]}`")
            loops = [n for n in ast.walk(fn) if isinstance(n, ast.While)]
            if len(loops) != 1 or ast.unparse(loops[0].test) != "not self.closed":
                fail("h2SendTaskReleasesSenders", "send_task is not one `while not self.closed:` loop")
            out.append(f"def h2SendTaskReleasesSenders : Bool := {'true' if releases else 'false'}"
                       "   -- send_task: `try: while not self.closed: … finally: for b in self.stream_buffers.values(): await b.close()`")
    except Exception as e:
        fail("h2SendTaskReleasesSenders", str(e))
    # C15 (F113): what becomes of a connection handler that is cancelled while a transport write is held up by a peer that does
    # not read.  asyncio: TCPServer.run ends in `finally: await self._close()`, and `_close` awaits `writer.wait_closed()`
    # (which waits for the transport to flush) unless the transport is aborted first; trio: `protocol_send` runs
    # `stream.send_all` inside a shielded cancel scope, which the nursery's deadline cannot interrupt.
    try:
        at = parse(src / "asyncio/tcp_server.py")
        run_fn, close_fn = find_def(at, "TCPServer", "run"), find_def(at, "TCPServer", "_close")
        if run_fn is None or close_fn is None:
            fail("asyncioCloseWaitsForFlush", "asyncio TCPServer.run / _close not found")
        else:
            waits = any(isinstance(n, ast.Await) and ast.unparse(n.value).endswith("wait_closed()") for n in ast.walk(close_fn))
            aborts = any(isinstance(n, ast.Call) and ast.unparse(n.func).endswith(".abort") for fn_ in (run_fn, close_fn) for n in ast.walk(fn_))
            out.append(f"def asyncioCloseWaitsForFlush : Bool := {'true' if waits and not aborts else 'false'}"
                       "   -- `_close` awaits writer.wait_closed() and neither it nor `run` aborts the transport")
        tt = parse(src / "trio/tcp_server.py")
        ps = find_def(tt, "TCPServer", "protocol_send")
        if ps is None:
            fail("trioSendShielded", "trio TCPServer.protocol_send not found")
        else:
            shielded = False
            for w in ast.walk(ps):
                if isinstance(w, ast.With) and any("CancelScope" in ast.unparse(i.context_expr) for i in w.items):
                    txt = ast.unparse(w)
                    if "send_all" in txt and ("shield = True" in txt or "shield=True" in txt):
                        shielded = True
            out.append(f"def trioSendShielded : Bool := {'true' if shielded else 'false'}"
                       "   -- protocol_send: `stream.send_all` runs inside a shielded CancelScope")
    except Exception as e:
        fail("blockedWriteFlags", str(e))
    # C19 (F117): Config.create_sockets records the QUIC addresses of THIS call whether or not TLS is on (without TLS: none), i.e.
    # `self._set_quic_addresses(...)` is called outside the `if self.ssl_enabled:` statement or in both of its branches
    try:
        cfg_t = parse(src / "config.py")
        cs_fn = find_def(cfg_t, "Config", "create_sockets")
        if cs_fn is None:
            fail("configQuicSetAlways", "Config.create_sockets not found")
        else:
            def _calls_set(nodes) -> bool:
                return any(isinstance(n, ast.Call) and ast.unparse(n.func) == "self._set_quic_addresses" for st in nodes for n in ast.walk(st))
            always = False
            for st in cs_fn.body:  # type: ignore
                if isinstance(st, ast.If) and "ssl_enabled" in ast.unparse(st.test):
                    if _calls_set(st.body) and _calls_set(st.orelse):
                        always = True
                elif _calls_set([st]):
                    always = True
            out.append(f"def configQuicSetAlways : Bool := {'true' if always else 'false'}"
                       "   -- create_sockets calls _set_quic_addresses with and without TLS")
    except Exception as e:
        fail("configQuicSetAlways", str(e))
    # C08 (F114): trio's EventWrapper.clear() - a trio.Event cannot be cleared, it is replaced; is it replaced only when it is set
    # (an unset event may have tasks waiting on it: replacing it orphans them)?
    try:
        wc_t = parse(src / "trio/worker_context.py")
        clr = find_def(wc_t, "EventWrapper", "clear")
        if clr is None:
            fail("trioClearGuarded", "trio EventWrapper.clear not found")
        else:
            body = [st for st in clr.body if not (isinstance(st, ast.Expr) and isinstance(st.value, ast.Constant))]  # type: ignore
            replaces_anywhere = any(isinstance(n, ast.Assign) and ast.unparse(n.targets[0]) == "self._event" for n in ast.walk(clr))  # type: ignore
            guarded = (len(body) == 1 and isinstance(body[0], ast.If) and not body[0].orelse and ast.unparse(body[0].test) == "self._event.is_set()"
                       and all(isinstance(x, ast.Assign) and ast.unparse(x.targets[0]) == "self._event" for x in body[0].body))
            out.append(f"def trioClearGuarded : Bool := {'true' if (guarded or not replaces_anywhere) else 'false'}"
                       "   -- trio EventWrapper.clear: the event object is replaced only `if self._event.is_set()` (or never)")
    except Exception as e:
        fail("trioClearGuarded", str(e))
    # C06: `self.request_complete` belongs to the request in progress - reset when a new h11.Request arrives (before its stream
    # exists), set at its EndOfMessage, assigned nowhere else; and HTTPStream.app_send hands the validated headers of
    # http.response.start to the protocol as they are (h11 decides about keep-alive from the application's `connection: close`).
    try:
        h11tree = parse(src / "protocol/h11.py")
        fn = find_def(h11tree, "H11Protocol", "_handle_events")
        branches = {}
        for n in ast.walk(fn):  # type: ignore
            if isinstance(n, ast.If):
                t = ast.unparse(n.test)
                if t == "isinstance(event, h11.Request)":
                    branches["request"] = n.body
                elif t == "isinstance(event, h11.EndOfMessage)":
                    branches["eom"] = n.body
        if "request" not in branches or "eom" not in branches:
            fail("h11RequestResetsComplete", "the `isinstance(event, h11.Request)` / `isinstance(event, h11.EndOfMessage)` branches of _handle_events were not found")
        else:
            def assigns(stmts, value):
                return [i for i, st in enumerate(stmts) if isinstance(st, ast.Assign) and ast.unparse(st) == f"self.request_complete = {value}"]
            rb = branches["request"]
            created = next((i for i, st in enumerate(rb) if "_create_stream(" in ast.unparse(st)), len(rb))
            resets = bool(assigns(rb, "False")) and assigns(rb, "False")[0] < created and not assigns(rb, "True")
            sets = bool(assigns(branches["eom"], "True")) and not assigns(branches["eom"], "False")
            cls = find_def(h11tree, "H11Protocol")
            elsewhere = []
            for f in cls.body:  # type: ignore
                if isinstance(f, (ast.FunctionDef, ast.AsyncFunctionDef)) and f.name not in ("__init__", "_handle_events"):
                    elsewhere += [f.name for n in ast.walk(f) if isinstance(n, (ast.Assign, ast.AugAssign, ast.AnnAssign)) and "self.request_complete" in ast.unparse(
                        n.targets[0] if isinstance(n, ast.Assign) else n.target)]
            inside = [n for n in ast.walk(fn) if isinstance(n, ast.Assign) and ast.unparse(n.targets[0]) == "self.request_complete"]  # type: ignore
            if elsewhere or len(inside) != len(assigns(rb, "False")) + len(assigns(branches["eom"], "True")):
                fail("h11RequestResetsComplete", f"self.request_complete is also assigned outside the Request / EndOfMessage branches ({elsewhere or '_handle_events'})")
            else:
                out.append(f"def h11RequestResetsComplete : Bool := {'true' if resets else 'false'}"
                           "   -- `self.request_complete = False` in the h11.Request branch of _handle_events, before `_create_stream`")
                out.append(f"def h11EomSetsComplete : Bool := {'true' if sets else 'false'}"
                           "   -- `self.request_complete = True` in the h11.EndOfMessage branch")
    except Exception as e:
        fail("h11RequestResetsComplete", str(e))
    # C06 / C04: the guard under which `_handle_events` IGNORES a RemoteProtocolError (`except h11.RemoteProtocolError: if <guard>:
    # <comment> break`), as a function of its atoms: is a stream live, is the request complete, h11's two states (index in the
    # order of H11Tables.HSt).  Everything else in that handler (error response in IDLE / SEND_RESPONSE, Closed) is C04Sites'.
    try:
        fn = find_def(parse(src / "protocol/h11.py"), "H11Protocol", "_handle_events")
        handlers = [h for n in ast.walk(fn) if isinstance(n, ast.Try) and "next_event()" in ast.unparse(n.body)  # type: ignore
                    for h in n.handlers if h.type is not None and "RemoteProtocolError" in ast.unparse(h.type)]
        if len(handlers) != 1:
            fail("h11ErrorIgnored", "no single `except h11.RemoteProtocolError` around `next_event()` in _handle_events")
        else:
            body = handlers[0].body
            ignoring = [st for st in body if isinstance(st, ast.If) and not st.orelse and len(st.body) == 1 and isinstance(st.body[0], ast.Break)]
            closes = [i for i, st in enumerate(body) if ast.unparse(st) == "await self.send(Closed())"]
            if len(ignoring) > 1 or (ignoring and body[0] is not ignoring[0]) or not closes or not isinstance(body[-1], ast.Break):
                fail("h11ErrorIgnored", "the handler is not `[if <guard>: break]; …; await self.send(Closed()); break`")
            else:
                H11_STATES = ["IDLE", "SEND_RESPONSE", "SEND_BODY", "DONE", "MUST_CLOSE", "CLOSED", "ERROR", "MIGHT_SWITCH_PROTOCOL", "SWITCHED_PROTOCOL"]
                NAMES.clear()
                NAMES.update({"self.stream is not None": "streamLive", "self.request_complete": "requestComplete",
                              "self.connection.our_state": "our", "self.connection.their_state": "their"})
                for k, name in enumerate(H11_STATES):
                    NAMES[f"h11.{name}"] = str(k)
                    for side in ("our", "their"):
                        NAMES[f"self.connection.{side}_state is h11.{name}"] = f"({side} == {k})"
                        NAMES[f"self.connection.{side}_state is not h11.{name}"] = f"({side} != {k})"
                try:
                    g = expr(ignoring[0].test) if ignoring else "false"
                    out.append(f"def h11ErrorIgnored (streamLive requestComplete : Bool) (our their : Nat) : Bool :=\n  {g}"
                               f"   -- `{' '.join(ast.unparse(ignoring[0].test).split()) if ignoring else ''}`: RemoteProtocolError from next_event() is ignored (break) in "
                               "H11Protocol._handle_events; our / their = index of h11's state in " + "/".join(H11_STATES))
                except ValueError as e:
                    fail("h11ErrorIgnored", f"the guard has an atom that is not one of {sorted(k for k in NAMES if not k.startswith('h11.'))[:6]}…: {e}")
                NAMES.clear()
    except Exception as e:
        fail("h11ErrorIgnored", str(e))
    # the server's own `connection: close` (request maximum) is added to FINAL response heads only: the append sits inside the
    # `event.status_code >= 200` branch of H11Protocol.stream_send(Response); the informational branch (the 101 of a websocket
    # accept) sends the stream's headers and the configured ones, nothing else
    try:
        fn = find_def(parse(src / "protocol/h11.py"), "H11Protocol", "stream_send")
        final_if = None
        for n in ast.walk(fn):  # type: ignore
            if isinstance(n, ast.If) and isinstance(n.test, ast.Compare) and ast.unparse(n.test.left) == "event.status_code" and final_if is None:
                final_if = n
        if final_if is None or not final_if.orelse:
            fail("h11CloseOnFinalOnly", "`if event.status_code >= 200: ... else: ...` not found in H11Protocol.stream_send")
        else:
            def close_appends(nodes):
                return [n for st in nodes for n in ast.walk(st) if isinstance(n, ast.Call) and ast.unparse(n).replace('"', "'") == "headers.append((b'connection', b'close'))"]
            everywhere = close_appends(fn.body)  # type: ignore
            inside = close_appends(final_if.body)
            info_calls = [n for st in final_if.orelse for n in ast.walk(st) if isinstance(n, ast.Call) and ast.unparse(n.func) == "h11.InformationalResponse"]
            info_hdrs = [ast.unparse(kw.value).replace('"', "'") for c in info_calls for kw in c.keywords if kw.arg == "headers"]
            plain = ["list(chain(event.headers, self.config.response_headers('h11')))"]
            only_final = len(everywhere) == 1 and len(inside) == 1 and info_hdrs == plain
            out.append(f"def h11CloseOnFinalOnly : Bool := {'true' if only_final else 'false'}"
                       "   -- stream_send(Response): `headers.append((b'connection', b'close'))` only inside `if event.status_code >= 200:`; the 1xx branch sends chain(event.headers, response_headers)")
    except Exception as e:
        fail("h11CloseOnFinalOnly", str(e))
    try:
        fn = find_def(parse(src / "protocol/http_stream.py"), "HTTPStream", "app_send")
        branch = None
        for n in ast.walk(fn):  # type: ignore
            if isinstance(n, ast.If) and "'http.response.start'" in ast.unparse(n.test) and branch is None:
                branch = n.body
        if branch is None:
            fail("httpStartHeadersVerbatim", "the http.response.start branch of HTTPStream.app_send was not found")
        else:
            calls = [n for st in branch for n in ast.walk(st) if isinstance(n, ast.Call) and ast.unparse(n.func) == "Response"]
            hdr = [kw.value for c in calls for kw in c.keywords if kw.arg == "headers"]
            if len(calls) != 1 or len(hdr) != 1:
                fail("httpStartHeadersVerbatim", "expected exactly one Response(..., headers=...) in the http.response.start branch")
            else:
                def is_validated(e):
                    return (isinstance(e, ast.Call) and ast.unparse(e.func) == "build_and_validate_headers" and len(e.args) == 1
                            and re.fullmatch(r"(self\.response|message)\.get\('headers', \[\]\)", ast.unparse(e.args[0])) is not None)
                e = hdr[0]
                verbatim = is_validated(e)
                if isinstance(e, ast.Name):
                    defs = [st for st in branch for n in ast.walk(st) if isinstance(n, (ast.Assign, ast.AugAssign)) and e.id in ast.unparse(
                        n.targets[0] if isinstance(n, ast.Assign) else n.target).split()]
                    mut = [n for st in branch for n in ast.walk(st) if isinstance(n, ast.Call) and isinstance(n.func, ast.Attribute)
                           and ast.unparse(n.func.value) == e.id]
                    verbatim = len(defs) == 1 and isinstance(defs[0], ast.Assign) and is_validated(defs[0].value) and not mut
                out.append(f"def httpStartHeadersVerbatim : Bool := {'true' if verbatim else 'false'}"
                           "   -- HTTPStream.app_send: `Response(headers=build_and_validate_headers(<message>.get('headers', [])), ...)`, nothing added, dropped or rewritten")
    except Exception as e:
        fail("httpStartHeadersVerbatim", str(e))
    # suppress_body
    try:
        fn = find_def(parse(src / "utils.py"), "suppress_body")
        ret = [s for s in fn.body if isinstance(s, ast.Return)]  # type: ignore
        argn = [a.arg for a in fn.args.args]  # type: ignore
        if len(fn.body) != 1 or not ret or argn != ["method", "status_code"]:  # type: ignore
            fail("suppress_body", "unexpected shape")
        else:
            out.append(f"def suppressBody (method : String) (status_code : Nat) : Bool :=\n  {expr(ret[0].value)}")
    except Exception as e:
        fail("suppress_body", str(e))
    out += ["end HC.Extracted.Guards", ""]
    return "\n".join(out)


def extract_excepts(src: Path) -> str:
    out = ["/- GENERATED by tools/extract.py — exception classes caught per site — do not edit -/", "namespace HC.Extracted.Excepts"]
    sites = [
        ("h2SendData", "protocol/h2.py", ("H2Protocol", "_send_data")),
        ("h2Handle", "protocol/h2.py", ("H2Protocol", "handle")),
        ("h2StreamSend", "protocol/h2.py", ("H2Protocol", "stream_send")),
        ("h2HandleEvents", "protocol/h2.py", ("H2Protocol", "_handle_events")),
        ("h2PriorityUpdated", "protocol/h2.py", ("H2Protocol", "_priority_updated")),
        ("h2CreateStream", "protocol/h2.py", ("H2Protocol", "_create_stream")),
        ("h2ServerPush", "protocol/h2.py", ("H2Protocol", "_create_server_push")),
        ("h11HandleEvents", "protocol/h11.py", ("H11Protocol", "_handle_events")),
        ("h11SendEvent", "protocol/h11.py", ("H11Protocol", "_send_h11_event")),
        ("h11MaybeRecycle", "protocol/h11.py", ("H11Protocol", "_maybe_recycle")),
        ("wsHandleEvents", "protocol/ws_stream.py", ("WSStream", "_handle_events")),
        ("wsSendEvent", "protocol/ws_stream.py", ("WSStream", "_send_wsproto_event")),
        ("asyncioProtocolSend", "asyncio/tcp_server.py", ("TCPServer", "protocol_send")),
        ("asyncioReadData", "asyncio/tcp_server.py", ("TCPServer", "_read_data")),
        ("trioProtocolSend", "trio/tcp_server.py", ("TCPServer", "protocol_send")),
        ("trioReadData", "trio/tcp_server.py", ("TCPServer", "_read_data")),
    ]
    for lean, rel, path in sites:
        try:
            fn = find_def(parse(src / rel), *path)
            if fn is None:
                fail(f"except {lean}", f"{rel}:{'.'.join(path)} not found")
                continue
            names: List[str] = []
            for n in ast.walk(fn):
                if isinstance(n, ast.ExceptHandler) and n.type is not None:
                    ts = n.type.elts if isinstance(n.type, ast.Tuple) else [n.type]
                    for t in ts:
                        names.append(ast.unparse(t).split(".")[-1])
            out.append(f"def {lean} : List String := [" + ", ".join(q(x) for x in names) + "]")
        except Exception as e:
            fail(f"except {lean}", str(e))
    out += ["end HC.Extracted.Excepts", ""]
    return "\n".join(out)


def _calls_in_order(node: Any) -> List[str]:
    """dotted names of the calls in a statement list, in source order"""
    out: List[str] = []
    for st in node if isinstance(node, list) else [node]:
        calls = [n for n in ast.walk(st) if isinstance(n, ast.Call)]
        calls.sort(key=lambda n: (n.lineno, n.col_offset))
        for c in calls:
            out.append(ast.unparse(c.func))
    return out


def extract_atomic(src: Path) -> str:
    """Atomicity facts the send-path model (HC/Proto/H2Send.lean) relies on: which `Event` methods of the two workers can
    suspend, and the statement order inside the pieces of h2.py that the model treats as one step each."""
    out = ["/- GENERATED by tools/extract.py — suspension points / statement order assumed by HC.Proto.H2Send — do not edit -/",
           "namespace HC.Extracted.Atomic"]
    for worker in ("asyncio", "trio"):
        try:
            tree = parse(src / worker / "worker_context.py")
            for meth in ("set", "clear", "wait"):
                fn = find_def(tree, "EventWrapper", meth)
                if fn is None:
                    fail(f"atomic {worker}.{meth}", "EventWrapper method not found")
                    continue
                awaits = any(isinstance(n, (ast.Await, ast.AsyncFor, ast.AsyncWith)) for n in ast.walk(fn))
                out.append(f"def {worker}Event{meth.capitalize()}Suspends : Bool := {'true' if awaits else 'false'}")
        except Exception as e:
            fail(f"atomic {worker}", str(e))
    try:
        h2tree = parse(src / "protocol/h2.py")
        fn = find_def(h2tree, "H2Protocol", "stream_send")
        branches: Dict[str, List[str]] = {}
        for n in ast.walk(fn):  # type: ignore
            if isinstance(n, ast.If) and "isinstance(event" in ast.unparse(n.test):
                branches[ast.unparse(n.test)] = _calls_in_order(n.body)

        def branch(*classes: str) -> Optional[List[str]]:
            for k, v in branches.items():
                if all(c in k for c in classes):
                    return v
            return None

        body = branch("Body", "Data")
        end = branch("EndBody", "EndData")
        closed = branch("StreamClosed")
        if body is None or end is None or closed is None:
            fail("atomic stream_send", f"branches not recognised: {list(branches)}")
        else:
            out.append("def h2BodyBranch : List String := [" + ", ".join(q(x) for x in body) + "]")
            out.append("def h2EndBranch : List String := [" + ", ".join(q(x) for x in end) + "]")
            out.append("def h2ClosedBranch : List String := [" + ", ".join(q(x) for x in closed[:2]) + "]")
        fn2 = find_def(h2tree, "H2Protocol", "_send_data")
        tries = [n for n in ast.walk(fn2) if isinstance(n, ast.Try)]  # type: ignore
        if not tries or len(tries[0].handlers) != 1:       # (ast.walk is breadth-first: tries[0] is the outer try)
            fail("atomic _send_data", "expected a try with one handler")
        else:
            out.append("def h2SendDataTry : List String := [" + ", ".join(q(x) for x in _calls_in_order(tries[0].body)) + "]")
            out.append("def h2SendDataExcept : List String := [" + ", ".join(q(x) for x in _calls_in_order(tries[0].handlers[0].body)) + "]")
            # the recovery from a priority tree that schedules a stream it does not know (`except priority.MissingStreamError:` inside
            # the handler): a fresh tree, then one loop over `self.stream_buffers` - what is done to each buffered stream, in order
            inner = [h for n in ast.walk(tries[0].handlers[0]) if isinstance(n, ast.Try) for h in n.handlers
                     if h.type is not None and "MissingStreamError" in ast.unparse(h.type)]
            loops = [st for st in (inner[0].body if len(inner) == 1 else []) if isinstance(st, ast.For)]
            fresh = [st for st in (inner[0].body if len(inner) == 1 else []) if isinstance(st, ast.Assign)
                     and ast.unparse(st).replace(" ", "") == "self.priority=priority.PriorityTree()"]
            if len(inner) != 1 or len(loops) != 1 or len(fresh) != 1 or len(inner[0].body) != 2 or ast.unparse(loops[0].iter) != "self.stream_buffers" \
                    or any(isinstance(n, (ast.Await, ast.If, ast.Try)) for n in ast.walk(loops[0])):
                fail("h2SendDataRebuild", "the MissingStreamError recovery of _send_data is not `self.priority = priority.PriorityTree()` followed by one "
                                          "plain loop over self.stream_buffers")
            else:
                var = ast.unparse(loops[0].target)
                stmts = [ast.unparse(st) for st in loops[0].body]
                known = {f"self.priority.insert_stream({var})": "insert", f"self.priority.block({var})": "block", f"self.priority.unblock({var})": "unblock"}
                if any(s_ not in known for s_ in stmts) or not stmts or known[stmts[0]] != "insert" or [known[s_] for s_ in stmts].count("insert") != 1:
                    fail("h2SendDataRebuild", f"loop body {stmts} is not insert_stream followed by block / unblock calls on the loop variable")
                else:
                    kinds = [known[s_] for s_ in stmts]
                    out.append("def h2SendDataRebuild : List String := [" + ", ".join(q(k) for k in kinds) + "]   -- per buffered stream, on the fresh tree")
                    # priority inserts a stream active (unblocked); the last block / unblock call decides
                    blocked = [k for k in kinds if k != "insert"][-1:] == ["block"]
                    out.append(f"def h2RebuildBlocks : Bool := {'true' if blocked else 'false'}   -- are the re-inserted streams left blocked?")
        fn3 = find_def(h2tree, "H2Protocol", "send_task")
        out.append("def h2SendTask : List String := [" + ", ".join(q(x) for x in _calls_in_order(fn3.body)) + "]")  # type: ignore
        fn4 = find_def(h2tree, "StreamBuffer", "push")
        out.append("def h2BufferPush : List String := [" + ", ".join(q(x) for x in _calls_in_order(fn4.body)) + "]")  # type: ignore
        fn5 = find_def(h2tree, "StreamBuffer", "close")
        out.append("def h2BufferClose : List String := [" + ", ".join(q(ast.unparse(st)) for st in fn5.body) + "]")  # type: ignore
    except Exception as e:
        fail("atomic stream_send", str(e))
    out += ["end HC.Extracted.Atomic", ""]
    return "\n".join(out)


def extract_h11_tables(src: Path) -> str:
    """The installed h11's state tables (data, `h11._state`); hypercorn itself is never imported."""
    out = ["/- GENERATED by tools/extract.py from the installed h11 (h11._state tables) — do not edit -/", "namespace HC.Extracted.H11Tables",
           "inductive HSt | idle | sendResponse | sendBody | done | mustClose | closed | error | mightSwitch | switched\nderiving Repr, DecidableEq",
           "inductive Role | client | server\nderiving Repr, DecidableEq",
           "inductive EvKey | request | requestClient | info | response | data | eom | connClosed | infoSwitchUpgrade | responseSwitchConnect\nderiving Repr, DecidableEq"]
    import h11
    from h11 import _state as st
    from h11 import _events as ev
    sname = {st.IDLE: "idle", st.SEND_RESPONSE: "sendResponse", st.SEND_BODY: "sendBody", st.DONE: "done", st.MUST_CLOSE: "mustClose",
             st.CLOSED: "closed", st.ERROR: "error", st.MIGHT_SWITCH_PROTOCOL: "mightSwitch", st.SWITCHED_PROTOCOL: "switched"}
    rname = {st.CLIENT: "client", st.SERVER: "server"}

    def key(k):
        if isinstance(k, tuple):
            a, b = k
            if a is ev.Request and b is st.CLIENT:
                return "requestClient"
            if a is ev.InformationalResponse and b is st._SWITCH_UPGRADE:
                return "infoSwitchUpgrade"
            if a is ev.Response and b is st._SWITCH_CONNECT:
                return "responseSwitchConnect"
            raise ValueError(repr(k))
        return {ev.Request: "request", ev.InformationalResponse: "info", ev.Response: "response", ev.Data: "data", ev.EndOfMessage: "eom",
                ev.ConnectionClosed: "connClosed"}[k]

    rows = []
    for role, table in st.EVENT_TRIGGERED_TRANSITIONS.items():
        for s0, trans in table.items():
            for k, s1 in trans.items():
                rows.append(f"  (.{rname[role]}, .{sname[s0]}, .{key(k)}, .{sname[s1]})")
    out.append("def eventTable : List (Role × HSt × EvKey × HSt) := [\n" + ",\n".join(rows) + "]")
    rows = []
    for (c, s_), changes in st.STATE_TRIGGERED_TRANSITIONS.items():
        for role, s1 in changes.items():
            rows.append(f"  (.{sname[c]}, .{sname[s_]}, .{rname[role]}, .{sname[s1]})")
    out.append("def stateTable : List (HSt × HSt × Role × HSt) := [\n" + ",\n".join(rows) + "]")
    out.append(f"def h11Version : String := {q(h11.__version__)}")
    out += ["end HC.Extracted.H11Tables", ""]
    return "\n".join(out)


# ---------------------------------------------------------------------------------------------------------
# C18: configured limits and worker recycling (comparator sites are in Guards; here: where each limit comes from,
# how the counters move, the h2 settings table, the randint call of both run.py, and the rules of the installed
# h11 / hpack / h2 the limits rely on)
# ---------------------------------------------------------------------------------------------------------
def _aug_incrs(fn: ast.AST, target: str) -> List[ast.AugAssign]:
    return [n for n in ast.walk(fn) if isinstance(n, ast.AugAssign) and ast.unparse(n.target) == target]


def _site_packages_file(module: str, rel: str) -> Path:
    import importlib.util
    spec = importlib.util.find_spec(module)
    if spec is None or not spec.submodule_search_locations:
        raise ValueError(f"{module} is not installed")
    return Path(list(spec.submodule_search_locations)[0]) / rel


def extract_limits(src: Path) -> str:
    out = ["/- GENERATED by tools/extract.py — where each configured limit comes from and how it is counted (C18) — do not edit -/",
           "import HC.Extracted.Guards",
           "namespace HC.Extracted.Limits",
           "open HC.Extracted.Guards (Cmp)",
           "inductive JOp | add | sub | mul\nderiving Repr, DecidableEq"]

    def emit(line: str) -> None:
        out.append(line)

    # ---- protocol/h11.py ------------------------------------------------------------------------------------
    try:
        tree = parse(src / "protocol/h11.py")
        init = find_def(tree, "H11Protocol", "__init__")
        call = None
        for n in ast.walk(init):  # type: ignore
            if isinstance(n, ast.Call) and ast.unparse(n.func) == "h11.Connection":
                call = n
        kws = {k.arg: ast.unparse(k.value) for k in call.keywords} if call is not None else {}
        m = re.fullmatch(r"self\.config\.(\w+)", kws.get("max_incomplete_event_size", ""))
        if call is None or m is None or ast.unparse(call.args[0]) != "h11.SERVER":
            fail("h11LimitSource", "`h11.Connection(h11.SERVER, max_incomplete_event_size=self.config.<attr>)` not found in H11Protocol.__init__")
        else:
            emit(f"def h11LimitSource : String := {q(m.group(1))}   -- `{ast.unparse(call)}`")
        inits = [n for n in ast.walk(init) if isinstance(n, ast.Assign) and ast.unparse(n.targets[0]) == "self.keep_alive_requests"]  # type: ignore
        if len(inits) != 1 or not isinstance(inits[0].value, ast.Constant) or not isinstance(inits[0].value.value, int):
            fail("h11CounterInit", "`self.keep_alive_requests = <int>` not found exactly once in H11Protocol.__init__")
        else:
            emit(f"def h11CounterInit : Nat := {inits[0].value.value}")
        cls = find_def(tree, "H11Protocol")
        incs = _aug_incrs(cls, "self.keep_alive_requests")
        cs = find_def(tree, "H11Protocol", "_create_stream")
        own = _aug_incrs(cs, "self.keep_alive_requests")
        if len(incs) != 1 or len(own) != 1 or not isinstance(own[0].op, ast.Add) or not isinstance(own[0].value, ast.Constant):
            fail("h11CounterIncr", f"expected exactly one `self.keep_alive_requests += <int>` in H11Protocol, in _create_stream (found {len(incs)} / {len(own)})")
        else:
            emit(f"def h11CounterIncr : Nat := {own[0].value.value}   -- in `_create_stream`")
            # the increment is a top-level statement of _create_stream, after the `await self.stream.handle(Request(...))`
            body = cs.body  # type: ignore
            idx_inc = [i for i, st in enumerate(body) if st is own[0]]
            idx_handle = [i for i, st in enumerate(body) if "self.stream.handle(Request(" in ast.unparse(st).replace("\n", "").replace(" ", "").replace("Request(", "Request(")
                          or "self.stream.handle(Request(" in "".join(ast.unparse(st).split())]
            if not idx_inc or not idx_handle:
                fail("h11IncrAfterHandle", "increment / `await self.stream.handle(Request(...))` are not top-level statements of _create_stream")
            else:
                emit(f"def h11IncrAfterHandle : Bool := {'true' if idx_inc[0] > idx_handle[-1] else 'false'}   -- the counter moves after the stream saw the request")
        # the comparison guards `headers.append((b"connection", b"close"))` inside the `status_code >= 200` branch of stream_send
        ss = find_def(tree, "H11Protocol", "stream_send")
        guard = None
        for n in ast.walk(ss):  # type: ignore
            if isinstance(n, ast.If) and "keep_alive_max_requests" in ast.unparse(n.test):
                guard = n
        if guard is None or len(guard.body) != 1 or guard.orelse or "".join(ast.unparse(guard.body[0]).split()) != "headers.append((b'connection',b'close'))":
            fail("h11CloseHeader", "`if <keep-alive comparison>: headers.append((b\"connection\", b\"close\"))` not found in stream_send")
        else:
            m2 = re.search(r"self\.config\.(\w+)", ast.unparse(guard.test))
            emit(f"def h11KeepAliveSource : String := {q(m2.group(1) if m2 else '?')}")
            emit("def h11CloseHeader : String × String := (\"connection\", \"close\")")
    except Exception as e:
        fail("limits h11.py", f"{type(e).__name__}: {e}")

    # ---- the installed h11: the incomplete-event rule of next_event() ---------------------------------------------
    try:
        conn = parse(_site_packages_file("h11", "_connection.py"))
        ne = find_def(conn, "Connection", "next_event")
        rule = None
        for n in ast.walk(ne):  # type: ignore
            if isinstance(n, ast.If) and "_max_incomplete_event_size" in ast.unparse(n.test):
                rule = n
        ok = (rule is not None and isinstance(rule.test, ast.Compare) and len(rule.test.ops) == 1 and type(rule.test.ops[0]) in CMPNAME
              and ast.unparse(rule.test.left) == "len(self._receive_buffer)" and ast.unparse(rule.test.comparators[0]) == "self._max_incomplete_event_size")
        hint = None
        if ok:
            for n in ast.walk(rule):
                if isinstance(n, ast.Raise) and isinstance(n.exc, ast.Call) and ast.unparse(n.exc.func) == "RemoteProtocolError":
                    for k in n.exc.keywords:
                        if k.arg == "error_status_hint" and isinstance(k.value, ast.Constant):
                            hint = k.value.value
        if not ok or hint is None:
            fail("h11LibIncompleteCmp", "`if len(self._receive_buffer) > self._max_incomplete_event_size: raise RemoteProtocolError(..., error_status_hint=N)` not found in the installed h11")
        else:
            emit(f"def h11LibIncompleteCmp : Cmp := .{CMPNAME[type(rule.test.ops[0])]}   -- installed h11: `{ast.unparse(rule.test)}` (under `if event is NEED_DATA`)")
            emit(f"def h11LibIncompleteHint : Nat := {hint}")
    except Exception as e:
        fail("limits h11 library", f"{type(e).__name__}: {e}")

    # ---- protocol/h2.py -------------------------------------------------------------------------------------
    try:
        tree = parse(src / "protocol/h2.py")
        init = find_def(tree, "H2Protocol", "__init__")
        table = None
        dec = frame = None
        for n in ast.walk(init):  # type: ignore
            if isinstance(n, ast.Assign) and ast.unparse(n.targets[0]) == "self.connection.local_settings" and isinstance(n.value, ast.Call):
                for k in n.value.keywords:
                    if k.arg == "initial_values" and isinstance(k.value, ast.Dict):
                        table = k.value
            if isinstance(n, ast.Assign) and ast.unparse(n.targets[0]) == "self.connection.decoder.max_header_list_size":
                dec = ast.unparse(n.value)
            if isinstance(n, ast.Assign) and ast.unparse(n.targets[0]) == "self.connection.DEFAULT_MAX_INBOUND_FRAME_SIZE":
                frame = ast.unparse(n.value)
        if table is None:
            fail("h2Settings", "`self.connection.local_settings = h2.settings.Settings(..., initial_values={...})` not found in H2Protocol.__init__")
        else:
            rows = []
            for k, v in zip(table.keys, table.values):
                code = ast.unparse(k).split(".")[-1]
                vt = ast.unparse(v)
                mm = re.fullmatch(r"(?:self\.)?config\.(\w+)", vt)
                rows.append((code, mm.group(1) if mm else vt))
            emit("def h2Settings : List (String × String) := [" + ", ".join(f"({q(a)}, {q(b)})" for a, b in rows) + "]   -- SettingCodes.<code> ↦ config.<attr> | literal")
        mm = re.fullmatch(r"(?:self\.)?config\.(\w+)", dec or "")
        if mm is None:
            fail("h2DecoderLimitSource", "`self.connection.decoder.max_header_list_size = config.<attr>` not found in H2Protocol.__init__ (the limit would only be advertised)")
        else:
            emit(f"def h2DecoderLimitSource : String := {q(mm.group(1))}   -- the HPACK decoder enforces this value from the first header block")
        mm = re.fullmatch(r"(?:self\.)?config\.(\w+)", frame or "")
        emit(f"def h2InboundFrameSizeSource : String := {q(mm.group(1) if mm else '')}   -- assigned to `connection.DEFAULT_MAX_INBOUND_FRAME_SIZE`")
        inits = [n for n in ast.walk(init) if isinstance(n, ast.Assign) and ast.unparse(n.targets[0]) == "self.keep_alive_requests"]  # type: ignore
        if len(inits) != 1 or not isinstance(inits[0].value, ast.Constant):
            fail("h2CounterInit", "`self.keep_alive_requests = <int>` not found exactly once in H2Protocol.__init__")
        else:
            emit(f"def h2CounterInit : Nat := {inits[0].value.value}")
        cls = find_def(tree, "H2Protocol")
        cs = find_def(tree, "H2Protocol", "_create_stream")
        sp = find_def(tree, "H2Protocol", "_create_server_push")
        a, b, c = _aug_incrs(cls, "self.keep_alive_requests"), _aug_incrs(cs, "self.keep_alive_requests"), _aug_incrs(sp, "self.keep_alive_requests")
        if len(b) != 1 or len(a) != len(b) + len(c) or any(not isinstance(x.op, ast.Add) or not isinstance(x.value, ast.Constant) for x in a):
            fail("h2CounterIncr", f"unexpected `self.keep_alive_requests += …` sites in H2Protocol ({len(a)} in the class, {len(b)} in _create_stream, {len(c)} in _create_server_push)")
        else:
            emit(f"def h2IncrCreateStream : Nat := {b[0].value.value}   -- `_create_stream` (client streams, the h2c stream and pushed streams)")
            emit(f"def h2IncrServerPushExtra : Nat := {sum(x.value.value for x in c)}   -- further `+=` in `_create_server_push`, which also calls `_create_stream`")
            pushes_call_create = any(isinstance(n, ast.Call) and ast.unparse(n.func) == "self._create_stream" for n in ast.walk(sp))  # type: ignore
            emit(f"def h2PushCallsCreateStream : Bool := {'true' if pushes_call_create else 'false'}")
        # the comparison is a statement of the RequestReceived branch of _handle_events, after the create/refuse if-else, and calls close_connection
        he = find_def(tree, "H2Protocol", "_handle_events")
        branch = None
        for n in ast.walk(he):  # type: ignore
            if isinstance(n, ast.If) and "RequestReceived" in ast.unparse(n.test):
                branch = n
                break
        shape = None
        if branch is not None:
            idx_cmp = [i for i, st in enumerate(branch.body) if isinstance(st, ast.If) and "keep_alive_max_requests" in ast.unparse(st.test)]
            idx_create = [i for i, st in enumerate(branch.body) if "self._create_stream(event)" in ast.unparse(st)]
            if len(idx_cmp) == 1 and idx_create:
                g = branch.body[idx_cmp[0]]
                acts = [ast.unparse(x) for x in g.body]
                if acts == ["self.connection.close_connection()"] and not g.orelse:
                    shape = idx_cmp[0] > idx_create[-1]
        if shape is None:
            fail("h2CmpAfterCreate", "`if <keep-alive comparison>: self.connection.close_connection()` after the create/refuse statement of the RequestReceived branch not found")
        else:
            emit(f"def h2CmpAfterCreate : Bool := {'true' if shape else 'false'}   -- the request that exceeds the maximum is itself served")
            emit("def h2LimitAction : String := \"close_connection\"")
        # the h2c upgrade request is given to `_create_stream` by `initiate`; is the request maximum compared there as well?
        ini = find_def(tree, "H2Protocol", "initiate")
        if ini is None:
            fail("h2InitiateCompares", "H2Protocol.initiate not found")
        else:
            cmp_in_init = any(isinstance(n, ast.Compare) and "keep_alive_max_requests" in ast.unparse(n) for n in ast.walk(ini))
            emit(f"def h2InitiateCompares : Bool := {'true' if cmp_in_init else 'false'}   -- `initiate` (the h2c upgrade request, stream 1) compares the counter with the request maximum")
    except Exception as e:
        fail("limits h2.py", f"{type(e).__name__}: {e}")

    # ---- where a request is counted towards the worker's max_requests: `await self.context.mark_request()` sits in the ONE place
    # every new stream goes through - `_create_stream` of each protocol (HTTP/2: received HEADERS, the HTTP/1.1 request of an
    # `Upgrade: h2c` connection handed to `initiate`, pushed streams), as a statement of its own (no condition around it) ----
    for tag, rel, clsname in (("h11", "protocol/h11.py", "H11Protocol"), ("h2", "protocol/h2.py", "H2Protocol")):
        try:
            ptree = parse(src / rel)
            cls = find_def(ptree, clsname)
            sites = []
            for f in cls.body:  # type: ignore
                if isinstance(f, (ast.FunctionDef, ast.AsyncFunctionDef)):
                    for st in ast.walk(f):
                        if isinstance(st, ast.Call) and ast.unparse(st.func) == "self.context.mark_request":
                            top = any(isinstance(x, ast.Expr) and isinstance(x.value, ast.Await) and x.value.value is st for x in f.body)
                            sites.append((f.name, top))
            if len(sites) != 1:
                fail(f"{tag}MarkRequestIn", f"`self.context.mark_request()` is called {len(sites)} times in {clsname} ({[x[0] for x in sites]}); expected exactly once")
            else:
                emit(f"def {tag}MarkRequestIn : String := {q(sites[0][0])}   -- the method of {clsname} that awaits `self.context.mark_request()`")
                emit(f"def {tag}MarkRequestUnconditional : Bool := {'true' if sites[0][1] else 'false'}   -- a top-level statement of that method")
            callers = sorted(f.name for f in cls.body if isinstance(f, (ast.FunctionDef, ast.AsyncFunctionDef)) and any(  # type: ignore
                isinstance(n, ast.Call) and ast.unparse(n.func) == "self._create_stream" for n in ast.walk(f)))
            emit(f"def {tag}CreateStreamCallers : List String := [" + ", ".join(q(x) for x in callers) + "]")
            # (a direct call, or the class taken as a value - `stream_class = WSStream if … else HTTPStream; stream_class(…)` -
            # i.e. any mention of the class outside an `isinstance(…)` test)
            def constructs(f: Any) -> bool:
                in_isinstance = {id(x) for n in ast.walk(f) if isinstance(n, ast.Call) and ast.unparse(n.func) == "isinstance" for x in ast.walk(n)}
                for n in ast.walk(f):       # annotations are not values
                    notes = [n.annotation] if isinstance(n, (ast.AnnAssign, ast.arg)) and n.annotation is not None else []
                    notes += [n.returns] if isinstance(n, (ast.FunctionDef, ast.AsyncFunctionDef)) and n.returns is not None else []
                    in_isinstance |= {id(x) for a in notes for x in ast.walk(a)}
                return any(isinstance(n, ast.Name) and n.id in ("HTTPStream", "WSStream") and id(n) not in in_isinstance for n in ast.walk(f))
            news = sorted({f.name for f in cls.body if isinstance(f, (ast.FunctionDef, ast.AsyncFunctionDef)) and constructs(f)})  # type: ignore
            emit(f"def {tag}StreamConstructedIn : List String := [" + ", ".join(q(x) for x in news) + "]   -- methods that construct HTTPStream / WSStream")
        except Exception as e:
            fail(f"{tag}MarkRequestIn", f"{type(e).__name__}: {e}")

    # ---- the installed hpack / h2: header-list accounting and the concurrent-stream rule --------------------------
    try:
        tbl = parse(_site_packages_file("hpack", "table.py"))
        fn = find_def(tbl, "table_entry_size")
        ret = [s for s in fn.body if isinstance(s, ast.Return)]  # type: ignore
        txt = "".join(ast.unparse(ret[0].value).split()) if ret else ""
        mm = re.fullmatch(r"(\d+)\+len\(name\)\+len\(value\)", txt) or re.fullmatch(r"len\(name\)\+len\(value\)\+(\d+)", txt)
        if mm is None:
            fail("hpackEntryOverhead", f"table_entry_size returns `{txt}`")
        else:
            emit(f"def hpackEntryOverhead : Nat := {mm.group(1)}   -- installed hpack: `{ast.unparse(ret[0].value)}`")
        hp = parse(_site_packages_file("hpack", "hpack.py"))
        decode = find_def(hp, "Decoder", "decode")
        c = find_compare(decode, "max_header_list_size")
        if c is None or ast.unparse(c.left) != "inflated_size" or ast.unparse(c.comparators[0]) != "self.max_header_list_size":
            fail("hpackListCmp", "`inflated_size > self.max_header_list_size` not found in the installed hpack Decoder.decode")
        else:
            emit(f"def hpackListCmp : Cmp := .{CMPNAME[type(c.ops[0])]}   -- installed hpack: `{ast.unparse(c)}`")
        h2c = parse(_site_packages_file("h2", "connection.py"))
        rh = find_def(h2c, "H2Connection", "_receive_headers_frame")
        c = find_compare(rh, "max_open_streams")
        src_ok = any(isinstance(n, ast.Assign) and ast.unparse(n.targets[0]) == "max_open_streams"
                     and ast.unparse(n.value) == "self.local_settings.max_concurrent_streams" for n in ast.walk(rh))  # type: ignore
        mm = re.fullmatch(r"\(?(\w+)\+(\d+)\)?", "".join(ast.unparse(c.left).split())) if c is not None else None
        if c is None or mm is None or not src_ok or ast.unparse(c.comparators[0]) != "max_open_streams":
            fail("h2StreamsCmp", "`(open + 1) > self.local_settings.max_concurrent_streams` not found in the installed h2 _receive_headers_frame")
        else:
            emit(f"def h2StreamsCmp : Cmp := .{CMPNAME[type(c.ops[0])]}   -- installed h2: `{ast.unparse(c)}`")
            emit(f"def h2StreamsLhsPlus : Nat := {mm.group(2)}")
        dh = find_def(h2c, "_decode_headers")
        over = [ast.unparse(h.type) for h in ast.walk(dh) if isinstance(h, ast.ExceptHandler) and h.type is not None]  # type: ignore
        emit(f"def h2OversizeIsConnectionError : Bool := {'true' if 'OversizedHeaderListError' in over else 'false'}   -- `_decode_headers` turns it into DenialOfServiceError")
    except Exception as e:
        fail("limits hpack/h2 library", f"{type(e).__name__}: {e}")

    # ---- worker_context.py / run.py of both workers ---------------------------------------------------------------
    for w in ("asyncio", "trio"):
        try:
            tree = parse(src / w / "worker_context.py")
            mr = find_def(tree, "WorkerContext", "mark_request")
            body = mr.body  # type: ignore
            ok = (len(body) == 3 and isinstance(body[0], ast.If) and "".join(ast.unparse(body[0].test).split()) == "self.max_requestsisNone"
                  and len(body[0].body) == 1 and isinstance(body[0].body[0], ast.Return) and body[0].body[0].value is None
                  and isinstance(body[1], ast.AugAssign) and ast.unparse(body[1].target) == "self.requests" and isinstance(body[1].op, ast.Add)
                  and isinstance(body[1].value, ast.Constant)
                  and isinstance(body[2], ast.If) and [ast.unparse(x) for x in body[2].body] == ["await self.terminate.set()"] and not body[2].orelse)
            init = find_def(tree, "WorkerContext", "__init__")
            start = [n for n in ast.walk(init) if isinstance(n, ast.Assign) and ast.unparse(n.targets[0]) == "self.requests"]  # type: ignore
            keeps = any(isinstance(n, ast.Assign) and ast.unparse(n.targets[0]) == "self.max_requests" and ast.unparse(n.value) == "max_requests"
                        for n in ast.walk(init))  # type: ignore
            if not ok or len(start) != 1 or not isinstance(start[0].value, ast.Constant) or not keeps:
                fail(f"{w}MarkRequest", "mark_request is not `if self.max_requests is None: return; self.requests += k; if <cmp>: await self.terminate.set()`")
            else:
                emit(f"def {w}RecycleIncr : Nat := {body[1].value.value}   -- `{ast.unparse(body[1])}` in {w}/worker_context.py")
                emit(f"def {w}RecycleInit : Nat := {start[0].value.value}")
                emit(f"def {w}RecycleOffWhenNone : Bool := true   -- `if self.max_requests is None: return`")
            tree = parse(src / w / "run.py")
            ws = find_def(tree, "worker_serve")
            imp = any(isinstance(n, ast.ImportFrom) and n.module == "random" and any(a.name == "randint" and a.asname is None for a in n.names) for n in tree.body)
            asg = [n for n in ast.walk(ws) if isinstance(n, ast.Assign) and ast.unparse(n.targets[0]) == "max_requests"]  # type: ignore
            guard = [n for n in ast.walk(ws) if isinstance(n, ast.If) and "".join(ast.unparse(n.test).split()) == "config.max_requestsisnotNone"]  # type: ignore
            ctxs = [n for n in ast.walk(ws) if isinstance(n, ast.Call) and ast.unparse(n.func) == "WorkerContext"]  # type: ignore
            shape = None
            if imp and len(asg) == 2 and len(guard) == 1 and guard[0].body == [asg[1]] and isinstance(asg[0].value, ast.Constant) and asg[0].value.value is None \
                    and len(ctxs) == 1 and [ast.unparse(a) for a in ctxs[0].args] == ["max_requests"]:
                v = asg[1].value
                if isinstance(v, ast.BinOp) and type(v.op) in (ast.Add, ast.Sub, ast.Mult) and ast.unparse(v.left) == "config.max_requests" \
                        and isinstance(v.right, ast.Call) and ast.unparse(v.right.func) == "randint" and len(v.right.args) == 2 and not v.right.keywords \
                        and isinstance(v.right.args[0], ast.Constant) and isinstance(v.right.args[0].value, int):
                    mm = re.fullmatch(r"config\.(\w+)", ast.unparse(v.right.args[1]))
                    if mm:
                        shape = ({ast.Add: "add", ast.Sub: "sub", ast.Mult: "mul"}[type(v.op)], v.right.args[0].value, mm.group(1), ast.unparse(v))
            if shape is None:
                fail(f"{w}Jitter", "`max_requests = None; if config.max_requests is not None: max_requests = config.max_requests + randint(<int>, config.<attr>); WorkerContext(max_requests)` "
                                   "(with `from random import randint`) not found in worker_serve")
            else:
                emit(f"def {w}JitterOp : JOp := .{shape[0]}   -- `{shape[3]}` in {w}/run.py; random.randint is inclusive at both ends")
                emit(f"def {w}JitterLo : Nat := {shape[1]}")
                emit(f"def {w}JitterHiSource : String := {q(shape[2])}")
                emit(f"def {w}RecycleOffWhenConfigNone : Bool := true   -- `if config.max_requests is not None`")
        except Exception as e:
            fail(f"limits {w} worker", f"{type(e).__name__}: {e}")
    out += ["end HC.Extracted.Limits", ""]
    return "\n".join(out)


def extract_runtime(src: Path) -> str:
    """The worker-specific primitives (HC/Conn/Shell.lean `Runtime`): read off the two tcp_server.py / worker_context.py files."""
    out = ["/- GENERATED by tools/extract.py — the two workers' connection shells as `Runtime` records — do not edit -/",
           "import HC.Conn.Shell", "namespace HC.Extracted.Runtime", "open HC.Conn.Shell"]

    def calls(node: Any) -> List[str]:
        cs = [n for n in ast.walk(node) if isinstance(n, ast.Call)]
        cs.sort(key=lambda n: (n.lineno, n.col_offset, -(n.end_col_offset or 0)))     # source order, outer call before its arguments
        return [ast.unparse(n.func) for n in cs]

    for worker in ("asyncio", "trio"):
        try:
            tcp = parse(src / worker / "tcp_server.py")
            wc = parse(src / worker / "worker_context.py")
            ps = find_def(tcp, "TCPServer", "protocol_send")
            rd = find_def(tcp, "TCPServer", "_read_data")
            cl = find_def(tcp, "TCPServer", "_close")
            run = find_def(tcp, "TCPServer", "run")
            isc = find_def(tcp, "TCPServer", "_initiate_server_close")
            if None in (ps, rd, cl, run, isc):
                fail(f"runtime {worker}", "TCPServer method missing")
                continue
            # protocol_send: the three isinstance branches
            branches: Dict[str, Any] = {}
            # the dispatch on the event class: an if/elif chain, or consecutive `if isinstance(...): ...` statements
            todo = [n for n in ps.body if isinstance(n, ast.If)]  # type: ignore
            while todo:
                node = todo.pop(0)
                t = ast.unparse(node.test)
                for k in ("RawData", "Closed", "Updated"):
                    if f"isinstance(event, {k})" == t and k not in branches:
                        branches[k] = [st for st in node.body if not (isinstance(st, ast.Return) and st.value is None)]
                if len(node.orelse) == 1 and isinstance(node.orelse[0], ast.If):
                    todo.insert(0, node.orelse[0])
            if set(branches) != {"RawData", "Closed", "Updated"}:
                fail(f"runtime {worker}", f"protocol_send branches are {sorted(branches)}")
                continue
            closed_calls = [c for st in branches["Closed"] for c in calls(st)]
            if closed_calls[:1] != ["self._close"] or any(c not in ("self._close", "self.protocol.handle", "Closed") for c in closed_calls):
                fail(f"runtime {worker}", f"protocol_send(Closed) does {closed_calls}")
            closed_reenters = "self.protocol.handle" in closed_calls
            handlers = [h for st in branches["RawData"] for h in ast.walk(st) if isinstance(h, ast.ExceptHandler)]
            write_err_closes = len(handlers) == 1 and [c for st in handlers[0].body for c in calls(st)][:2] == ["self.protocol.handle", "Closed"]
            # ... for every exception class the transport raises for a write that cannot be done: asyncio's StreamWriter
            # (ConnectionError family from drain(), RuntimeError from write() after write_eof()); trio's stream
            # (BrokenResourceError, ClosedResourceError)
            need = {"asyncio": {"ConnectionError", "RuntimeError"}, "trio": {"BrokenResourceError", "ClosedResourceError"}}[worker]
            if write_err_closes:
                t = handlers[0].type
                got = {ast.unparse(e).split(".")[-1] for e in (t.elts if isinstance(t, ast.Tuple) else [t])} if t is not None else set()
                write_err_closes = need <= got or "Exception" in got or t is None
            upd = branches["Updated"]
            upd_ok = (len(upd) == 1 and isinstance(upd[0], ast.If) and ast.unparse(upd[0].test) == "event.idle"
                      and "self.idle_task.restart" in calls(upd[0].body[0]) and "self.idle_task.stop" in calls(upd[0].orelse[0]))
            if not upd_ok:
                fail(f"runtime {worker}", "protocol_send(Updated) is not `restart if event.idle else stop`")
            close_stops_idle = "self.idle_task.stop" in calls(cl)
            # run(): initiate; restart; _read_data; [stop]
            seq = [c for c in calls(run) if c in ("self.protocol.initiate", "self.idle_task.restart", "self._read_data", "self.idle_task.stop", "self._close")]
            order = sorted(((n.lineno, ast.unparse(n.func)) for n in ast.walk(run) if isinstance(n, ast.Call)
                            and ast.unparse(n.func) in ("self.protocol.initiate", "self.idle_task.restart", "self._read_data", "self.idle_task.stop", "self._close")))
            names = [x[1] for x in order]
            if names[:3] != ["self.protocol.initiate", "self.idle_task.restart", "self._read_data"] or names[-1] != "self._close":
                fail(f"runtime {worker}", f"run() call order is {names}")
            read_end_stops = names[3:4] == ["self.idle_task.stop"]
            # _read_data: loop shape
            loop = next((n for n in rd.body if isinstance(n, ast.While)), None)  # type: ignore
            if loop is None:
                fail(f"runtime {worker}", "_read_data has no while loop")
                continue
            cond = ast.unparse(loop.test)
            breaks_on_empty = any(isinstance(n, ast.If) and ast.unparse(n.test).replace('"', "'") == "data == b''" and any(isinstance(b, ast.Break) for b in n.body)
                                  for n in ast.walk(loop))
            handles_raw = any(ast.unparse(c) == "self.protocol.handle(RawData(data))" for c in ast.walk(loop) if isinstance(c, ast.Call))
            # the read time-out bounds the read only, never the protocol's handling of what was read (the shell model has no
            # way for a time-out to interrupt `protocol.handle`)
            for n in ast.walk(loop):
                scoped = None
                if isinstance(n, (ast.With, ast.AsyncWith)) and any("fail_after" in ast.unparse(i.context_expr) or "timeout" in ast.unparse(i.context_expr) for i in n.items):
                    scoped = n.body
                elif isinstance(n, ast.Call) and ast.unparse(n.func).endswith("wait_for"):
                    scoped = n.args[:1]
                if scoped is not None and any("protocol.handle" in ast.unparse(x) for x in scoped):
                    fail(f"runtime {worker}", "the read time-out scope of _read_data also covers protocol.handle(...)")
            after = [ast.unparse(st) for st in rd.body[rd.body.index(loop) + 1:]]  # type: ignore
            if not handles_raw or after != ["await self.protocol.handle(Closed())"]:
                fail(f"runtime {worker}", f"_read_data body not recognised (after loop: {after})")
            if cond == "True" and breaks_on_empty:
                eof_always = True
            elif cond == "not self.reader.at_eof()":
                eof_always = breaks_on_empty
            else:
                fail(f"runtime {worker}", f"_read_data loop condition `{cond}` (break on empty read: {breaks_on_empty})")
                continue
            isc_calls = [c for c in calls(isc) if c in ("self.protocol.handle", "self.writer.close", "self.stream.aclose")]
            timer_first = isc_calls[:1] == ["self.protocol.handle"] and len(isc_calls) == 2
            if len(isc_calls) != 2:
                fail(f"runtime {worker}", f"_initiate_server_close does {isc_calls}")
            clear = find_def(wc, "EventWrapper", "clear")
            clear_src = [ast.unparse(st) for st in clear.body]  # type: ignore
            if clear_src == ["self._event.clear()"]:
                replaces = False
            elif len(clear_src) == 1 and clear_src[0].startswith("self._event = "):
                replaces = True
            elif (len(clear.body) == 1 and isinstance(clear.body[0], ast.If) and not clear.body[0].orelse  # type: ignore
                  and ast.unparse(clear.body[0].test) == "self._event.is_set()"  # type: ignore
                  and [ast.unparse(x)[:14] for x in clear.body[0].body] == ["self._event = "]):  # type: ignore
                replaces = True        # replaced when set; an unset event is left alone (nobody waiting on it is orphaned)
            else:
                fail(f"runtime {worker}", f"EventWrapper.clear is {clear_src}")
                continue
            st_cls = "AsyncioSingleTask" if worker == "asyncio" else "TrioSingleTask"
            stop = find_def(wc, st_cls, "stop")
            # (in `stop` itself or in a helper method of the class that `stop` awaits)
            helpers = [find_def(wc, st_cls, ast.unparse(n.value.func)[5:]) for n in ast.walk(stop)  # type: ignore
                       if isinstance(n, ast.Await) and isinstance(n.value, ast.Call) and ast.unparse(n.value.func).startswith("self._")]
            awaits_cancelled = any(isinstance(n, ast.Await) and ast.unparse(n.value) == "self._handle"
                                   for fn_ in [stop] + [h for h in helpers if h is not None] for n in ast.walk(fn_))  # type: ignore
            # the state handed to the connection's protocol: a copy of the worker's lifespan state, made unconditionally
            pw = [n for n in ast.walk(run) if isinstance(n, ast.Call) and ast.unparse(n.func) == "ProtocolWrapper"]  # type: ignore
            if len(pw) != 1 or len(pw[0].args) < 5:
                fail(f"runtime {worker}", "run(): ProtocolWrapper(...) call not recognised")
                continue
            copies_state = ast.unparse(pw[0].args[4]) in ("ConnectionState(self.state.copy())", "ConnectionState(dict(self.state))",
                                                          "ConnectionState({**self.state})")
            # how much one read may return (module constant MAX_RECV, the argument of the read call)
            max_recv = None
            for n in tcp.body:
                if isinstance(n, ast.Assign) and ast.unparse(n.targets[0]) == "MAX_RECV":
                    try:
                        max_recv = int(eval(compile(ast.Expression(n.value), "<MAX_RECV>", "eval"), {"__builtins__": {}}))
                    except Exception:
                        max_recv = None
            read_args = [ast.unparse(c.args[0]) for c in ast.walk(rd) if isinstance(c, ast.Call) and ast.unparse(c.func) in
                         ("self.reader.read", "self.stream.receive_some") and c.args]
            if max_recv is None or read_args != ["MAX_RECV"]:
                fail(f"runtime {worker}", f"read size not recognised (MAX_RECV = {max_recv}, read call arguments {read_args})")
                continue
            b = lambda x: "true" if x else "false"  # noqa: E731
            out.append(f"def {worker}Rt : Runtime :=\n  {{ closedReenters := {b(closed_reenters)}, closeStopsIdle := {b(close_stops_idle)}, readEndStopsIdle := {b(read_end_stops)},\n"
                       f"    eofAlwaysPassedOn := {b(eof_always)}, writeErrorClosesProtocol := {b(write_err_closes)},\n"
                       f"    timerTellsProtocolFirst := {b(timer_first)}, clearReplaces := {b(replaces)}, stopAwaitsCancelled := {b(awaits_cancelled)},\n"
                       f"    copiesState := {b(copies_state)}, maxRecv := {max_recv} }}")
        except Exception as e:
            fail(f"runtime {worker}", f"{type(e).__name__}: {e}")
    out += ["end HC.Extracted.Runtime", ""]
    return "\n".join(out)


def extract_app_exit(src: Path) -> str:
    """C05: the shape of `_handle` (try / except / finally around the application call) of both workers as a `TryShape`,
    and the REQUEST-state branches of `HTTPStream.app_send` as straight-line `BStep` programs (HC/Stream/AppExit.lean
    holds the interpreters; HC/Props/C05.lean the theorems about these very programs)."""
    out = ["/- GENERATED by tools/extract.py — shape of `_handle` and of the REQUEST-state branches of HTTPStream.app_send — do not edit -/",
           "import HC.Stream.AppExit", "namespace HC.Extracted.AppExit", "open HC.Stream.AppExit"]

    def simple(st: ast.stmt, what: str) -> Optional[str]:
        if isinstance(st, ast.Raise) and st.exc is None:
            return ".reraise"
        if isinstance(st, ast.Expr) and isinstance(st.value, ast.Await) and isinstance(st.value.value, ast.Call):
            call = st.value.value
            f = ast.unparse(call.func)
            if f == "config.log.exception":
                return ".log"
            if f == "send" and len(call.args) == 1 and not call.keywords and isinstance(call.args[0], ast.Constant) and call.args[0].value is None:
                return ".sendNone"
        fail(what, f"statement not recognised: `{ast.unparse(st)[:80]}`")
        return None

    def simples(stmts: List[ast.stmt], what: str) -> Optional[str]:
        xs = [simple(st, what) for st in stmts]
        return None if None in xs else "[" + ", ".join(xs) + "]"  # type: ignore

    def acts(stmts: List[ast.stmt], what: str) -> Optional[str]:
        res: List[str] = []
        i = 0
        while i < len(stmts):
            st = stmts[i]
            split = (isinstance(st, ast.Assign) and isinstance(st.value, ast.Call) and isinstance(st.value.func, ast.Attribute)
                     and st.value.func.attr == "split" and len(st.targets) == 1 and isinstance(st.targets[0], ast.Tuple)
                     and len(st.targets[0].elts) == 2 and "Cancelled" in ast.unparse(st.value))
            if split:
                other = ast.unparse(st.targets[0].elts[1])         # type: ignore
                nxt = stmts[i + 1] if i + 1 < len(stmts) else None
                if not isinstance(nxt, ast.If) or ast.unparse(nxt.test) not in (f"{other} is not None", f"{other} is None"):
                    fail(what, "`… = error.split(Cancelled)` is not followed by `if <other> is [not] None`")
                    return None
                thn, els = simples(nxt.body, what), simples(nxt.orelse, what)
                if thn is None or els is None:
                    return None
                if ast.unparse(nxt.test).endswith("is None"):
                    thn, els = els, thn
                res.append(f".ifOtherErrors {thn} {els}")
                i += 2
                continue
            s_ = simple(st, what)
            if s_ is None:
                return None
            res.append(f".simple {s_}")
            i += 1
        return "[" + ", ".join(res) + "]"

    classes = {"asyncio.CancelledError": ".cancelled", "CancelledError": ".cancelled", "trio.Cancelled": ".cancelled", "Exception": ".exception",
               "BaseExceptionGroup": ".baseExceptionGroup", "BaseException": ".baseException"}
    for worker in ("asyncio", "trio"):
        what = f"{worker} _handle"
        try:
            fn = find_def(parse(src / worker / "task_group.py"), "_handle")
            body = [st for st in fn.body if not (isinstance(st, ast.Expr) and isinstance(st.value, ast.Constant))]  # type: ignore
            if not body or not isinstance(body[0], ast.Try):
                fail(what, "body does not start with a try statement")
                continue
            t = body[0]
            app_call = (len(t.body) == 1 and isinstance(t.body[0], ast.Expr) and isinstance(t.body[0].value, ast.Await)
                        and isinstance(t.body[0].value.value, ast.Call) and ast.unparse(t.body[0].value.value.func) == "app")
            if not app_call or t.orelse:
                fail(what, "the try body is not exactly `await app(…)` (or there is an else block)")
                continue
            hs: List[str] = []
            ok = True
            for h in t.handlers:
                ts = [None] if h.type is None else (h.type.elts if isinstance(h.type, ast.Tuple) else [h.type])
                a = acts(h.body, what)
                if a is None:
                    ok = False
                    break
                for ty in ts:
                    name = "BaseException" if ty is None else ast.unparse(ty)
                    if name not in classes:
                        fail(what, f"except class `{name}` not recognised")
                        ok = False
                    else:
                        hs.append(f"({classes[name]}, {a})")
            fin, aft = simples(t.finalbody, what), simples(body[1:], what)
            if not ok or fin is None or aft is None:
                continue
            out.append(f"def {worker}Handle : TryShape :=\n  {{ handlers := [{', '.join(hs)}],\n    final := {fin}, after := {aft} }}")
        except Exception as e:
            fail(what, f"{type(e).__name__}: {e}")

    # ---- HTTPStream.app_send: the branches guarded by `self.state == ASGIHTTPState.REQUEST`
    try:
        fn = find_def(parse(src / "protocol/http_stream.py"), "HTTPStream", "app_send")
        wanted = {"http.response.start": "httpStartBranch", "http.response.trailers": "httpTrailersStartBranch",
                  "http.response.early_hint": "httpEarlyHintBranch"}
        found: Dict[str, str] = {}

        def lin(stmts: List[ast.stmt], what: str, acc: List[str]) -> bool:
            for st in stmts:
                if isinstance(st, (ast.For, ast.If)):
                    # Only the trailers branch has conditional parts (the `te: trailers` loop, `more_trailers`); its program
                    # lists every statement that may run.  `http.response.start` / early hints are straight-line: a state
                    # assignment (or a send) under a condition must not be read as an unconditional one.
                    if "http.response.trailers" not in what:
                        fail(what, f"conditional statement in a straight-line branch: `{ast.unparse(st).splitlines()[0][:80]}`")
                        return False
                    if not lin(st.body, what, acc) or not lin(st.orelse, what, acc):
                        return False
                elif isinstance(st, ast.Break):
                    continue
                elif isinstance(st, ast.Assign) and len(st.targets) == 1:
                    tgt, val = ast.unparse(st.targets[0]), ast.unparse(st.value)
                    if tgt == "self.state" and val.startswith("ASGIHTTPState."):
                        acc.append(f".setState .{val.split('.')[1].lower()}")
                    elif tgt == "self.response":
                        acc.append(".assignResponse")
                    elif "build_and_validate_headers(" in val or "validate_header_part(" in val:
                        acc.append(".validate")
                    elif isinstance(st.targets[0], ast.Name) and isinstance(st.value, ast.Call) and ast.unparse(st.value.func) == "int":
                        acc.append(".validate")          # `status_code = int(…)`: a step that may raise and has no other effect
                    else:
                        fail(what, f"assignment not recognised: `{ast.unparse(st)[:80]}`")
                        return False
                elif isinstance(st, ast.Expr) and isinstance(st.value, ast.Await) and isinstance(st.value.value, ast.Call):
                    call = st.value.value
                    f = ast.unparse(call.func)
                    arg = ast.unparse(call.args[0].func) if call.args and isinstance(call.args[0], ast.Call) else ""
                    if f == "self.send" and arg == "Response":
                        acc.append(".sendResponse")
                    elif f == "self.send" and arg == "InformationalResponse":
                        acc.append(".sendInfo")
                    elif f == "self._send_closed":
                        acc.append(".sendClosed")
                    else:
                        fail(what, f"call not recognised: `{ast.unparse(st)[:80]}`")
                        return False
                else:
                    fail(what, f"statement not recognised: `{ast.unparse(st)[:80]}`")
                    return False
            return True

        for n in ast.walk(fn):  # type: ignore
            if not isinstance(n, ast.If):
                continue
            test = ast.unparse(n.test)
            if "self.state == ASGIHTTPState.REQUEST" not in test:
                continue
            for mtype, lean in wanted.items():
                if f"message['type'] == '{mtype}'" in test:
                    acc: List[str] = []
                    if lean in found:
                        fail(f"app_send {mtype}", "two REQUEST-state branches for this message type")
                    elif lin(n.body, f"app_send {mtype}", acc):
                        found[lean] = "[" + ", ".join(acc) + "]"
        for mtype, lean in wanted.items():
            if lean in found:
                out.append(f"def {lean} : List BStep := {found[lean]}")
            elif not any(f"app_send {mtype}" in x for x in FAILS):
                fail(f"app_send {mtype}", "REQUEST-state branch not found")
    except Exception as e:
        fail("app_send", f"{type(e).__name__}: {e}")

    # ---- HTTPStream.app_send, `message is None` (the application has ended): what is sent in which state of the response.
    # The branch is evaluated for each of the four states (its tests may only look at `self.state`), giving
    # `httpExitActs : Http.St -> List XAct`; everything must sit under `if not self.closed:`.
    try:
        fn = find_def(parse(src / "protocol/http_stream.py"), "HTTPStream", "app_send")
        top = next((st for st in fn.body if isinstance(st, ast.If) and ast.unparse(st.test) == "message is None"), None)  # type: ignore
        states = ["REQUEST", "RESPONSE", "TRAILERS", "CLOSED"]
        sends = {"Response": ".response", "Body": ".body", "EndBody": ".endBody", "Trailers": ".trailers", "StreamClosed": ".streamClosed"}

        class Unknown(Exception):
            pass

        def const_state(n: ast.AST) -> str:
            t = ast.unparse(n)
            if t.startswith("ASGIHTTPState.") and t.split(".")[1] in states:
                return t.split(".")[1]
            raise Unknown(f"not a state constant: `{t}`")

        def ev(n: ast.AST, state: str) -> bool:
            if isinstance(n, ast.UnaryOp) and isinstance(n.op, ast.Not):
                return not ev(n.operand, state)
            if isinstance(n, ast.BoolOp):
                vals = [ev(v, state) for v in n.values]
                return all(vals) if isinstance(n.op, ast.And) else any(vals)
            if isinstance(n, ast.Compare) and len(n.ops) == 1 and ast.unparse(n.left) == "self.state":
                op, rhs = n.ops[0], n.comparators[0]
                if isinstance(op, (ast.Eq, ast.Is)):
                    return state == const_state(rhs)
                if isinstance(op, (ast.NotEq, ast.IsNot)):
                    return state != const_state(rhs)
                if isinstance(op, (ast.In, ast.NotIn)) and isinstance(rhs, (ast.Tuple, ast.List, ast.Set)):
                    member = state in [const_state(e) for e in rhs.elts]
                    return member if isinstance(op, ast.In) else not member
            raise Unknown(f"test not over self.state: `{ast.unparse(n)[:80]}`")

        def run_exit(stmts: List[ast.stmt], state: str, acc: List[str]) -> None:
            for st in stmts:
                if isinstance(st, ast.If):
                    run_exit(st.body if ev(st.test, state) else st.orelse, state, acc)
                elif isinstance(st, ast.Expr) and isinstance(st.value, ast.Await) and isinstance(st.value.value, ast.Call):
                    call = st.value.value
                    f = ast.unparse(call.func)
                    arg = ast.unparse(call.args[0].func) if call.args and isinstance(call.args[0], ast.Call) else ""
                    if f == "self._send_error_response" and len(call.args) == 1 and isinstance(call.args[0], ast.Constant) and isinstance(call.args[0].value, int):
                        acc.append(f".errorResponse {call.args[0].value}")
                    elif f == "self._send_closed":
                        acc.append(".sendClosed")
                    elif f == "self.send" and arg in sends:
                        acc.append(sends[arg])
                    else:
                        raise Unknown(f"call not recognised: `{ast.unparse(st)[:80]}`")
                elif isinstance(st, ast.Pass) or (isinstance(st, ast.Expr) and isinstance(st.value, ast.Constant)):
                    continue
                else:
                    raise Unknown(f"statement not recognised: `{ast.unparse(st)[:80]}`")

        if top is None or len(top.body) != 1 or not isinstance(top.body[0], ast.If) or ast.unparse(top.body[0].test) != "not self.closed" or top.body[0].orelse:
            fail("httpExitActs", "`if message is None:` is not exactly `if not self.closed: …`")
        else:
            try:
                arms = []
                for state in states:
                    acc2: List[str] = []
                    run_exit(top.body[0].body, state, acc2)
                    arms.append(f"  | .{state.lower()} => [{', '.join(acc2)}]")
                out.append("def httpExitActs : HC.Stream.Http.St → List XAct\n" + "\n".join(arms))
            except Unknown as e:
                fail("httpExitActs", str(e))
    except Exception as e:
        fail("httpExitActs", f"{type(e).__name__}: {e}")

    # ---- WSStream.app_send: the branch `message["type"] == "websocket.close" and self.state == ASGIWebsocketState.CONNECTED`
    #      as a straight-line `WStep` program (F63: the state may change only once the close frame has been produced, and must
    #      be CLOSED before the first await after that).  Both statement orders are recognised; the theorems decide.
    try:
        what = "wsCloseBranch"
        fn = find_def(parse(src / "protocol/ws_stream.py"), "WSStream", "app_send")
        ws_states = {"HANDSHAKE": ".handshake", "CONNECTED": ".connected", "RESPONSE": ".response", "CLOSED": ".closed", "HTTPCLOSED": ".httpClosed"}

        def builds_frame(n: ast.AST) -> bool:
            u = ast.unparse(n)
            return "self.connection.send(" in u and "CloseConnection(" in u

        def wlin(stmts: List[ast.stmt], acc: List[str]) -> bool:
            for st in stmts:
                u = ast.unparse(st)
                if isinstance(st, ast.Try):
                    # `try: data = self.connection.send(CloseConnection(…)) except LocalProtocolError: data = None | pass`
                    handlers_ok = all(h.type is not None and ast.unparse(h.type).split(".")[-1] == "LocalProtocolError"
                                      and all(isinstance(b, ast.Pass) or (isinstance(b, ast.Assign) and isinstance(b.value, ast.Constant))
                                              for b in h.body) for h in st.handlers)
                    if not handlers_ok or st.finalbody or len(st.handlers) != 1:
                        fail(what, f"try statement not recognised: `{u[:80]}`")
                        return False
                    if not wlin(st.body, acc) or not wlin(st.orelse, acc):
                        return False
                elif isinstance(st, ast.If):
                    if "await" in ast.unparse(st.test) or "self.state" in ast.unparse(st.test) or st.orelse:
                        fail(what, f"if statement not recognised: `{u[:80]}`")
                        return False
                    if not wlin(st.body, acc):
                        return False
                elif isinstance(st, (ast.Assign, ast.AnnAssign)) and (isinstance(st, ast.AnnAssign) or len(st.targets) == 1):
                    tgt = ast.unparse(st.target if isinstance(st, ast.AnnAssign) else st.targets[0])
                    val = "" if st.value is None else ast.unparse(st.value)
                    if tgt == "self.state":
                        name = val.split(".")[-1]
                        if not val.startswith("ASGIWebsocketState.") or name not in ws_states:
                            fail(what, f"state assignment not recognised: `{u[:80]}`")
                            return False
                        acc.append(f".setState {ws_states[name]}")
                    elif tgt.startswith("self.") or "await" in val:
                        fail(what, f"assignment not recognised: `{u[:80]}`")
                        return False
                    elif st.value is not None and builds_frame(st.value):
                        acc.append(".buildFrame")
                    elif "self.connection.send(" in val:
                        fail(what, f"assignment not recognised: `{u[:80]}`")
                        return False
                    else:
                        acc.append(".prepare")
                elif isinstance(st, ast.Expr) and isinstance(st.value, ast.Await) and isinstance(st.value.value, ast.Call):
                    call = st.value.value
                    f = ast.unparse(call.func)
                    arg = ast.unparse(call.args[0].func) if call.args and isinstance(call.args[0], ast.Call) else ""
                    if f == "self._send_wsproto_event" and len(call.args) == 1:
                        acc.append(".sendEvent")
                    elif f == "self.send" and arg == "Data":
                        acc.append(".sendData")
                    elif f == "self.send" and arg == "EndData":
                        acc.append(".sendEndData")
                    else:
                        fail(what, f"call not recognised: `{u[:80]}`")
                        return False
                else:
                    fail(what, f"statement not recognised: `{u[:80]}`")
                    return False
            return True

        branches = [n for n in ast.walk(fn) if isinstance(n, ast.If)  # type: ignore
                    and "message['type'] == 'websocket.close'" in ast.unparse(n.test)
                    and "self.state == ASGIWebsocketState.CONNECTED" in ast.unparse(n.test)]
        if len(branches) != 1:
            fail(what, f"expected one CONNECTED-state branch for websocket.close in WSStream.app_send (found {len(branches)})")
        else:
            acc2: List[str] = []
            if wlin(branches[0].body, acc2):
                frames = sum(1 for a in acc2 if a in (".buildFrame", ".sendEvent"))
                if frames != 1:
                    fail(what, f"expected exactly one statement that builds the close frame, found {frames}: {acc2}")
                else:
                    out.append("/-- `WSStream.app_send`, `websocket.close` while CONNECTED, statement by statement -/")
                    out.append("def wsCloseBranch : List WStep := [" + ", ".join(acc2) + "]")
    except Exception as e:
        fail("wsCloseBranch", f"{type(e).__name__}: {e}")
    # ---- H2Protocol._reset_abandoned_response: guard atoms and the statements that may run under it, in source order (C05:
    #      the reset of an abandoned response must not wait for the peer's flow-control credit).  Always written.
    what = "h2AbandonSteps"
    g_out, s_out = "[.other]", "[.unrecognised]"
    try:
        fn = find_def(parse(src / "protocol/h2.py"), "H2Protocol", "_reset_abandoned_response")
        body = [st for st in fn.body if not (isinstance(st, ast.Expr) and isinstance(st.value, ast.Constant))]  # type: ignore
        # the local that holds the stream's buffer may have any name
        var = None
        if body and isinstance(body[0], ast.Assign) and len(body[0].targets) == 1 and isinstance(body[0].targets[0], ast.Name) \
                and ast.unparse(body[0].value) == "self.stream_buffers.get(stream_id)":
            var = body[0].targets[0].id

            class _Ren(ast.NodeTransformer):
                def visit_Name(self, node: ast.Name) -> Any:
                    return ast.copy_location(ast.Name(id="buffer", ctx=node.ctx), node) if node.id == var else node
            body = [_Ren().visit(st) for st in body]

        def guard_atom(node: ast.AST, neg: bool) -> str:
            if isinstance(node, ast.UnaryOp) and isinstance(node.op, ast.Not):
                return guard_atom(node.operand, not neg)
            u = ast.unparse(node)
            table = {("buffer is not None", False): ".bufferExists", ("buffer is None", True): ".bufferExists",
                     ("buffer._complete", True): ".bufferNotComplete",
                     ("isinstance(self.streams.get(stream_id), HTTPStream)", False): ".isHttpStream"}
            return table.get((u, neg), ".other")

        # either `if A and B and C: <statements>` or guard clauses `if not A or not B: return` … followed by the statements
        conj: List[str] = []
        stmts: Optional[List[ast.stmt]] = None
        rest = body[1:] if var is not None else []
        if len(rest) == 1 and isinstance(rest[0], ast.If) and not rest[0].orelse:
            t = rest[0].test
            conj = [guard_atom(c, False) for c in (t.values if isinstance(t, ast.BoolOp) and isinstance(t.op, ast.And) else [t])]
            stmts = rest[0].body
        else:
            k = 0
            while k < len(rest) and isinstance(rest[k], ast.If) and not rest[k].orelse and len(rest[k].body) == 1 \
                    and isinstance(rest[k].body[0], ast.Return) and rest[k].body[0].value is None:
                t = rest[k].test
                conj += [guard_atom(c, True) for c in (t.values if isinstance(t, ast.BoolOp) and isinstance(t.op, ast.Or) else [t])]
                k += 1
            if k > 0 and k < len(rest):
                stmts = rest[k:]
        if stmts is None:
            fail(what, "body is not `<buffer> = self.stream_buffers.get(stream_id)` followed by `if <guard>: …` or by guard clauses and the statements")
        else:
            gs = conj
            if ".other" in gs:
                fail("h2AbandonGuard", f"conjunct of the guard not recognised ({gs})")
            g_out = "[" + ", ".join(gs) + "]"

            def only(stmts: List[ast.stmt], text: str) -> bool:
                return len(stmts) == 1 and ast.unparse(stmts[0]).startswith(text)

            def handler_is(t: ast.Try, cls: str, kind: type) -> bool:
                return (len(t.handlers) == 1 and t.handlers[0].type is not None and ast.unparse(t.handlers[0].type).split(".")[-1] == cls
                        and len(t.handlers[0].body) == 1 and isinstance(t.handlers[0].body[0], kind)
                        and (kind is not ast.Return or t.handlers[0].body[0].value is None) and not t.orelse and not t.finalbody)

            def alin(stmts: List[ast.stmt], acc: List[str], conditional: bool) -> bool:
                good = True
                for st in stmts:
                    u = ast.unparse(st)
                    if isinstance(st, ast.Expr) and isinstance(st.value, ast.Constant):
                        continue
                    if isinstance(st, ast.Expr) and isinstance(st.value, ast.Await):
                        aw = ast.unparse(st.value.value)
                        if aw == "self._flush()" and not conditional:
                            acc.append(".flush")
                        elif aw == "buffer.close()" and not conditional:
                            acc.append(".closeBuffer")
                        elif isinstance(st.value.value, ast.Call) and isinstance(st.value.value.func, ast.Attribute) and st.value.value.func.attr == "drain":
                            acc.append(".drain")          # conditional or not: it may wait
                        else:
                            acc.append(".awaitOther")
                            fail(what, f"await not recognised: `{u[:80]}`")
                            good = False
                    elif isinstance(st, ast.If) and not st.orelse and "await" not in ast.unparse(st.test):
                        # a condition may only guard statements that wait (they are listed: each may run)
                        if not alin(st.body, acc, True):
                            good = False
                    elif conditional:
                        acc.append(".unrecognised")
                        fail(what, f"conditional statement not recognised: `{u[:80]}`")
                        good = False
                    elif isinstance(st, ast.Try) and only(st.body, "self.connection.reset_stream(stream_id") and handler_is(st, "ProtocolError", ast.Return):
                        acc.append(".resetStream")
                    elif isinstance(st, ast.Try) and only(st.body, "self.priority.remove_stream(stream_id)") and handler_is(st, "MissingStreamError", ast.Pass):
                        acc.append(".forgetTree")
                    elif u == "self.stream_buffers.pop(stream_id, None)":
                        acc.append(".forgetBuffer")
                    else:
                        acc.append(".unrecognised")
                        fail(what, f"statement not recognised: `{u.splitlines()[0][:80]}`")
                        good = False
                return good

            acc3: List[str] = []
            alin(stmts, acc3, False)
            s_out = "[" + ", ".join(acc3) + "]"
    except Exception as e:
        fail(what, f"{type(e).__name__}: {e}")
    out.append("/-- `H2Protocol._reset_abandoned_response`: the conjuncts of its guard, and the statements under it in source order -/")
    out.append(f"def h2AbandonGuard : List AAtom := {g_out}")
    out.append(f"def h2AbandonSteps : List AStep := {s_out}")
    out += ["end HC.Extracted.AppExit", ""]
    return "\n".join(out)


def extract_h2_init(src: Path) -> str:
    """C13: `H2Protocol.initiate` - for which `settings` argument the upgrade entry point of h2
    (`initiate_upgrade_connection`, which reserves stream 1 half-closed) is used rather than `initiate_connection`."""
    out = ["/- GENERATED by tools/extract.py — H2Protocol.initiate: choice of the h2 entry point — do not edit -/",
           "import HC.Prelude", "namespace HC.Extracted.H2Init"]

    def tr(n: ast.AST) -> Optional[str]:
        """a Python test over `settings: Optional[str]` as a Lean Bool over `settings : Option HC.Bytes`"""
        if isinstance(n, ast.Name) and n.id == "settings":
            return "(match settings with | some b => !b.isEmpty | none => false)"          # truthiness of an Optional[str]
        if isinstance(n, ast.UnaryOp) and isinstance(n.op, ast.Not):
            x = tr(n.operand)
            return None if x is None else f"(!{x})"
        if isinstance(n, ast.BoolOp):
            xs = [tr(v) for v in n.values]
            if None in xs:
                return None
            return "(" + (" && " if isinstance(n.op, ast.And) else " || ").join(xs) + ")"  # type: ignore
        if isinstance(n, ast.Compare) and len(n.ops) == 1 and isinstance(n.left, ast.Name) and n.left.id == "settings":
            op, rhs = n.ops[0], n.comparators[0]
            if isinstance(rhs, ast.Constant) and rhs.value is None and isinstance(op, (ast.IsNot, ast.NotEq)):
                return "settings.isSome"
            if isinstance(rhs, ast.Constant) and rhs.value is None and isinstance(op, (ast.Is, ast.Eq)):
                return "settings.isNone"
            if isinstance(rhs, ast.Constant) and rhs.value == "" and isinstance(op, ast.NotEq):
                return "(settings != some [])"
            if isinstance(rhs, ast.Constant) and rhs.value == "" and isinstance(op, ast.Eq):
                return "(settings == some [])"
        return None

    try:
        fn = find_def(parse(src / "protocol/h2.py"), "H2Protocol", "initiate")
        argn = [a.arg for a in fn.args.args]  # type: ignore
        site = None
        for n in ast.walk(fn):  # type: ignore
            if isinstance(n, ast.If):
                b, o = _calls_in_order(n.body), _calls_in_order(n.orelse)
                up, pl = "self.connection.initiate_upgrade_connection", "self.connection.initiate_connection"
                if up in b and pl in o and up not in o and pl not in b:
                    site = (n.test, False)
                elif up in o and pl in b and up not in b and pl not in o:
                    site = (n.test, True)
        if argn != ["self", "headers", "settings"] or site is None:
            fail("h2 initiate", f"shape not recognised (arguments {argn}; if/else between the two h2 entry points {'found' if site else 'not found'})")
        else:
            x = tr(site[0])
            if x is None:
                fail("h2 initiate", f"test `{ast.unparse(site[0])}` not translatable")
            else:
                out.append(f"def upgradePath (settings : Option HC.Bytes) : Bool :=\n  {'!' if site[1] else ''}{x}   -- `{ast.unparse(site[0])}`")
        # the wrapper hands `error.settings` (a str, never None) to initiate only for the h2c switch
        w = parse(src / "protocol/__init__.py")
        hfn = find_def(w, "ProtocolWrapper", "handle")
        calls = {}
        for h in [n for n in ast.walk(hfn) if isinstance(n, ast.ExceptHandler)]:  # type: ignore
            for c in ast.walk(h):
                if isinstance(c, ast.Call) and ast.unparse(c.func) == "self.protocol.initiate":
                    # the arguments are attributes of the caught exception, whatever the handler calls it (`as error`, `as exc`)
                    var = h.name or ""
                    calls[ast.unparse(h.type)] = [("error." + a.attr) if isinstance(a, ast.Attribute) and isinstance(a.value, ast.Name) and a.value.id == var
                                                  else ast.unparse(a) for a in c.args]
        if calls != {"H2ProtocolAssumedError": [], "H2CProtocolRequiredError": ["error.headers", "error.settings"]}:
            fail("wrapper initiate", f"initiate calls per switch are {calls}")
        efn = find_def(parse(src / "protocol/h11.py"), "H2CProtocolRequiredError", "__init__")
        first = ast.unparse(efn.body[0]) if efn is not None and efn.body else ""  # type: ignore
        if first not in ("settings = ''", 'settings = ""'):
            fail("h2c settings default", f"H2CProtocolRequiredError.__init__ starts with `{first}`")
        else:
            out.append("def h2cSettingsDefaultEmpty : Bool := true   -- `settings = \"\"` unless an HTTP2-Settings header is present")
    except Exception as e:
        fail("h2 initiate", f"{type(e).__name__}: {e}")
    out += ["end HC.Extracted.H2Init", ""]
    return "\n".join(out)


def extract_ws_guards(src: Path) -> str:
    """C11: the test `Handshake.is_valid` applies to `Sec-WebSocket-Version` (the operator and the constant), as a Lean
    function over the last version header value."""
    out = ["/- GENERATED by tools/extract.py — Handshake.is_valid: the Sec-WebSocket-Version test — do not edit -/",
           "import HC.Prelude", "namespace HC.Extracted.WsGuards",
           "/-- Python `k in v` on bytes: `k` occurs as a contiguous substring -/",
           "def containsSub (k : HC.Bytes) : HC.Bytes → Bool\n  | [] => k.isEmpty\n  | c :: t => k.isPrefixOf (c :: t) || containsSub k t"]
    try:
        tree = parse(src / "protocol/ws_stream.py")
        consts: Dict[str, Any] = {}
        for st in tree.body:
            if isinstance(st, ast.ImportFrom) and st.module == "wsproto.handshake" and any(a.name == "WEBSOCKET_VERSION" for a in st.names):
                wtree = parse(_site_packages_file("wsproto", "handshake.py"))
                for w in wtree.body:
                    if isinstance(w, ast.Assign) and len(w.targets) == 1 and ast.unparse(w.targets[0]) == "WEBSOCKET_VERSION" \
                            and isinstance(w.value, ast.Constant) and isinstance(w.value.value, bytes):
                        consts["WEBSOCKET_VERSION"] = w.value.value
            if isinstance(st, ast.Assign) and len(st.targets) == 1 and ast.unparse(st.targets[0]) == "WEBSOCKET_VERSION" \
                    and isinstance(st.value, ast.Constant) and isinstance(st.value.value, bytes):
                consts["WEBSOCKET_VERSION"] = st.value.value

        def const(n: ast.AST) -> Optional[str]:
            v = None
            if isinstance(n, ast.Name) and n.id in consts:
                v = consts[n.id]
            elif isinstance(n, ast.Constant) and isinstance(n.value, bytes):
                v = n.value
            if v is None:
                return None
            return "[" + ", ".join(str(b) for b in v) + "]"

        def is_ver(n: ast.AST) -> bool:
            return ast.unparse(n) == "self.version"

        def tr(n: ast.AST) -> Optional[str]:
            if isinstance(n, ast.UnaryOp) and isinstance(n.op, ast.Not):
                x = tr(n.operand)
                return None if x is None else f"(!{x})"
            if isinstance(n, ast.BoolOp):
                xs = [tr(v) for v in n.values]
                if None in xs:
                    return None
                return "(" + (" && " if isinstance(n.op, ast.And) else " || ").join(xs) + ")"  # type: ignore
            if isinstance(n, ast.Compare) and len(n.ops) == 1:
                l, op, r = n.left, n.ops[0], n.comparators[0]
                if is_ver(l) and isinstance(r, ast.Constant) and r.value is None:
                    if isinstance(op, (ast.Is, ast.Eq)):
                        return "v.isNone"
                    if isinstance(op, (ast.IsNot, ast.NotEq)):
                        return "v.isSome"
                k = const(r) if is_ver(l) else (const(l) if is_ver(r) else None)
                if k is not None and isinstance(op, ast.Eq):
                    return f"(v == some {k})"
                if k is not None and isinstance(op, ast.NotEq):
                    return f"(v != some {k})"
                if is_ver(r) and const(l) is not None and isinstance(op, (ast.In, ast.NotIn)):
                    c = f"(match v with | some b => containsSub {const(l)} b | none => false)"
                    return c if isinstance(op, ast.In) else f"(!{c})"
            return None

        fn = find_def(tree, "Handshake", "is_valid")
        sites = [n for n in ast.walk(fn) if isinstance(n, ast.If) and "self.version" in ast.unparse(n.test)]  # type: ignore
        other = [n for n in ast.walk(fn) if isinstance(n, ast.Attribute) and ast.unparse(n) == "self.version"]  # type: ignore
        if "WEBSOCKET_VERSION" not in consts:
            fail("ws version", "WEBSOCKET_VERSION is not a bytes constant imported from wsproto.handshake / defined in ws_stream.py")
        elif len(sites) != 1 or len(other) != sum(1 for n in ast.walk(sites[0].test) if isinstance(n, ast.Attribute) and ast.unparse(n) == "self.version"):
            fail("ws version", f"expected exactly one `if` over self.version in Handshake.is_valid (found {len(sites)}; self.version is used {len(other)} times)")
        else:
            site = sites[0]
            body = [ast.unparse(x) for x in site.body]
            x = tr(site.test)
            if x is None or site.orelse or body not in (["return False"], ["return True"]):
                fail("ws version", f"`if {ast.unparse(site.test)}: {'; '.join(body)}` not translatable")
            elif fn.body[-1] is not site and ast.unparse(fn.body[-1]) != "return True":  # type: ignore
                fail("ws version", "is_valid does not end with `return True`")
            else:
                out.append(f"def websocketVersion : HC.Bytes := {const(ast.Name(id='WEBSOCKET_VERSION'))}   -- WEBSOCKET_VERSION = {consts['WEBSOCKET_VERSION']!r}")
                neg = "!" if body == ["return False"] else ""
                out.append(f"/-- the version header passes `is_valid`'s test: `if {ast.unparse(site.test)}: {body[0]}` -/")
                out.append(f"def versionAccepted (v : Option HC.Bytes) : Bool :=\n  {neg}{x}")
    except Exception as e:
        fail("ws version", f"{type(e).__name__}: {e}")
    # ---- Handshake.accept: which subprotocol named by the application is refused (C12 / C11).  The test of
    #      `if subprotocol is not None: if <test>: raise … else: headers.append((b"sec-websocket-protocol", subprotocol.encode()))`
    #      as a Lean function of what the client offered (`self.subprotocols`: None = no header) and the application's choice.
    try:
        fn = find_def(parse(src / "protocol/ws_stream.py"), "Handshake", "accept")
        outer = [n for n in (fn.body if fn is not None else []) if isinstance(n, ast.If) and ast.unparse(n.test) == "subprotocol is not None"]  # type: ignore
        uses = [n for n in ast.walk(fn) if isinstance(n, ast.Name) and n.id == "subprotocol"] if fn is not None else []

        def trs(n: ast.AST) -> Optional[str]:
            u = ast.unparse(n)
            if u == "self.subprotocols":                      # truth value of Optional[List[str]]
                return "(match offered with | some l => !l.isEmpty | none => false)"
            if isinstance(n, ast.UnaryOp) and isinstance(n.op, ast.Not):
                x = trs(n.operand)
                return None if x is None else f"(!{x})"
            if isinstance(n, ast.BoolOp):
                xs = [trs(v) for v in n.values]
                if None in xs:
                    return None
                return "(" + (" && " if isinstance(n.op, ast.And) else " || ").join(xs) + ")"  # type: ignore
            if isinstance(n, ast.Compare) and len(n.ops) == 1:
                l, op, r = ast.unparse(n.left), n.ops[0], ast.unparse(n.comparators[0])
                if l == "self.subprotocols" and r == "None":
                    if isinstance(op, (ast.Is, ast.Eq)):
                        return "offered.isNone"
                    if isinstance(op, (ast.IsNot, ast.NotEq)):
                        return "offered.isSome"
                if l == "subprotocol" and r == "self.subprotocols":
                    # (`in` / `not in` on None raise TypeError out of accept: counted as refused / not found)
                    if isinstance(op, ast.NotIn):
                        return "(match offered with | some l => !l.contains p | none => true)"
                    if isinstance(op, ast.In):
                        return "(match offered with | some l => l.contains p | none => false)"
            return None

        if fn is None or len(outer) != 1 or outer[0].orelse or len(outer[0].body) != 1 or not isinstance(outer[0].body[0], ast.If):
            fail("subprotocolRefused", "Handshake.accept: expected one `if subprotocol is not None:` holding one `if`")
        else:
            inner = outer[0].body[0]
            inside = sum(1 for n in ast.walk(outer[0]) if isinstance(n, ast.Name) and n.id == "subprotocol")
            then_, else_ = [ast.unparse(x) for x in inner.body], [ast.unparse(x) for x in inner.orelse]
            add = "headers.append((b'sec-websocket-protocol', subprotocol.encode()))"
            x = trs(inner.test)
            if len(uses) != inside:
                fail("subprotocolRefused", "Handshake.accept uses `subprotocol` outside `if subprotocol is not None:`")
            elif x is None:
                fail("subprotocolRefused", f"test `{ast.unparse(inner.test)}` not translatable")
            elif len(then_) == 1 and then_[0].startswith("raise ") and else_ == [add]:
                out.append(f"/-- `Handshake.accept` refuses the application's subprotocol `p`: `if {ast.unparse(inner.test)}: {then_[0][:40]}` -/")
                out.append(f"def subprotocolRefused (offered : Option (List HC.Bytes)) (p : HC.Bytes) : Bool :=\n  {x}")
            elif then_ == [add] and len(else_) == 1 and else_[0].startswith("raise "):
                out.append(f"/-- `Handshake.accept` refuses the application's subprotocol `p`: `if {ast.unparse(inner.test)}: <append> else: raise` -/")
                out.append(f"def subprotocolRefused (offered : Option (List HC.Bytes)) (p : HC.Bytes) : Bool :=\n  !{x}")
            else:
                fail("subprotocolRefused", f"branches are {then_} / {else_}: expected a raise and the append of (b'sec-websocket-protocol', subprotocol.encode())")
    except Exception as e:
        fail("subprotocolRefused", f"{type(e).__name__}: {e}")
    # ---- WSStream._handle_events, CloseConnection while REMOTE_CLOSING: is the client's code recorded before the echo is awaited?
    try:
        fn = find_def(parse(src / "protocol/ws_stream.py"), "WSStream", "_handle_events")
        sites = [n for n in ast.walk(fn) if isinstance(n, ast.If) and "ConnectionState.REMOTE_CLOSING" in ast.unparse(n.test)]  # type: ignore
        if len(sites) != 1 or sites[0].orelse:
            fail("ws close branch", f"expected one `if self.connection.state == ConnectionState.REMOTE_CLOSING:` without else (found {len(sites)})")
        else:
            tags: List[str] = []
            for st in sites[0].body:
                u = ast.unparse(st)
                if isinstance(st, ast.Assign) and ast.unparse(st.targets[0]) == "self.client_close_code" and u.endswith("int(event.code)"):
                    tags.append("recordCode")
                elif u == "await self._send_wsproto_event(event.response())":
                    tags.append("echo")
                else:
                    fail("ws close branch", f"statement not recognised: `{u[:80]}`")
                    tags = []
                    break
            if tags and sorted(tags) != ["echo", "recordCode"]:
                fail("ws close branch", f"expected one recording of the code and one echo, found {tags}")
            elif tags:
                out.append("def closeBranch : List String := [" + ", ".join(q(t) for t in tags) + "]   -- statements under `if … REMOTE_CLOSING:` in order")
                out.append(f"def closeCodeBeforeEcho : Bool := {'true' if tags.index('recordCode') < tags.index('echo') else 'false'}")
    except Exception as e:
        fail("ws close branch", f"{type(e).__name__}: {e}")
    # ---- Handshake.is_valid / Handshake.accept: the tests over `self.http_version` (C11, F102).  `is_valid`:
    #      `if <refused>: return False  elif <http1>: <key / Connection / Upgrade tests>`;  `accept`: `status_code = 200;
    #      if <http1>: headers.extend([upgrade, connection]); status_code = 101`.  Each test becomes a Lean function of the
    #      version string (`==`, `!=`, `in` / `not in` a set / tuple / list of string constants, `<` `<=` `>` `>=` against a
    #      string constant - Python and Lean both compare strings by code points -, and / or / not).
    try:
        cls = find_def(parse(src / "protocol/ws_stream.py"), "Handshake")

        def is_hv(n: ast.AST) -> bool:
            return ast.unparse(n) == "self.http_version"

        def n_hv(n: Optional[ast.AST]) -> int:
            return 0 if n is None else sum(1 for x in ast.walk(n) if isinstance(x, ast.Attribute) and is_hv(x))

        def sconst(n: ast.AST) -> Optional[str]:
            return q(n.value) if isinstance(n, ast.Constant) and isinstance(n.value, str) else None

        def trv(n: ast.AST) -> Optional[str]:
            if isinstance(n, ast.UnaryOp) and isinstance(n.op, ast.Not):
                x = trv(n.operand)
                return None if x is None else f"(!{x})"
            if isinstance(n, ast.BoolOp):
                xs = [trv(v) for v in n.values]
                if None in xs:
                    return None
                return "(" + (" && " if isinstance(n.op, ast.And) else " || ").join(xs) + ")"  # type: ignore
            if isinstance(n, ast.Compare) and len(n.ops) == 1:
                l, op, r = n.left, n.ops[0], n.comparators[0]
                if is_hv(l) and isinstance(op, (ast.In, ast.NotIn)) and isinstance(r, (ast.Set, ast.Tuple, ast.List)):
                    ks = [sconst(e) for e in r.elts]
                    if None in ks:
                        return None
                    c = "([" + ", ".join(ks) + "].contains version)"  # type: ignore
                    return c if isinstance(op, ast.In) else f"(!{c})"
                flip = {ast.Lt: ast.Gt, ast.Gt: ast.Lt, ast.LtE: ast.GtE, ast.GtE: ast.LtE}
                if is_hv(r) and sconst(l) is not None:
                    l, r = r, l
                    op = flip.get(type(op), type(op))()
                k = sconst(r) if is_hv(l) else None
                if k is None:
                    return None
                if isinstance(op, ast.Eq):
                    return f"(version == {k})"
                if isinstance(op, ast.NotEq):
                    return f"(version != {k})"
                if isinstance(op, ast.Lt):
                    return f"(decide (version < {k}))"
                if isinstance(op, ast.GtE):
                    return f"(!(decide (version < {k})))"
                if isinstance(op, ast.Gt):
                    return f"(decide (({k} : String) < version))"
                if isinstance(op, ast.LtE):
                    return f"(!(decide (({k} : String) < version)))"
            return None

        isv = find_def(cls, "is_valid") if cls is not None else None
        acc = find_def(cls, "accept") if cls is not None else None
        vsite = [n for n in (isv.body if isv is not None else []) if isinstance(n, ast.If) and n_hv(n.test)]  # type: ignore
        t_valid: Optional[str] = None
        src_valid = ""
        if isv is None or len(vsite) != 1:
            fail("http1Handshake", f"Handshake.is_valid: expected one top-level `if` over self.http_version (found {len(vsite)})")
        else:
            s0 = vsite[0]
            el = s0.orelse[0] if len(s0.orelse) == 1 and isinstance(s0.orelse[0], ast.If) else None
            if [ast.unparse(x) for x in s0.body] != ["return False"] or el is None or el.orelse:
                fail("http1Handshake", "Handshake.is_valid: expected `if <test over self.http_version>: return False` followed by one `elif <test>:` without else")
            elif n_hv(isv) != n_hv(s0.test) + n_hv(el.test) or not n_hv(el.test):
                fail("http1Handshake", "Handshake.is_valid reads self.http_version outside the two tests")
            elif not any("self.key" in ast.unparse(x) for x in el.body) or not any("self.upgrade" in ast.unparse(x) for x in el.body) \
                    or not any("self.connection_tokens" in ast.unparse(x) for x in el.body):
                fail("http1Handshake", "Handshake.is_valid: the branch guarded by the version test does not hold the key / Connection / Upgrade tests")
            else:
                r0, t_valid = trv(s0.test), trv(el.test)
                src_valid = ast.unparse(el.test)
                if r0 is None:
                    fail("versionRefused", f"test `{ast.unparse(s0.test)}` not translatable")
                else:
                    out.append(f"/-- `Handshake.is_valid`: `if {ast.unparse(s0.test)}: return False` -/")
                    out.append(f"def versionRefused (version : String) : Bool :=\n  {r0}")
                if t_valid is None:
                    fail("http1Handshake", f"test `{src_valid}` not translatable")
                else:
                    out.append(f"/-- `Handshake.is_valid`: `elif {src_valid}:` guards the Sec-WebSocket-Key / Connection / Upgrade tests -/")
                    out.append(f"def http1Handshake (version : String) : Bool :=\n  {t_valid}")
        asite = [n for n in (acc.body if acc is not None else []) if isinstance(n, ast.If) and n_hv(n.test)]  # type: ignore
        if acc is None or len(asite) != 1 or n_hv(acc) != n_hv(asite[0].test):
            fail("http1Accept", f"Handshake.accept: expected one top-level `if` over self.http_version holding every use of it (found {len(asite)})")
        else:
            a0 = asite[0]
            body = [ast.unparse(x) for x in a0.body]
            before = [ast.unparse(x) for x in acc.body[:acc.body.index(a0)] if "status_code" in ast.unparse(x)]  # type: ignore
            later = [ast.unparse(x) for x in acc.body[acc.body.index(a0) + 1:] if isinstance(x, (ast.Assign, ast.AugAssign)) and "status_code" in ast.unparse(x)]  # type: ignore
            want = ["headers.extend([(b'upgrade', b'WebSocket'), (b'connection', b'Upgrade')])", "status_code = 101"]
            if sorted(body) != sorted(want) or a0.orelse or before != ["status_code = 200"] or later:
                fail("http1Accept", f"Handshake.accept: expected `status_code = 200` then `if <test>: headers.extend([upgrade, connection]); status_code = 101` (found {before} / {body})")
            else:
                t_acc = trv(a0.test)
                if t_acc is None:
                    fail("http1Accept", f"test `{ast.unparse(a0.test)}` not translatable")
                else:
                    same = t_valid is not None and ast.unparse(a0.test) == src_valid
                    out.append(f"/-- `Handshake.accept`: `if {ast.unparse(a0.test)}:` chooses 101 with `upgrade` / `connection` over 200"
                               + (" — the same test as in `is_valid`" if same else " — NOT the text of the test in `is_valid`") + " -/")
                    out.append("def http1Accept (version : String) : Bool :=\n  " + ("http1Handshake version" if same else t_acc))
    except Exception as e:
        fail("http1Handshake", f"{type(e).__name__}: {e}")
    # ---- Handshake.__init__: how the name of a header is normalised before it is matched (C04-10: with h11_pass_raw_headers the
    #      names reach the stream as the client wrote them)
    try:
        init = find_def(parse(src / "protocol/ws_stream.py"), "Handshake", "__init__")
        loops = [n for n in (init.body if init is not None else []) if isinstance(n, ast.For) and ast.unparse(n.iter) == "headers"]  # type: ignore
        if len(loops) != 1 or ast.unparse(loops[0].target) != "(name, value)":
            fail("handshakeName", f"Handshake.__init__: expected one `for name, value in headers:` (found {len(loops)})")
        else:
            assigns = [n for n in ast.walk(loops[0]) if isinstance(n, (ast.Assign, ast.AugAssign, ast.AnnAssign, ast.NamedExpr))
                       and any(isinstance(t, ast.Name) and t.id == "name" for t in ast.walk(n.targets[0] if isinstance(n, ast.Assign) else n.target))]
            tests = [n for n in ast.walk(loops[0]) if isinstance(n, ast.Compare) and "name" in [x.id for x in ast.walk(n) if isinstance(x, ast.Name)]]
            plain = all(len(t.ops) == 1 and isinstance(t.ops[0], ast.Eq) and ast.unparse(t.left) == "name" and isinstance(t.comparators[0], ast.Constant)
                        and isinstance(t.comparators[0].value, bytes) and t.comparators[0].value == t.comparators[0].value.lower() for t in tests)
            if not tests or not plain:
                fail("handshakeName", "Handshake.__init__: the header names are not matched by `name == b\"<lower-case constant>\"` tests")
            elif not assigns:
                out.append("/-- `Handshake.__init__` matches the header names as they are given (no normalisation in the loop) -/")
                out.append("def handshakeName (n : HC.Bytes) : HC.Bytes :=\n  n")
            elif len(assigns) == 1 and assigns[0] is loops[0].body[0] and ast.unparse(assigns[0]) == "name = name.lower()":
                out.append("/-- `Handshake.__init__`: `name = name.lower()` before the name is matched -/")
                out.append("def handshakeName (n : HC.Bytes) : HC.Bytes :=\n  HC.Bytes.lower n")
            else:
                fail("handshakeName", f"Handshake.__init__: normalisation of the header name not recognised: {[ast.unparse(a) for a in assigns]}")
    except Exception as e:
        fail("handshakeName", f"{type(e).__name__}: {e}")
    # ---- Handshake.accept: the traversals of `additional_headers`, in order (C11-12).  ASGI types the `headers` of
    #      websocket.accept as an Iterable: a generator / iterator / map object yields its pairs ONCE, so what a second
    #      traversal sees depends on the container the application chose.  Each use of the parameter becomes one pass:
    #      `materialise` (`x = list(x)` / `tuple(x)`), `check` (a loop that validates the names and refuses
    #      sec-websocket-protocol), `emit` (`headers.extend(build_and_validate_headers(x))`), `checkEmit` (the loop that does both).
    out.append("/-- one traversal of the application's `headers` iterable in `Handshake.accept` -/\n"
               "inductive ExtraPass | materialise | check | emit | checkEmit\nderiving Repr, DecidableEq")
    try:
        acc = find_def(parse(src / "protocol/ws_stream.py"), "Handshake", "accept")
        pname = "additional_headers"
        if acc is None or pname not in [a.arg for a in acc.args.args]:  # type: ignore
            fail("acceptExtraPasses", "Handshake.accept(subprotocol, additional_headers) not found")
        else:
            aliases = {pname}
            passes: List[str] = []
            why = ""

            def n_uses(n: ast.AST) -> int:
                return sum(1 for x in ast.walk(n) if isinstance(x, ast.Name) and x.id in aliases)

            def is_call(n: ast.AST, fname: str, arg: Optional[str] = None) -> bool:
                return isinstance(n, ast.Call) and ast.unparse(n.func) == fname and len(n.args) == 1 and not n.keywords \
                    and (arg is None or ast.unparse(n.args[0]) == arg)

            def loop_kind(loop: ast.For) -> Optional[str]:
                tgt = loop.target
                if not (isinstance(tgt, ast.Tuple) and len(tgt.elts) == 2 and all(isinstance(e, ast.Name) for e in tgt.elts)) or loop.orelse:
                    return None
                nm, val = tgt.elts[0].id, tgt.elts[1].id  # type: ignore
                body = list(loop.body)
                if len(body) not in (2, 3) or not isinstance(body[0], ast.Assign) or len(body[0].targets) != 1 \
                        or not isinstance(body[0].targets[0], ast.Name) or not is_call(body[0].value, "validate_header_name", nm):
                    return None
                vn = body[0].targets[0].id
                t = body[1]
                if not (isinstance(t, ast.If) and not t.orelse and len(t.body) == 1 and isinstance(t.body[0], ast.Raise)
                        and isinstance(t.test, ast.Compare) and len(t.test.ops) == 1 and isinstance(t.test.ops[0], ast.Eq)
                        and sorted([ast.unparse(t.test.left), ast.unparse(t.test.comparators[0])]) == sorted(["b'sec-websocket-protocol'", vn])):
                    return None
                if len(body) == 2:
                    return "check"
                return "checkEmit" if ast.unparse(body[2]) == f"headers.append(({vn}, validate_header_part({val})))" else None

            stale: set = set()      # names of the iterable before it was copied: a later traversal of them sees what is left
            for st in acc.body:  # type: ignore
                if any(isinstance(x, ast.Name) and x.id in stale for x in ast.walk(st)):
                    why = f"`{ast.unparse(st)[:100]}` uses the iterable after it has been copied"
                    break
                if not n_uses(st):
                    continue
                if isinstance(st, ast.Assign) and len(st.targets) == 1 and isinstance(st.targets[0], ast.Name) and n_uses(st.value) == 1 \
                        and (is_call(st.value, "list") or is_call(st.value, "tuple")) and isinstance(st.value.args[0], ast.Name):  # type: ignore
                    passes.append("materialise")
                    stale |= aliases - {st.targets[0].id}
                    aliases = {st.targets[0].id}      # from here on the (re-iterable) copy is what may be traversed
                elif isinstance(st, ast.For) and isinstance(st.iter, ast.Name) and st.iter.id in aliases and n_uses(st) == 1 and loop_kind(st):
                    passes.append(loop_kind(st))  # type: ignore
                elif isinstance(st, ast.Expr) and n_uses(st) == 1 and any(ast.unparse(st.value) == f"headers.extend(build_and_validate_headers({a}))" for a in aliases):
                    passes.append("emit")
                elif isinstance(st, ast.AugAssign) and n_uses(st) == 1 and any(ast.unparse(st) == f"headers += build_and_validate_headers({a})" for a in aliases):
                    passes.append("emit")
                else:
                    why = f"use of `{pname}` not recognised: `{ast.unparse(st)[:100]}`"
                    break
            if why:
                fail("acceptExtraPasses", "Handshake.accept: " + why)
            elif not passes:
                fail("acceptExtraPasses", f"Handshake.accept never traverses `{pname}`")
            else:
                out.append(f"/-- `Handshake.accept`: the traversals of `{pname}` (an Iterable: possibly one-shot), in order -/")
                out.append("def acceptExtraPasses : List ExtraPass := [" + ", ".join("." + p for p in passes) + "]")
    except Exception as e:
        fail("acceptExtraPasses", f"{type(e).__name__}: {e}")
    out += ["end HC.Extracted.WsGuards", ""]
    return "\n".join(out)


def extract_lifespan_send(src: Path) -> str:
    """C14: the dispatch of `Lifespan.asgi_send` of both workers - message type -> what is done with it - and, for the two
    `lifespan.*.failed` branches, whether the arguments of the raised LifespanFailureError can be evaluated for EVERY dict
    message of that type (constants and `message.get(<const>, <const>)` only: the ASGI specification makes `message` optional)."""
    out = ["/- GENERATED by tools/extract.py — Lifespan.asgi_send (asyncio/lifespan.py, trio/lifespan.py): message type -> effect — do not edit -/",
           "namespace HC.Extracted.LifespanSend",
           "/-- `raiseFailure stage setsEventFirst argsTotal`: `raise LifespanFailureError(stage, …)`, after `self.<stage>.set()` when\n"
           "    `setsEventFirst`; `argsTotal` = the arguments read the message only through `message.get(key, default)` (no key of the\n"
           "    message other than `type` is required) -/",
           "inductive Effect | setStartup | setShutdown | raiseFailure (stage : String) (setsEventFirst argsTotal : Bool) | raiseUnexpected",
           "deriving Repr, DecidableEq"]

    def total(n: ast.AST) -> bool:
        if isinstance(n, ast.Constant):
            return True
        return (isinstance(n, ast.Call) and ast.unparse(n.func) == "message.get" and len(n.args) == 2 and not n.keywords
                and all(isinstance(a, ast.Constant) for a in n.args))

    def effect(body: List[ast.stmt]) -> Optional[str]:
        sets_first = False
        if len(body) == 2 and isinstance(body[1], ast.Raise) and ast.unparse(body[0]) in ("self.startup.set()", "self.shutdown.set()"):
            # `self.<stage>.set()` before the raise (the shape of the asyncio worker before b14e22f, Runtime.failedSetsEvent)
            e = effect(body[1:])
            stage = ast.unparse(body[0]).split(".")[1]
            if e is not None and e.startswith(f".raiseFailure {q(stage)} false "):
                return e.replace(" false ", " true ", 1)
            return None
        if len(body) != 1:
            return None
        st = body[0]
        u = ast.unparse(st)
        if u == "self.startup.set()":
            return ".setStartup"
        if u == "self.shutdown.set()":
            return ".setShutdown"
        if isinstance(st, ast.Raise) and st.cause is None and isinstance(st.exc, ast.Call) and not st.exc.keywords:
            cls = ast.unparse(st.exc.func)
            args = st.exc.args
            if cls == "LifespanFailureError" and len(args) >= 1 and isinstance(args[0], ast.Constant) and isinstance(args[0].value, str):
                return f".raiseFailure {q(args[0].value)} false {'true' if all(total(a) for a in args) else 'false'}"
            if cls == "UnexpectedMessageError":
                return ".raiseUnexpected"
        return None

    for worker in ("asyncio", "trio"):
        item = f"{worker}SendTable"
        try:
            fn = find_def(parse(src / worker / "lifespan.py"), "Lifespan", "asgi_send")
            if fn is None or len([s for s in fn.body if not (isinstance(s, ast.Expr) and isinstance(s.value, ast.Constant))]) != 1 \
                    or not isinstance(fn.body[-1], ast.If):
                fail(item, "Lifespan.asgi_send is not one if/elif chain")
                continue
            node: Any = fn.body[-1]
            rows: List[Tuple[str, str]] = []
            els: Optional[str] = None
            ok = True
            while True:
                t = node.test
                if not (isinstance(t, ast.Compare) and len(t.ops) == 1 and isinstance(t.ops[0], ast.Eq) and ast.unparse(t.left) == "message['type']"
                        and isinstance(t.comparators[0], ast.Constant) and isinstance(t.comparators[0].value, str)):
                    fail(item, f"test `{ast.unparse(t)}` is not `message['type'] == <str>`")
                    ok = False
                    break
                e = effect(node.body)
                if e is None:
                    fail(item, f"branch {t.comparators[0].value!r} does `{'; '.join(ast.unparse(x) for x in node.body)[:100]}`")
                    ok = False
                    break
                rows.append((t.comparators[0].value, e))
                if len(node.orelse) == 1 and isinstance(node.orelse[0], ast.If):
                    node = node.orelse[0]
                    continue
                els = effect(node.orelse)
                if els is None:
                    fail(item, f"the final else does `{'; '.join(ast.unparse(x) for x in node.orelse)[:100]}`")
                    ok = False
                break
            if ok:
                out.append(f"def {worker}SendTable : List (String × Effect) :=\n  [" + ",\n   ".join(f"({q(k)}, {e})" for k, e in rows) + "]")
                out.append(f"def {worker}SendElse : Effect := {els}")
        except Exception as e:
            fail(item, f"{type(e).__name__}: {e}")
    out += ["end HC.Extracted.LifespanSend", ""]
    return "\n".join(out)


def extract_lifespan_sites(src: Path) -> str:
    """C14: (a) the `except` chain around `await self.app(...)` in `Lifespan.handle_lifespan` of both workers - which classes are
    re-raised as they are, which are caught, and how a caught exception GROUP is searched for a lifespan failure / cancellation
    before the application is declared unsupported (`error.subgroup(classes)` searches every level of the group; a scan of
    `error.exceptions` only the direct members); (b) the `state` handed to every connection's ProtocolWrapper in
    `TCPServer.run` and to TCPServer by `worker_serve` (a copy made there unconditionally, or the dict itself).
    The definitions are always written (an unrecognised shape as `.unrecognised` + an EXTRACT-FAIL line), so that only the
    theorems that are about them stop building."""
    out = ["/- GENERATED by tools/extract.py — Lifespan.handle_lifespan (except chain) and the per-connection state argument of TCPServer.run, both workers — do not edit -/",
           "namespace HC.Extracted.LifespanSites",
           "/-- the exception classes the `except` clauses of `handle_lifespan` name -/",
           "inductive Cls | lifespanFailure | cancelled | group | exception | other (name : String)",
           "deriving Repr, DecidableEq",
           "/-- what the clause that catches exception groups does with one before it declares the application unsupported:\n"
           "    `sub = error.subgroup(classes); if sub is not None: raise sub` (a search through every level of the group),\n"
           "    a scan of `error.exceptions` (the direct members only) followed by a bare `raise`, or nothing -/",
           "inductive GroupSearch | subgroup (classes : List Cls) | directMembers (classes : List Cls) | notSearched | unrecognised",
           "deriving Repr, DecidableEq",
           "/-- `try: await self.app(…) except <reraise>: raise except <caught> as error: <search>; self.supported = False …` -/",
           "structure EscapeHandler where\n  reraise : List Cls\n  caught : List Cls\n  search : GroupSearch\n  marksUnsupported : Bool",
           "deriving Repr, DecidableEq"]

    def classes(node: Optional[ast.AST], cancelled: str) -> Optional[List[str]]:
        if node is None:
            return None
        elts = node.elts if isinstance(node, ast.Tuple) else [node]
        names = {"LifespanFailureError": ".lifespanFailure", cancelled: ".cancelled", "BaseExceptionGroup": ".group", "Exception": ".exception"}
        res = []
        for e in elts:
            if not isinstance(e, (ast.Name, ast.Attribute)):
                return None
            u = ast.unparse(e)
            res.append(names.get(u, f".other {q(u)}"))
        return res

    def lst(cs: List[str]) -> str:
        return "[" + ", ".join(cs) + "]"

    for worker, cancelled in (("asyncio", "asyncio.CancelledError"), ("trio", "trio.Cancelled")):
        item = f"{worker}EscapeHandler"
        bad = "{ reraise := [], caught := [], search := .unrecognised, marksUnsupported := false }"
        text = bad
        try:
            fn = find_def(parse(src / worker / "lifespan.py"), "Lifespan", "handle_lifespan")
            tries = [n for n in ast.walk(fn) if isinstance(n, ast.Try) and any("self.app(" in ast.unparse(st) for st in n.body)] if fn is not None else []
            if len(tries) != 1 or len(tries[0].body) != 1 or not ast.unparse(tries[0].body[0]).startswith("await self.app("):
                fail(item, "handle_lifespan is not one `try: await self.app(…)`")
            else:
                hs = tries[0].handlers
                ok = len(hs) == 2
                re_cs = classes(hs[0].type, cancelled) if ok else None
                ca_cs = classes(hs[1].type, cancelled) if ok else None
                if not ok or re_cs is None or ca_cs is None:
                    fail(item, f"expected two `except` clauses naming classes, found {[ast.unparse(h.type) if h.type is not None else None for h in hs]}")
                elif not (len(hs[0].body) == 1 and isinstance(hs[0].body[0], ast.Raise) and hs[0].body[0].exc is None):
                    fail(item, f"the first clause `except {ast.unparse(hs[0].type)}` does `{'; '.join(ast.unparse(x) for x in hs[0].body)[:100]}`, not a bare raise")
                else:
                    var = hs[1].name
                    body = list(hs[1].body)
                    search = None
                    rest = body
                    isgrp = f"isinstance({var}, BaseExceptionGroup)"
                    first = body[0] if body else None
                    if isinstance(first, ast.If) and not first.orelse and ast.unparse(first.test) == isgrp and len(first.body) == 2:
                        # if isinstance(error, BaseExceptionGroup): X = error.subgroup(<classes>); if X is not None: raise X
                        a, b = first.body
                        if (isinstance(a, ast.Assign) and len(a.targets) == 1 and isinstance(a.targets[0], ast.Name) and isinstance(a.value, ast.Call)
                                and ast.unparse(a.value.func) == f"{var}.subgroup" and len(a.value.args) == 1 and not a.value.keywords):
                            x = a.targets[0].id
                            cs = classes(a.value.args[0], cancelled)
                            if (cs is not None and isinstance(b, ast.If) and not b.orelse and ast.unparse(b.test) == f"{x} is not None"
                                    and [ast.unparse(y) for y in b.body] == [f"raise {x}"]):
                                search, rest = f".subgroup {lst(cs)}", body[1:]
                    elif isinstance(first, ast.If) and not first.orelse and [ast.unparse(y) for y in first.body] == ["raise"]:
                        # if isinstance(error, BaseExceptionGroup) and any(isinstance(v, <classes>) for v in error.exceptions): raise
                        t = first.test
                        if isinstance(t, ast.BoolOp) and isinstance(t.op, ast.And) and len(t.values) == 2 and ast.unparse(t.values[0]) == isgrp:
                            c = t.values[1]
                            if (isinstance(c, ast.Call) and ast.unparse(c.func) == "any" and len(c.args) == 1 and isinstance(c.args[0], ast.GeneratorExp)
                                    and len(c.args[0].generators) == 1 and not c.args[0].generators[0].ifs
                                    and ast.unparse(c.args[0].generators[0].iter) == f"{var}.exceptions"):
                                g = c.args[0]
                                v = ast.unparse(g.generators[0].target)
                                e = g.elt
                                if (isinstance(e, ast.Call) and ast.unparse(e.func) == "isinstance" and len(e.args) == 2 and ast.unparse(e.args[0]) == v):
                                    cs = classes(e.args[1], cancelled)
                                    if cs is not None:
                                        search, rest = f".directMembers {lst(cs)}", body[1:]
                    elif first is not None and ast.unparse(first) == "self.supported = False":
                        search = ".notSearched"
                    if search is None:
                        fail(item, f"the clause `except {ast.unparse(hs[1].type)} as {var}` starts with `{ast.unparse(first)[:160] if first is not None else ''}`: "
                                   "not a recognised search of the group")
                        search = ".unrecognised"
                    marks = bool(rest) and ast.unparse(rest[0]) == "self.supported = False"
                    # no other raise / return in what follows (log lines only)
                    if any(isinstance(n, (ast.Raise, ast.Return)) for st in rest for n in ast.walk(st)):
                        fail(item, "a raise / return after the search of the group")
                        search = ".unrecognised"
                    text = (f"{{ reraise := {lst(re_cs)}, caught := {lst(ca_cs)},\n    search := {search}, marksUnsupported := {'true' if marks else 'false'} }}")
        except Exception as e:
            fail(item, f"{type(e).__name__}: {e}")
        out.append(f"def {item} : EscapeHandler :=\n  {text}")

    out += ["/-- a `state` argument: a fresh copy made at that place on every evaluation (`ConnectionState(<dict>.copy())`), the dict\n"
            "    itself, or anything else -/",
            "inductive StateArg | copy | shared | unrecognised",
            "deriving Repr, DecidableEq"]

    def state_arg(node: ast.AST, name: str) -> Optional[str]:
        u = ast.unparse(node)
        if u == f"ConnectionState({name}.copy())":
            return ".copy"
        if u == name:
            return ".shared"
        return None

    for worker in ("asyncio", "trio"):
        item = f"{worker}ConnStateArg"
        val = None
        try:
            tree = parse(src / worker / "tcp_server.py")
            run = find_def(tree, "TCPServer", "run")
            init = find_def(tree, "TCPServer", "__init__")
            calls = [n for n in ast.walk(run) if isinstance(n, ast.Call) and ast.unparse(n.func) == "ProtocolWrapper"] if run is not None else []
            cls = find_def(tree, "TCPServer")
            assigns = [n for n in ast.walk(cls) if isinstance(n, (ast.Assign, ast.AugAssign, ast.AnnAssign))
                       and any(ast.unparse(t) == "self.state" for t in (n.targets if isinstance(n, ast.Assign) else [n.target]))] if cls is not None else []
            if len(calls) != 1 or len(calls[0].args) < 5 or calls[0].keywords:
                fail(item, "TCPServer.run does not build exactly one ProtocolWrapper(app, config, context, task_group, <state>, …)")
            elif init is None or len(assigns) != 1 or ast.unparse(assigns[0]) != "self.state = state" or assigns[0] not in list(ast.walk(init)):
                fail(item, "`self.state` is not assigned exactly once, as `self.state = state` in TCPServer.__init__")
            else:
                val = state_arg(calls[0].args[4], "self.state")
                if val is None:
                    fail(item, f"the connection state is `{ast.unparse(calls[0].args[4])[:120]}`, neither `ConnectionState(self.state.copy())` nor `self.state`")
        except Exception as e:
            fail(item, f"{type(e).__name__}: {e}")
        out.append(f"def {item} : StateArg := {val or '.unrecognised'}   -- the 5th argument of ProtocolWrapper(…) in {worker}/tcp_server.py TCPServer.run")
    for worker in ("asyncio", "trio"):
        item = f"{worker}ServeStateArg"
        val = None
        try:
            fn = find_def(parse(src / worker / "run.py"), "worker_serve")
            calls = [n for n in ast.walk(fn) if isinstance(n, ast.Call) and ast.unparse(n.func) in ("TCPServer", "partial") and n.args
                     and (ast.unparse(n.func) == "TCPServer" or ast.unparse(n.args[0]) == "TCPServer")] if fn is not None else []
            inits = [n for n in ast.walk(fn) if isinstance(n, (ast.Assign, ast.AnnAssign)) and ast.unparse(n.targets[0] if isinstance(n, ast.Assign) else n.target) == "lifespan_state"] if fn is not None else []
            if len(calls) != 1:
                fail(item, "worker_serve does not build TCPServer at exactly one place")
            elif len(inits) != 1 or ast.unparse(inits[0].value) != "{}":
                fail(item, "`lifespan_state` is not assigned exactly once, as `{}`")
            else:
                args = calls[0].args if ast.unparse(calls[0].func) == "TCPServer" else calls[0].args[1:]
                # asyncio: TCPServer(app, loop, config, context, <state>, reader, writer); trio: partial(TCPServer, app, config, context, <state>)
                idx = 4 if worker == "asyncio" else 3
                if len(args) <= idx:
                    fail(item, f"TCPServer is given {len(args)} positional arguments")
                else:
                    val = state_arg(args[idx], "lifespan_state")
                    if val is None:
                        fail(item, f"TCPServer is given the state `{ast.unparse(args[idx])[:120]}`")
        except Exception as e:
            fail(item, f"{type(e).__name__}: {e}")
        out.append(f"def {item} : StateArg := {val or '.unrecognised'}   -- the `state` worker_serve hands to TCPServer in {worker}/run.py")
    out += ["end HC.Extracted.LifespanSites", ""]
    return "\n".join(out)


def main() -> int:
    ap = argparse.ArgumentParser()
    ap.add_argument("--repo", default="/repo")
    ap.add_argument("--out", default=str(Path(__file__).resolve().parents[1] / "lean" / "HC" / "Extracted"))
    a = ap.parse_args()
    src = Path(a.repo) / "src" / "hypercorn"
    outd = Path(a.out)
    outd.mkdir(parents=True, exist_ok=True)
    for name, fn in [("Cli", extract_cli), ("Consts", extract_consts), ("Guards", extract_guards), ("Excepts", extract_excepts),
                     ("H11Tables", extract_h11_tables), ("Limits", extract_limits), ("Atomic", extract_atomic), ("Runtime", extract_runtime),
                     ("AppExit", extract_app_exit), ("H2Init", extract_h2_init), ("WsGuards", extract_ws_guards),
                     ("LifespanSend", extract_lifespan_send), ("LifespanSites", extract_lifespan_sites)]:
        CURRENT[0] = name
        try:
            text = fn(src)
        except Exception as e:  # a file that no longer parses etc.
            fail(name, f"{type(e).__name__}: {e}")
            continue
        changed = write_if_changed(outd / f"{name}.lean", text)
        print(f"EXTRACT {name}.lean {'updated' if changed else 'unchanged'}")
    # C04: per-`try` exception sites etc. (tools/extract_c04.py, which uses this module's helpers)
    CURRENT[0] = "C04Sites"
    try:
        sys.path.insert(0, str(Path(__file__).resolve().parent))
        import extract_c04
        changed = write_if_changed(outd / "C04Sites.lean", extract_c04.run(src, sys.modules[__name__]))
        print(f"EXTRACT C04Sites.lean {'updated' if changed else 'unchanged'}")
    except Exception as e:
        fail("C04Sites", f"{type(e).__name__}: {e}")
    # C03 / C07: guards, statement orders and Updated(idle=..) sites of the connection model (tools/extract_conn.py)
    CURRENT[0] = "ConnGuards"
    try:
        import extract_conn
        changed = write_if_changed(outd / "ConnGuards.lean", extract_conn.run(src, sys.modules[__name__]))
        print(f"EXTRACT ConnGuards.lean {'updated' if changed else 'unchanged'}")
    except Exception as e:
        fail("ConnGuards", f"{type(e).__name__}: {e}")
    # C01 / C02: host-header test of valid_server_name, DATA acknowledgement paths, _window_updated tests (tools/extract_req.py)
    CURRENT[0] = "ReqGlue"
    try:
        import extract_req
        changed = write_if_changed(outd / "ReqGlue.lean", extract_req.run(src, sys.modules[__name__]))
        print(f"EXTRACT ReqGlue.lean {'updated' if changed else 'unchanged'}")
    except Exception as e:
        fail("ReqGlue", f"{type(e).__name__}: {e}")
    # C13: protocol selection - ProtocolWrapper.__init__, _check_protocol, stream-class choices, refused h2c upgrade (tools/extract_select.py)
    CURRENT[0] = "Select"
    try:
        import extract_select
        changed = write_if_changed(outd / "Select.lean", extract_select.run(src, sys.modules[__name__]))
        print(f"EXTRACT Select.lean {'updated' if changed else 'unchanged'}")
    except Exception as e:
        fail("Select", f"{type(e).__name__}: {e}")
    # C10: how one WebSocket frame is handed from WSStream to the connection's byte stream - one Data event, one push / write of
    # the whole of it (tools/extract_wssend.py)
    CURRENT[0] = "WsSend"
    try:
        import extract_wssend
        changed = write_if_changed(outd / "WsSend.lean", extract_wssend.run(src, sys.modules[__name__]))
        print(f"EXTRACT WsSend.lean {'updated' if changed else 'unchanged'}")
    except Exception as e:
        fail("WsSend", f"{type(e).__name__}: {e}")
    # C03: every path through WSStream.handle / app_send that closes the stream, step by step (tools/extract_wsseq.py)
    CURRENT[0] = "WsSeq"
    try:
        import extract_wsseq
        changed = write_if_changed(outd / "WsSeq.lean", extract_wsseq.run(src, sys.modules[__name__]))
        print(f"EXTRACT WsSeq.lean {'updated' if changed else 'unchanged'}")
    except Exception as e:
        fail("WsSeq", f"{type(e).__name__}: {e}")
    # C17 / C19 / C20: object / key / filter choices of the WSGI wrapper, Config.from_object and the HTTPS redirect
    # (tools/extract_pure.py; one generated module and EXTRACT-FAIL tag per property)
    CURRENT[0] = "PureSites"
    try:
        import extract_pure
        for name, text in extract_pure.run(src, sys.modules[__name__]).items():
            changed = write_if_changed(outd / f"{name}.lean", text)
            print(f"EXTRACT {name}.lean {'updated' if changed else 'unchanged'}")
    except Exception as e:
        for name in ("WsgiSites", "ConfigSites", "ConfigState", "RedirectSites"):
            CURRENT[0] = name
            fail(name, f"{type(e).__name__}: {e}")
    for f in FAILS:
        print(f)
    return 1 if FAILS else 0


if __name__ == "__main__":
    sys.exit(main())
