"""Extractor part for the request/response glue decisions that C01 / C02 state theorems about, regenerated from the
AST of the current source.  Writes HC/Extracted/ReqGlue.lean.  Used by tools/extract.py (`run(src, ex)`).

  * `utils.valid_server_name`: the test that recognises the host header among `request.headers`
        -> `serverNameKey (name : Bytes) : Bool`        (the expression itself, translated)
  * `H2Protocol._handle_events`, DataReceived branch: how often `acknowledge_received_data` runs on the path where the
    stream exists and on the path where `self.streams[...]` raises KeyError (stream already completed), and with which
    arguments  -> `dataAcksDelivered`, `dataAcksMissing : Nat`, `dataAckArgs : List String`
  * `H2Protocol._window_updated`: the tests that choose between "unblock every buffered stream" and "unblock this one"
        -> `windowUpdateAll (stream_id : Option Nat) : Bool`, `windowUpdateOne (stream_id : Option Nat) (buffered : Bool) : Bool`
  * HTTP/2 trailers: the `Trailers` branch of `H2Protocol.stream_send` (what it calls) and `H2Protocol._end_stream` (which h2
    call ends the stream with / without pending trailers, and whether that call carries END_STREAM)
        -> `trailersBranchCalls : List String`, `endStreamTest (n : Nat) : Bool`, `endWithTrailers`, `endWithoutTrailers : List String`
  * `HTTPStream.handle(Request)`: which expressions of `event.raw_path` the scope's `raw_path`, `path` and `query_string` are
    (followed through the local names bound in front of the scope literal)
        -> `targetRawPath (raw : Bytes) : Bytes`, `targetQuery (raw : Bytes) : Bytes`   (`X.partition(b"?")` parts, translated;
           `path` must be `unquote(<the raw_path expression>.decode("ascii"))`)
A source shape the translator does not recognise is an EXTRACT-FAIL [ReqGlue] (the tie is reported broken)."""
from __future__ import annotations

import ast
from pathlib import Path
from typing import Any, Dict, List, Optional


class Unsupported(Exception):
    pass


def _bytes_lit(b: bytes) -> str:
    if all(32 <= c < 127 and c not in (34, 92) for c in b):
        return f'("{b.decode()}".b)'
    return "([" + ", ".join(str(c) for c in b) + "] : HC.Bytes)"


def bexpr(node: ast.AST, names: Dict[str, str]) -> str:
    """bytes-valued / boolean expression over the given free names -> Lean term"""
    txt = ast.unparse(node)
    if txt in names:
        return names[txt]
    if isinstance(node, ast.Constant) and isinstance(node.value, bytes):
        return _bytes_lit(node.value)
    if isinstance(node, ast.Call) and isinstance(node.func, ast.Attribute) and not node.args and not node.keywords:
        fn = {"lower": "HC.Bytes.lower", "upper": "HC.Bytes.upper", "strip": "HC.Bytes.strip"}.get(node.func.attr)
        if fn is None:
            raise Unsupported(f"method .{node.func.attr}()")
        return f"({fn} {bexpr(node.func.value, names)})"
    if isinstance(node, ast.BoolOp):
        op = " || " if isinstance(node.op, ast.Or) else " && "
        return "(" + op.join(bexpr(v, names) for v in node.values) + ")"
    if isinstance(node, ast.UnaryOp) and isinstance(node.op, ast.Not):
        return f"(!{bexpr(node.operand, names)})"
    if isinstance(node, ast.Compare) and len(node.ops) == 1:
        op, right = node.ops[0], node.comparators[0]
        if isinstance(op, (ast.Eq, ast.NotEq)):
            return f"({bexpr(node.left, names)} {'==' if isinstance(op, ast.Eq) else '!='} {bexpr(right, names)})"
        if isinstance(op, (ast.In, ast.NotIn)) and isinstance(right, (ast.Tuple, ast.List, ast.Set)):
            alts = " || ".join(f"({bexpr(node.left, names)} == {bexpr(e, names)})" for e in right.elts)
            return f"({alts})" if isinstance(op, ast.In) else f"(!({alts}))"
    raise Unsupported(txt[:80])


def oexpr(node: ast.AST, var: str, names: Dict[str, str]) -> str:
    """boolean expression over an `Optional[int]` variable `var` -> Lean term over `Option Nat`"""
    txt = ast.unparse(node)
    if txt in names:
        return names[txt]
    if isinstance(node, ast.BoolOp):
        op = " || " if isinstance(node.op, ast.Or) else " && "
        return "(" + op.join(oexpr(v, var, names) for v in node.values) + ")"
    if isinstance(node, ast.UnaryOp) and isinstance(node.op, ast.Not):
        return f"(!{oexpr(node.operand, var, names)})"
    if isinstance(node, ast.Compare) and len(node.ops) == 1 and ast.unparse(node.left) == var:
        op, right = node.ops[0], node.comparators[0]
        if isinstance(right, ast.Constant) and right.value is None and isinstance(op, (ast.Is, ast.IsNot, ast.Eq, ast.NotEq)):
            return f"({var} == none)" if isinstance(op, (ast.Is, ast.Eq)) else f"({var} != none)"
        if isinstance(right, ast.Constant) and isinstance(right.value, int) and not isinstance(right.value, bool) and right.value >= 0:
            if isinstance(op, (ast.Eq, ast.NotEq)):
                return f"({var} {'==' if isinstance(op, ast.Eq) else '!='} some {right.value})"
    raise Unsupported(txt[:80])


def _calls(node: ast.AST, needle: str) -> List[ast.Call]:
    return [n for n in ast.walk(node) if isinstance(n, ast.Call) and ast.unparse(n.func).endswith(needle)]


def _count_plain(stmts: List[ast.stmt], needle: str) -> int:
    """calls of `needle` made unconditionally by these statements (a call below an `if` / loop / nested try is not
    something this translator can count: Unsupported)"""
    n = 0
    for st in stmts:
        here = _calls(st, needle)
        if not here:
            continue
        if isinstance(st, ast.Expr) and (st.value in here or (isinstance(st.value, ast.Await) and st.value.value in here)) and len(here) == 1:
            n += 1
        else:
            raise Unsupported(f"`{needle}` inside `{ast.unparse(st).splitlines()[0][:60]}`")
    return n


def run(src: Path, ex: Any) -> str:
    fail, find_def, parse = ex.fail, ex.find_def, ex.parse
    out = ["/- GENERATED by tools/extract_req.py — request/response glue decisions used by HC.Props.C01 / C02 — do not edit -/",
           "import HC.Prelude",
           "namespace HC.Extracted.ReqGlue"]

    # ---- utils.valid_server_name -------------------------------------------------------------------------------
    try:
        fn = find_def(parse(src / "utils.py"), "valid_server_name")
        if fn is None:
            raise Unsupported("utils.valid_server_name not found")
        loops = [n for n in fn.body if isinstance(n, ast.For)]  # type: ignore
        if len(loops) != 1 or ast.unparse(loops[0].target) != "(name, value)" or ast.unparse(loops[0].iter) != "request.headers":
            raise Unsupported("no single `for name, value in request.headers:` loop")
        loop = loops[0]
        if len(loop.body) != 1 or not isinstance(loop.body[0], ast.If) or loop.body[0].orelse or loop.orelse:
            raise Unsupported("loop body is not a single `if <test>:`")
        branch = loop.body[0]
        if not isinstance(branch.body[-1], ast.Break):
            raise Unsupported("the first matching header does not end the loop (`break`)")
        if "host = value.decode()" not in ast.unparse(branch):
            raise Unsupported("`host = value.decode()` not in the matching branch")
        first = fn.body[0]  # type: ignore
        if not (isinstance(first, ast.If) and ast.unparse(first.test) == "len(config.server_names) == 0" and ast.unparse(first.body[0]) == "return True"):
            raise Unsupported("`if len(config.server_names) == 0: return True` is not the first statement")
        last = fn.body[-1]  # type: ignore
        if not (isinstance(last, ast.Return) and ast.unparse(last.value) == "host in config.server_names"):
            raise Unsupported("last statement is not `return host in config.server_names`")
        out.append(f"def serverNameKey (name : HC.Bytes) : Bool :=\n  {bexpr(branch.test, {'name': 'name'})}   -- `{ast.unparse(branch.test)}` in utils.valid_server_name")
    except Unsupported as e:
        fail("serverNameKey", str(e))
    except Exception as e:  # noqa
        fail("serverNameKey", f"{type(e).__name__}: {e}")

    # ---- H2Protocol._handle_events: DataReceived ---------------------------------------------------------------
    h2tree = None
    try:
        h2tree = parse(src / "protocol" / "h2.py")
        fn = find_def(h2tree, "H2Protocol", "_handle_events")
        branch = None
        for n in ast.walk(fn):  # type: ignore
            if isinstance(n, ast.If) and ast.unparse(n.test) == "isinstance(event, h2.events.DataReceived)":
                branch = n
        if branch is None:
            raise Unsupported("no `isinstance(event, h2.events.DataReceived)` branch in H2Protocol._handle_events")
        ACK = "acknowledge_received_data"
        delivered = missing = 0
        tries = 0
        for st in branch.body:
            if isinstance(st, ast.Try):
                tries += 1
                # the stream lookup is the first thing the try body does: KeyError leaves the body before anything else ran
                b0 = st.body[0] if st.body else None
                if b0 is None or "self.streams[event.stream_id].handle" not in ast.unparse(b0) or "Body(" not in ast.unparse(b0):
                    raise Unsupported("try body does not start with `await self.streams[event.stream_id].handle(Body(...))`")
                key_handlers = [h for h in st.handlers if h.type is not None and "KeyError" in ast.unparse(h.type)]
                if len(key_handlers) != 1 or len(st.handlers) != 1:
                    raise Unsupported("not exactly one `except KeyError` handler")
                fin = _count_plain(st.finalbody, ACK)
                delivered += _count_plain(st.body, ACK) + _count_plain(st.orelse, ACK) + fin
                missing += _count_plain(key_handlers[0].body, ACK) + fin
            else:
                k = _count_plain([st], ACK)
                delivered += k
                missing += k
        if tries != 1:
            raise Unsupported(f"{tries} try statements in the DataReceived branch, expected 1")
        args = sorted({", ".join(ast.unparse(a) for a in c.args) for c in _calls(branch, ACK)})
        out.append(f"def dataAcksDelivered : Nat := {delivered}   -- `{ACK}` calls when the stream exists (Body handed to it)")
        out.append(f"def dataAcksMissing : Nat := {missing}   -- … when `self.streams[event.stream_id]` raises KeyError (response already completed)")
        out.append("def dataAckArgs : List String := [" + ", ".join(ex.q(a) for a in args) + "]   -- argument lists of those calls")
        # which length is given back: the event's flow-controlled length (payload + pad length byte + padding, what the frame took
        # from the sender's windows) or something else (C09: upload credit is conserved)
        amounts = sorted({ast.unparse(c.args[0]) if c.args else "?" for c in _calls(branch, ACK)})
        AMOUNT = {"event.flow_controlled_length": "flowLen", "len(event.data)": "dataLen"}
        if len(amounts) != 1 or amounts[0] not in AMOUNT:
            fail("dataAckAmount", f"first argument of {ACK} is {amounts}: neither event.flow_controlled_length nor len(event.data)")
        else:
            out.append("set_option linter.unusedVariables false in")
            out.append(f"def dataAckAmount (dataLen flowLen : Nat) : Nat := {AMOUNT[amounts[0]]}   -- `{amounts[0]}`: the amount acknowledged for one DATA frame")
    except Unsupported as e:
        fail("dataAcks", str(e))
    except Exception as e:  # noqa
        fail("dataAcks", f"{type(e).__name__}: {e}")

    # ---- H2Protocol._window_updated ----------------------------------------------------------------------------
    try:
        fn = find_def(h2tree, "H2Protocol", "_window_updated") if h2tree is not None else None
        if fn is None:
            raise Unsupported("H2Protocol._window_updated not found")
        body = [st for st in fn.body if not (isinstance(st, ast.Expr) and isinstance(st.value, ast.Constant))]  # type: ignore
        if len(body) != 2 or not isinstance(body[0], ast.If) or ast.unparse(body[1]) != "await self.has_data.set()":
            raise Unsupported("body is not `if …: … elif …: …` followed by `await self.has_data.set()`")
        top = body[0]
        loops = [st for st in top.body if isinstance(st, ast.For)]
        if len(top.body) != 1 or len(loops) != 1 or ast.unparse(loops[0].iter) != "list(self.stream_buffers.keys())" \
                or [ast.unparse(s) for s in loops[0].body] != [f"self.priority.unblock({ast.unparse(loops[0].target)})"]:
            raise Unsupported("first branch is not `for stream_id in list(self.stream_buffers.keys()): self.priority.unblock(stream_id)`")
        if len(top.orelse) != 1 or not isinstance(top.orelse[0], ast.If) or top.orelse[0].orelse \
                or [ast.unparse(s) for s in top.orelse[0].body] != ["self.priority.unblock(stream_id)"]:
            raise Unsupported("second branch is not `elif …: self.priority.unblock(stream_id)` (without else)")
        all_t = oexpr(top.test, "stream_id", {})
        one_t = oexpr(top.orelse[0].test, "stream_id", {"stream_id in self.stream_buffers": "buffered"})
        out.append(f"def windowUpdateAll (stream_id : Option Nat) : Bool :=\n  {all_t}   -- `{ast.unparse(top.test)}`: unblock every buffered stream")
        out.append(f"def windowUpdateOne (stream_id : Option Nat) (buffered : Bool) : Bool :=\n  {one_t}   -- elif `{ast.unparse(top.orelse[0].test)}`: unblock that stream")
    except Unsupported as e:
        fail("windowUpdated", str(e))
    except Exception as e:  # noqa
        fail("windowUpdated", f"{type(e).__name__}: {e}")

    # ---- HTTP/2 trailers ---------------------------------------------------------------------------------------
    try:
        fn = find_def(h2tree, "H2Protocol", "stream_send") if h2tree is not None else None
        branch = None
        for n in ast.walk(fn):  # type: ignore
            if isinstance(n, ast.If) and ast.unparse(n.test) == "isinstance(event, Trailers)":
                branch = n
        if branch is None:
            raise Unsupported("no `isinstance(event, Trailers)` branch in H2Protocol.stream_send")
        calls = [ast.unparse(c.func) + "(" + ", ".join(ast.unparse(a) for a in c.args) + ")" for st in branch.body for c in ast.walk(st) if isinstance(c, ast.Call)]
        out.append("def trailersBranchCalls : List String := [" + ", ".join(ex.q(c) for c in calls) + "]   -- every call made by stream_send(Trailers)")
        fn = find_def(h2tree, "H2Protocol", "_end_stream")
        if fn is None:
            raise Unsupported("H2Protocol._end_stream not found")
        body = [st for st in fn.body if not (isinstance(st, ast.Expr) and isinstance(st.value, ast.Constant))]  # type: ignore
        if len(body) != 2 or ast.unparse(body[0]) != "trailers = self.stream_buffers[stream_id].trailers" or not isinstance(body[1], ast.If) or len(body[1].orelse) != 1:
            raise Unsupported("_end_stream is not `trailers = self.stream_buffers[stream_id].trailers; if …: … else: …`")
        test = body[1].test
        if not (isinstance(test, ast.Compare) and len(test.ops) == 1 and ast.unparse(test.left) == "len(trailers)" and type(test.ops[0]) in ex.CMP
                and isinstance(test.comparators[0], ast.Constant) and isinstance(test.comparators[0].value, int)):
            raise Unsupported(f"_end_stream test `{ast.unparse(test)}` is not a comparison of len(trailers) with a number")
        op = ex.CMP[type(test.ops[0])]
        cmp_t = f"(n {op} {test.comparators[0].value})" if op in ("==", "!=") else f"(decide (n {op} {test.comparators[0].value}))"
        out.append(f"def endStreamTest (n : Nat) : Bool :=\n  {cmp_t}   -- `{ast.unparse(test)}` in H2Protocol._end_stream (n = len(trailers))")

        def h2calls(stmts: List[ast.stmt]) -> List[str]:
            res = []
            for st in stmts:
                for c in ast.walk(st):
                    if isinstance(c, ast.Call) and ast.unparse(c.func).startswith("self.connection."):
                        res.append(ast.unparse(c).replace("self.connection.", ""))
            return res
        out.append("def endWithTrailers : List String := [" + ", ".join(ex.q(c) for c in h2calls(body[1].body)) + "]   -- h2 calls when the test holds")
        out.append("def endWithoutTrailers : List String := [" + ", ".join(ex.q(c) for c in h2calls(body[1].orelse)) + "]   -- … when it does not")
    except Unsupported as e:
        fail("trailers", str(e))
    except Exception as e:  # noqa
        fail("trailers", f"{type(e).__name__}: {e}")

    # ---- the contents the HTTP/2 glue passes on: Request(...) / Body(...) / send_headers(...) -----------------------
    try:
        if h2tree is None:
            raise Unsupported("protocol/h2.py not parsed")
        fn = find_def(h2tree, "H2Protocol", "_create_stream")
        reqs = [c for c in ast.walk(fn) if isinstance(c, ast.Call) and ast.unparse(c.func) == "Request"]  # type: ignore
        if len(reqs) != 1 or reqs[0].args:
            raise Unsupported("not exactly one `Request(<keywords>)` in H2Protocol._create_stream")
        rargs = [f"{k.arg}={ast.unparse(k.value)}" for k in reqs[0].keywords]
        out.append("def h2RequestArgs : List String := [" + ", ".join(ex.q(a) for a in rargs) + "]   -- the Request event `_create_stream` hands the new stream")
        # the header loop: which value is bound to `method` / `raw_path`
        loops = [n for n in ast.walk(fn) if isinstance(n, ast.For) and ast.unparse(n.iter) == "request.headers"]  # type: ignore
        if len(loops) != 1 or ast.unparse(loops[0].target) != "(name, value)":
            raise Unsupported("no single `for name, value in request.headers:` loop in _create_stream")
        binds = []
        node = loops[0].body[0] if len(loops[0].body) == 1 else None
        while isinstance(node, ast.If):
            first = node.body[0]
            if not isinstance(first, ast.Assign):
                raise Unsupported("a branch of the header loop does not start with an assignment")
            binds.append(f"{ast.unparse(node.test)}: {ast.unparse(first)}")
            node = node.orelse[0] if len(node.orelse) == 1 else None
        out.append("def h2HeaderLoop : List String := [" + ", ".join(ex.q(b) for b in binds) + "]   -- `for name, value in request.headers:` of _create_stream")
        fn = find_def(h2tree, "H2Protocol", "_handle_events")
        bodies = [c for c in ast.walk(fn) if isinstance(c, ast.Call) and ast.unparse(c.func) == "Body"]  # type: ignore
        if len(bodies) != 1 or bodies[0].args:
            raise Unsupported("not exactly one `Body(<keywords>)` in H2Protocol._handle_events")
        out.append("def dataBodyArgs : List String := [" + ", ".join(ex.q(f"{k.arg}={ast.unparse(k.value)}") for k in bodies[0].keywords)
                   + "]   -- the Body event handed to the stream for a DataReceived")
        fn = find_def(h2tree, "H2Protocol", "stream_send")
        branch = None
        for n in ast.walk(fn):  # type: ignore
            if isinstance(n, ast.If) and ast.unparse(n.test) == "isinstance(event, (InformationalResponse, Response))":
                branch = n
        if branch is None:
            raise Unsupported("no `isinstance(event, (InformationalResponse, Response))` branch in H2Protocol.stream_send")
        calls = [c for st in branch.body for c in ast.walk(st) if isinstance(c, ast.Call) and ast.unparse(c.func).startswith("self.connection.")]
        if len(calls) != 1 or ast.unparse(calls[0].func) != "self.connection.send_headers" or calls[0].keywords:
            raise Unsupported("the response branch is not one `self.connection.send_headers(stream_id, headers)` call")
        out.append("def h2HeadArgs : List String := [" + ", ".join(ex.q(ast.unparse(a)) for a in calls[0].args) + "]   -- send_headers arguments for a response head")
        fn = find_def(h2tree, "H2Protocol", "_send_data")
        pops = [c for c in ast.walk(fn) if isinstance(c, ast.Call) and ast.unparse(c.func).endswith(".pop") and "stream_buffers[stream_id]" in ast.unparse(c.func)]  # type: ignore
        sends = [c for c in ast.walk(fn) if isinstance(c, ast.Call) and ast.unparse(c.func) == "self.connection.send_data"]  # type: ignore
        assign = [n for n in ast.walk(fn) if isinstance(n, ast.Assign) and isinstance(n.value, ast.Await) and n.value.value in pops]  # type: ignore
        if len(pops) != 1 or len(sends) != 1 or len(assign) != 1:
            raise Unsupported("_send_data is not `data = await …pop(chunk_size)` … `send_data(stream_id, data)`")
        out.append("def sendDataArgs : List String := [" + ", ".join(ex.q(x) for x in [ast.unparse(assign[0].targets[0])] + [ast.unparse(a) for a in sends[0].args]) + "]   -- what is popped is what is sent")
        sb = find_def(h2tree, "StreamBuffer", "pop")
        sp = find_def(h2tree, "StreamBuffer", "push")
        popsrc = [ast.unparse(st) for st in sb.body[:3]]  # type: ignore
        pushsrc = [ast.unparse(st) for st in sp.body if "extend" in ast.unparse(st)]  # type: ignore
        out.append("def bufferFifo : List String := [" + ", ".join(ex.q(x) for x in pushsrc + popsrc) + "]   -- push extends at the back, pop takes from the front")
    except Unsupported as e:
        fail("h2Contents", str(e))
    except Exception as e:  # noqa
        fail("h2Contents", f"{type(e).__name__}: {e}")


    # ---- HTTPStream.handle(Request): request target -> raw_path / path / query_string of the scope --------------------
    try:
        fn = find_def(parse(src / "protocol" / "http_stream.py"), "HTTPStream", "handle")
        if fn is None:
            raise Unsupported("HTTPStream.handle not found")
        branch = None
        for n in ast.walk(fn):
            if isinstance(n, ast.If) and ast.unparse(n.test) == "isinstance(event, Request)":
                branch = n
        if branch is None:
            raise Unsupported("no `isinstance(event, Request)` branch in HTTPStream.handle")
        lits = [(i, st) for i, st in enumerate(branch.body) if isinstance(st, ast.Assign) and ast.unparse(st.targets[0]) == "self.scope"
                and isinstance(st.value, ast.Dict)]
        if len(lits) != 1:
            raise Unsupported("not exactly one `self.scope = {…}` in the Request branch")
        at, lit = lits[0]
        entries = {k.value: v for k, v in zip(lit.value.keys, lit.value.values) if isinstance(k, ast.Constant)}
        later = [ast.unparse(st.targets[0]) for st in ast.walk(fn) if isinstance(st, ast.Assign)
                 and ast.unparse(st.targets[0]) in ("self.scope['raw_path']", "self.scope['path']", "self.scope['query_string']")]
        if later:
            raise Unsupported(f"{later} assigned outside the scope literal")
        # local names bound (once, unconditionally) in front of the literal
        env: Dict[str, Any] = {}
        for st in branch.body[:at]:
            if isinstance(st, ast.Assign) and len(st.targets) == 1:
                t = st.targets[0]
                if isinstance(t, ast.Name):
                    env[t.id] = st.value
                elif isinstance(t, ast.Tuple) and all(isinstance(e, ast.Name) for e in t.elts):
                    for i, e in enumerate(t.elts):
                        env[e.id] = ("item", st.value, i, len(t.elts))
            elif any(isinstance(x, (ast.Name,)) and isinstance(x.ctx, ast.Store) for x in ast.walk(st)):
                raise Unsupported(f"`{ast.unparse(st).splitlines()[0][:60]}` binds a name in front of the scope literal in a way this translator does not read")

        def part(call: ast.AST, idx: int, width: int) -> str:
            """`<X>.partition(b"c")` seen as a 3-tuple: item idx"""
            if not (isinstance(call, ast.Call) and isinstance(call.func, ast.Attribute) and call.func.attr == "partition" and len(call.args) == 1
                    and not call.keywords and isinstance(call.args[0], ast.Constant) and isinstance(call.args[0].value, bytes) and len(call.args[0].value) == 1
                    and width == 3):
                raise Unsupported(f"`{ast.unparse(call)[:80]}` is not `<bytes>.partition(b\"<one byte>\")`")
            tup = f"(HC.Bytes.partitionB {call.args[0].value[0]} {texpr(call.func.value)})"
            if idx == 0:
                return f"{tup}.1"
            if idx == 2:
                return f"{tup}.2.2"
            raise Unsupported("the separator item of a partition is used as a scope value")

        def texpr(node: Any, depth: int = 0) -> str:
            if depth > 8:
                raise Unsupported("cyclic names")
            if isinstance(node, tuple):
                return part(node[1], node[2], node[3])
            if ast.unparse(node) == "event.raw_path":
                return "raw"
            if isinstance(node, ast.Name) and node.id in env:
                return texpr(env[node.id], depth + 1)
            if isinstance(node, ast.Subscript) and isinstance(node.slice, ast.Constant) and isinstance(node.slice.value, int):
                return part(node.value, node.slice.value % 3, 3)
            raise Unsupported(f"`{ast.unparse(node)[:80]}` is not `event.raw_path` or a part of `<…>.partition(b\"?\")` of it")
        for k in ("raw_path", "path", "query_string"):
            if k not in entries:
                raise Unsupported(f"scope literal without {k!r}")
        raw_t, query_t = texpr(entries["raw_path"]), texpr(entries["query_string"])
        pe = entries["path"]
        ok = (isinstance(pe, ast.Call) and ast.unparse(pe.func) == "unquote" and len(pe.args) == 1 and not pe.keywords
              and isinstance(pe.args[0], ast.Call) and isinstance(pe.args[0].func, ast.Attribute) and pe.args[0].func.attr == "decode"
              and [ast.unparse(a) for a in pe.args[0].args] == ["'ascii'"] and not pe.args[0].keywords)
        if not ok or texpr(pe.args[0].func.value) != raw_t:
            raise Unsupported(f"scope['path'] is `{ast.unparse(pe)[:80]}`, not `unquote(<the raw_path expression>.decode('ascii'))`")
        out.append(f"def targetRawPath (raw : HC.Bytes) : HC.Bytes :=\n  {raw_t}   -- scope[\"raw_path\"] = `{ast.unparse(entries['raw_path'])}` (scope[\"path\"] is its percent-decoded form)")
        out.append(f"def targetQuery (raw : HC.Bytes) : HC.Bytes :=\n  {query_t}   -- scope[\"query_string\"] = `{ast.unparse(entries['query_string'])}`")
    except Unsupported as e:
        fail("targetRawPath/targetQuery", str(e))
    except Exception as e:  # noqa
        fail("targetRawPath/targetQuery", f"{type(e).__name__}: {e}")

    out += ["end HC.Extracted.ReqGlue", ""]
    return "\n".join(out)
