#!/venv/bin/python
"""One-off development tool: two early `fix:` commits in /repo (made with `git commit -a` while several agents were editing)
contain a second, unrelated repair to protocol/h2.py.  This rewrites the history after their common parent so that each of them
becomes two commits (one per defect), verifies that the final tree is byte-identical, and prints the old -> new commit id map
(used to update known_findings.json).  Usage: split_mixed_commits.py <repo> [--apply]   (without --apply: dry run in a clone)."""
import subprocess
import sys
import tempfile
from pathlib import Path

SPLIT = {
    # old subject prefix -> [(paths, message or None = keep the original)]
    "fix: a HTTP request whose stream was closed before the application responded is access logged once": [
        (["src/hypercorn/protocol/http_stream.py"], None),
        (["src/hypercorn/protocol/h2.py"], "fix: the HTTP/2 send task tolerates a stream whose buffer was already discarded\n\n"
         "A client RST_STREAM followed by a PRIORITY frame re-inserts the stream into the priority tree; a late application write\n"
         "then unblocks it and _send_data's error handler raised KeyError on the missing buffer (and MissingStreamError on the\n"
         "tree), which ended the send task and with it the whole connection."),
    ],
    "fix: a websocket application that finishes during the handshake is access logged once": [
        (["src/hypercorn/protocol/ws_stream.py"], None),
        (["src/hypercorn/protocol/h2.py"], "fix: a HTTP/2 CONNECT request without :path is answered with 400 on its stream\n\n"
         "_create_stream left raw_path unbound (UnboundLocalError out of the connection handler); the stream is now refused with a\n"
         "400 and the connection's idle state is reported from the streams that exist."),
    ],
}


def git(repo, *a, **k):
    return subprocess.run(["git", "-C", str(repo), *a], check=True, stdout=subprocess.PIPE, stderr=subprocess.PIPE, **k).stdout.decode()


def main():
    repo = Path(sys.argv[1])
    apply = "--apply" in sys.argv
    work = Path(tempfile.mkdtemp(prefix="split_")) / "r"
    subprocess.run(["git", "clone", "-q", str(repo), str(work)], check=True)
    git(work, "config", "user.name", git(repo, "config", "user.name").strip() or "builder")
    git(work, "config", "user.email", git(repo, "config", "user.email").strip() or "builder@example.invalid")
    head = git(work, "rev-parse", "HEAD").strip()
    log = [l.split(" ", 1) for l in git(work, "log", "--reverse", "--format=%H %s").splitlines()]
    first = next(i for i, (h, s) in enumerate(log) if s in SPLIT)
    base = git(work, "rev-parse", log[first][0] + "^").strip()
    git(work, "checkout", "-q", "-b", "rewritten", base)
    mapping = {}
    for h, subj in log[first:]:
        if subj in SPLIT:
            news = []
            body = git(work, "log", "-1", "--format=%B", h)
            date = git(work, "log", "-1", "--format=%aI", h).strip()
            for paths, msg in SPLIT[subj]:
                patch = subprocess.run(["git", "-C", str(work), "diff", h + "^", h, "--", *paths], check=True, stdout=subprocess.PIPE).stdout
                subprocess.run(["git", "-C", str(work), "apply", "--index", "-"], input=patch, check=True)
                subprocess.run(["git", "-C", str(work), "commit", "-q", "--date", date, "-m", msg or body], check=True)
                news.append(git(work, "rev-parse", "--short", "HEAD").strip())
            mapping[h[:7]] = news
        else:
            subprocess.run(["git", "-C", str(work), "cherry-pick", "--allow-empty", h], check=True, stdout=subprocess.PIPE, stderr=subprocess.PIPE)
            mapping[h[:7]] = [git(work, "rev-parse", "--short", "HEAD").strip()]
    diff = git(work, "diff", head, "rewritten")
    assert diff == "", "rewritten tree differs from the original!"
    for k, v in mapping.items():
        print(k, "->", " + ".join(v))
    if apply:
        st = git(repo, "status", "--porcelain")
        assert st.strip() == "", "working tree of the repository is not clean"
        git(repo, "fetch", "-q", str(work), "rewritten:refs/heads/rewritten_tmp")
        git(repo, "reset", "-q", "--hard", "rewritten_tmp")
        git(repo, "branch", "-q", "-D", "rewritten_tmp")
        print("applied; HEAD is now", git(repo, "rev-parse", "--short", "HEAD").strip())
    subprocess.run(["rm", "-rf", str(work.parent)])


if __name__ == "__main__":
    main()
