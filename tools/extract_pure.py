"""Decision sites of the three "pure" adapters (C17 WSGI wrapper, C19 configuration loaders, C20 HTTPS redirect) that are a
*choice of object / key / filter* rather than a comparison, regenerated from the current source into
`lean/HC/Extracted/{WsgiSites,ConfigSites,RedirectSites}.lean` (called from tools/extract.py, whose helpers `find_def`, `parse`, `fail` it uses).

  wsgiBodyBinding      what the name iterated and closed by `WSGIWrapper.run_app` is bound to: the object the application
                       returned (iteration starts in the `for` statement inside the `try`, `close` is looked up on that
                       object), or `iter(...)` of it taken before the `try` (then `close` is looked up on the iterator and an
                       exception from `__iter__` escapes the `try/finally`)
  asyncioCallSoonWaits / trioCallSoonWaits
                       whether the `call_soon` each worker's TaskGroup.spawn_app hands to the application wrapper (the function
                       WSGIWrapper.run_app sends every ASGI message through, from its thread) returns only after the send has
                       completed: asyncio `_call_soon` = `run_coroutine_threadsafe(func(*args), self._loop)` followed by
                       `.result()`, trio `trio.from_thread.run`; the `sync_spawn` next to it must be the executor / to_thread
  asyncioMiddlewareCallSoonWaits / trioMiddlewareCallSoonWaits
                       the same for the pair the WSGI middleware classes (middleware/wsgi.py) hand to WSGIWrapper.__call__
  environHeaderValueDecode / environHeaderNameDecode / environQueryDecode / environPathTranscode / environScriptNameTranscode
                       the codec (normalised through the codec registry), the `errors=` argument and a `try/except UnicodeDecodeError`
                       fall-back of every `.decode()` / `.encode().decode()` in `_build_environ`: header values and names are
                       latin-1, strictly and without a second attempt (PEP 3333: `value.encode("latin1")` gives the bytes back)
  fromObjectFilter     the conjuncts of the filter in `Config.from_object`'s dict comprehension (which attributes of the
                       object are dropped before `from_mapping`)
  fromMappingGuards    the statements of `Config.from_mapping`'s loop in front of `try: setattr(config, key, value) except
                       AttributeError: pass` that skip a key (none in the pinned source; `if not hasattr(config, key): continue`
                       is read as `.readable`), with
  readableKeys / unreadableKeys
                       the names bound in the body of `class Config` that can / cannot be read on a fresh instance (annotated
                       without a value, or a property without a getter: `application_path`, `cert_reqs`)
  inetIsV6             the test of `socket.socket(socket.AF_INET6 if <test> else socket.AF_INET, type_)` in `_create_sockets`,
                       translated as a function of the bind string as given, the bind string without brackets and the parsed host
  createSocketsCarried the locals of `_create_sockets` whose value can reach an iteration of `for bind in binds:` from an earlier
                       iteration or from in front of the loop (definite-assignment analysis of the loop body; none in the pinned source)
  configMutableDefaults / configSharedMutations / configClassAccess / configMemoised / quicAddressesReset
                       (module ConfigState) state of config.py that outlives one Config object or one call: in-place changes
                       of the mutable class-level defaults of `Config`, attributes reached through the class, memoised
                       functions, and whether `_set_quic_addresses` starts from a fresh empty list (see `config_state`)
  redirectPathSource   the scope key `HTTPToHTTPSRedirectMiddleware._new_url` builds the path of the Location from
                       (`raw_path` = the request target as sent, or `path` = its percent-decoded form)

Every other shape is an EXTRACT-FAIL (the tie is then reported broken).
"""
from __future__ import annotations

import ast
from pathlib import Path
from typing import Any, List, Optional


def _norm(n: ast.AST) -> str:
    return ast.unparse(n).replace('"', "'")


def wsgi_body_binding(src: Path, ex: Any) -> Optional[str]:
    fn = ex.find_def(ex.parse(src / "app_wrappers.py"), "WSGIWrapper", "run_app")
    if fn is None:
        ex.fail("wsgiBodyBinding", "WSGIWrapper.run_app not found")
        return None
    body = [s for s in fn.body if not isinstance(s, ast.FunctionDef)]
    call_txt = "self.app(environ, start_response)"
    binds = [s for s in body if isinstance(s, ast.Assign) and call_txt in _norm(s.value)]
    if len(binds) != 1 or len(binds[0].targets) != 1 or not isinstance(binds[0].targets[0], ast.Name):
        ex.fail("wsgiBodyBinding", f"no single top-level `<name> = … {call_txt} …` in run_app")
        return None
    name = binds[0].targets[0].id
    val = _norm(binds[0].value)
    if val == call_txt:
        binding = "returned"
    elif val == f"iter({call_txt})":
        binding = "iterOf"
    else:
        ex.fail("wsgiBodyBinding", f"`{name} = {val}` is neither the application's return value nor iter() of it")
        return None
    tries = [s for s in body if isinstance(s, ast.Try) and s.finalbody]
    if len(tries) != 1 or body.index(tries[0]) < body.index(binds[0]):
        ex.fail("wsgiBodyBinding", "run_app: expected one try/finally after the application call")
        return None
    tr = tries[0]
    others = [s for s in ast.walk(fn) if isinstance(s, (ast.Assign, ast.AugAssign, ast.AnnAssign, ast.NamedExpr)) and s is not binds[0]
              and any(isinstance(t, ast.Name) and t.id == name for t in ast.walk(s.targets[0] if isinstance(s, ast.Assign) else s.target))]
    if others:
        ex.fail("wsgiBodyBinding", f"`{name}` is re-bound in run_app")
        return None
    fin = [_norm(s) for s in tr.finalbody]
    if fin != [f"if hasattr({name}, 'close'):\n    {name}.close()"]:
        ex.fail("wsgiBodyBinding", f"finally block is {fin}, expected `if hasattr({name}, 'close'): {name}.close()`")
        return None
    loops = [s for s in tr.body if isinstance(s, ast.For)]
    if len(loops) != 1 or _norm(loops[0].iter) != name:
        ex.fail("wsgiBodyBinding", f"the try body does not hold exactly one `for … in {name}`")
        return None
    closes = [n for n in ast.walk(fn) if isinstance(n, ast.Call) and isinstance(n.func, ast.Attribute) and n.func.attr == "close"]
    iters = [n for n in ast.walk(fn) if isinstance(n, ast.Call) and isinstance(n.func, ast.Name) and n.func.id in ("iter", "next")]
    if len(closes) != 1 or len(iters) != (1 if binding == "iterOf" else 0):
        ex.fail("wsgiBodyBinding", "run_app: further close()/iter()/next() calls")
        return None
    return binding


def call_soon_waits(src: Path, ex: Any) -> Optional[dict]:
    out = {}
    # asyncio
    fn = ex.find_def(ex.parse(src / "asyncio" / "task_group.py"), "TaskGroup", "spawn_app")
    if fn is None:
        ex.fail("asyncioCallSoonWaits", "asyncio TaskGroup.spawn_app not found")
        return None
    inner = [n for n in fn.body if isinstance(n, ast.FunctionDef) and n.name == "_call_soon"]
    spawns = [n for n in ast.walk(fn) if isinstance(n, ast.Call) and _norm(n.func) == "self.spawn" and n.args and _norm(n.args[0]) == "_handle"]
    if len(inner) != 1 or len(spawns) != 1 or len(spawns[0].args) != 8:
        ex.fail("asyncioCallSoonWaits", "spawn_app: expected one nested `_call_soon` and one `self.spawn(_handle, …7 arguments)`")
        return None
    if _norm(spawns[0].args[-1]) != "_call_soon" or _norm(spawns[0].args[-2]) != "partial(self._loop.run_in_executor, None)":
        ex.fail("asyncioCallSoonWaits", f"_handle is given sync_spawn=`{_norm(spawns[0].args[-2])}`, call_soon=`{_norm(spawns[0].args[-1])}`")
        return None
    sched = "asyncio.run_coroutine_threadsafe(func(*args), self._loop)"
    body = [_norm(st) for st in inner[0].body if not (isinstance(st, ast.Expr) and isinstance(st.value, ast.Constant))]
    if body in ([f"future = {sched}", "return future.result()"], [f"return {sched}.result()"]):
        out["asyncio"] = True
    elif body in ([f"return {sched}"], [sched], [f"future = {sched}", "return future"]):
        out["asyncio"] = False
    else:
        ex.fail("asyncioCallSoonWaits", f"unrecognised `_call_soon` body {body}")
        return None
    # trio
    fn = ex.find_def(ex.parse(src / "trio" / "task_group.py"), "TaskGroup", "spawn_app")
    starts = [] if fn is None else [n for n in ast.walk(fn) if isinstance(n, ast.Call) and _norm(n.func) == "self._nursery.start_soon"
                                    and n.args and _norm(n.args[0]) == "_handle"]
    if len(starts) != 1 or len(starts[0].args) != 8:
        ex.fail("trioCallSoonWaits", "trio TaskGroup.spawn_app: expected one `self._nursery.start_soon(_handle, …7 arguments)`")
        return None
    if _norm(starts[0].args[-2]) != "trio.to_thread.run_sync":
        ex.fail("trioCallSoonWaits", f"_handle is given sync_spawn=`{_norm(starts[0].args[-2])}`")
        return None
    cs = _norm(starts[0].args[-1])
    if cs == "trio.from_thread.run":
        out["trio"] = True          # runs the async function in the trio thread and returns its result
    elif cs == "trio.from_thread.run_sync":
        out["trio"] = False         # would only create the coroutine object
    else:
        ex.fail("trioCallSoonWaits", f"_handle is given call_soon=`{cs}`")
        return None
    # the WSGI middleware classes (middleware/wsgi.py) build their own pair for WSGIWrapper.__call__(scope, receive, send, sync_spawn, call_soon)
    tree = ex.parse(src / "middleware" / "wsgi.py")
    for key, cls in (("asyncioMiddleware", "AsyncioWSGIMiddleware"), ("trioMiddleware", "TrioWSGIMiddleware")):
        item = f"{key}CallSoonWaits"
        fn = ex.find_def(tree, cls, "__call__")
        if fn is None:
            ex.fail(item, f"{cls}.__call__ not found")
            return None
        calls = [n for n in ast.walk(fn) if isinstance(n, ast.Call) and _norm(n.func) == "self.wsgi_app"]
        awaited = [n for n in ast.walk(fn) if isinstance(n, ast.Await) and n.value in calls]
        if len(calls) != 1 or len(awaited) != 1 or len(calls[0].args) != 5 or calls[0].keywords \
                or [_norm(a) for a in calls[0].args[:3]] != ["scope", "receive", "send"]:
            ex.fail(item, f"{cls}.__call__: expected one `await self.wsgi_app(scope, receive, send, <sync_spawn>, <call_soon>)`")
            return None
        spawn, soon = _norm(calls[0].args[3]), _norm(calls[0].args[4])
        if key == "asyncioMiddleware":
            loops = [s_ for s_ in fn.body if isinstance(s_, ast.Assign) and len(s_.targets) == 1 and isinstance(s_.targets[0], ast.Name)
                     and _norm(s_.value) in ("asyncio.get_event_loop()", "asyncio.get_running_loop()")]
            inner = [n for n in fn.body if isinstance(n, ast.FunctionDef) and n.name == soon]
            if len(loops) != 1 or len(inner) != 1:
                ex.fail(item, f"{cls}.__call__: expected `<loop> = asyncio.get_event_loop()` and one nested `{soon}`")
                return None
            lv = loops[0].targets[0].id     # type: ignore
            if spawn != f"partial({lv}.run_in_executor, None)":
                ex.fail(item, f"WSGIWrapper is given sync_spawn=`{spawn}`")
                return None
            a = inner[0].args
            if [x.arg for x in a.args] != ["func"] or a.vararg is None or a.vararg.arg != "args" or a.kwonlyargs or a.kwarg or a.defaults:
                ex.fail(item, f"`{soon}` is not `(func, *args)`")
                return None
            sched = f"asyncio.run_coroutine_threadsafe(func(*args), {lv})"
            body = [_norm(st) for st in inner[0].body if not (isinstance(st, ast.Expr) and isinstance(st.value, ast.Constant))]
            if body in ([f"future = {sched}", "return future.result()"], [f"return {sched}.result()"]):
                out[key] = True
            elif body in ([f"return {sched}"], [sched], [f"future = {sched}", "return future"]):
                out[key] = False
            else:
                ex.fail(item, f"unrecognised `{soon}` body {body}")
                return None
        else:
            if spawn != "trio.to_thread.run_sync":
                ex.fail(item, f"WSGIWrapper is given sync_spawn=`{spawn}`")
                return None
            if soon == "trio.from_thread.run":
                out[key] = True
            elif soon == "trio.from_thread.run_sync":
                out[key] = False
            else:
                ex.fail(item, f"WSGIWrapper is given call_soon=`{soon}`")
                return None
    return out


_CODEC = {"iso8859-1": ".latin1", "utf-8": ".utf8", "ascii": ".ascii"}


def _codec(node: ast.AST) -> Optional[str]:
    import codecs
    if not (isinstance(node, ast.Constant) and isinstance(node.value, str)):
        return None
    try:
        name = codecs.lookup(node.value).name
    except LookupError:
        return f'.other "{node.value}"'
    return _CODEC.get(name, f'.other "{name}"')


def _coding_call(node: ast.AST, method: str) -> Optional[tuple]:
    """`<recv>.<method>(<codec>[, <errors>])` -> (receiver, codec term, errors term)"""
    if not (isinstance(node, ast.Call) and isinstance(node.func, ast.Attribute) and node.func.attr == method):
        return None
    args = list(node.args)
    kw = {k.arg: k.value for k in node.keywords}
    if len(args) > 2 or set(kw) - {"encoding", "errors"} or (args and "encoding" in kw) or (len(args) > 1 and "errors" in kw):
        return None
    enc = args[0] if args else kw.get("encoding")
    err = args[1] if len(args) > 1 else kw.get("errors")
    codec = ".utf8" if enc is None else _codec(enc)
    if codec is None:
        return None
    if err is None or (isinstance(err, ast.Constant) and err.value == "strict"):
        errors = "none"
    elif isinstance(err, ast.Constant) and isinstance(err.value, str):
        errors = f'(some "{err.value}")'
    else:
        return None
    return node.func.value, codec, errors


def environ_codecs(src: Path, ex: Any) -> dict:
    """item -> Lean term; an unrecognised site is `.unrecognised`-like (`codec := .other "?"`) and an EXTRACT-FAIL"""
    bad_d = '{ codec := .other "?", errors := none, fallback := none }'
    bad_t = '{ encode := .other "?", decode := .other "?" }'
    out = {"environHeaderValueDecode": bad_d, "environHeaderNameDecode": bad_d, "environQueryDecode": bad_d,
           "environPathTranscode": bad_t, "environScriptNameTranscode": bad_t}
    fn = ex.find_def(ex.parse(src / "app_wrappers.py"), "_build_environ")
    if fn is None:
        for k in out:
            ex.fail(k, "_build_environ not found")
        return out
    loops = [n for n in fn.body if isinstance(n, ast.For) and _norm(n.iter) == "scope.get('headers', [])"]
    dicts = [n for n in fn.body if isinstance(n, ast.Assign) and _norm(n.targets[0]) == "environ" and isinstance(n.value, ast.Dict)]
    if len(loops) != 1 or len(dicts) != 1 or _norm(loops[0].target) != "(raw_name, raw_value)":
        for k in out:
            ex.fail(k, "_build_environ is not `environ = {…}` followed by one `for raw_name, raw_value in scope.get('headers', [])`")
        return out
    loop, lit = loops[0], dicts[0].value

    def assigned(var: str, raw: str, item: str) -> None:
        """every place the loop binds `var` from `raw`: one top-level `var = raw.decode(…)`, or one
        `try: var = raw.decode(…) except <UnicodeDecodeError>: var = raw.decode(…)`"""
        sites = [st for st in ast.walk(loop) if isinstance(st, ast.Assign) and _norm(st.targets[0]) == var and raw in _norm(st.value)]
        uses = [n for n in ast.walk(loop) if isinstance(n, ast.Name) and n.id == raw and isinstance(n.ctx, ast.Load)]
        top = [st for st in loop.body if isinstance(st, ast.Assign) and st in sites]
        tries = [st for st in loop.body if isinstance(st, ast.Try) and any(x in sites for x in ast.walk(st))]
        if len(sites) == 1 and len(top) == 1 and len(uses) == 1:
            c = _coding_call(top[0].value, "decode")
            if c is not None and _norm(c[0]) == raw:
                out[item] = f"{{ codec := {c[1]}, errors := {c[2]}, fallback := none }}"
                return
        elif len(sites) == 2 and len(tries) == 1 and len(uses) == 2 and not top:
            tr = tries[0]
            if (len(tr.body) == 1 and tr.body[0] in sites and len(tr.handlers) == 1 and not tr.orelse and not tr.finalbody
                    and len(tr.handlers[0].body) == 1 and tr.handlers[0].body[0] in sites and tr.handlers[0].type is not None
                    and _norm(tr.handlers[0].type) in ("UnicodeDecodeError", "UnicodeError", "ValueError", "Exception")):
                c1 = _coding_call(tr.body[0].value, "decode")
                c2 = _coding_call(tr.handlers[0].body[0].value, "decode")
                if c1 is not None and c2 is not None and _norm(c1[0]) == raw and _norm(c2[0]) == raw and c2[2] == "none":
                    out[item] = f"{{ codec := {c1[1]}, errors := {c1[2]}, fallback := some {c2[1] if ' ' not in c2[1] else '(' + c2[1] + ')'} }}"
                    return
        ex.fail(item, f"`{var}` is not bound by one `{var} = {raw}.decode(<codec>)` (or one try/except UnicodeDecodeError around two such) in the header loop: "
                      f"{[_norm(x)[:80] for x in sites]}")

    assigned("value", "raw_value", "environHeaderValueDecode")
    assigned("name", "raw_name", "environHeaderNameDecode")
    entries = {k.value: v for k, v in zip(lit.keys, lit.values) if isinstance(k, ast.Constant)}
    q = entries.get("QUERY_STRING")
    c = _coding_call(q, "decode") if q is not None else None
    if c is not None and _norm(c[0]) == "scope['query_string']":
        out["environQueryDecode"] = f"{{ codec := {c[1]}, errors := {c[2]}, fallback := none }}"
    else:
        ex.fail("environQueryDecode", f"QUERY_STRING is `{_norm(q)[:80] if q is not None else None}`")
    for key, var, item in (("PATH_INFO", "path", "environPathTranscode"), ("SCRIPT_NAME", "script_name", "environScriptNameTranscode")):
        v = entries.get(key)
        d = _coding_call(v, "decode") if v is not None else None
        e = _coding_call(d[0], "encode") if d is not None else None
        if d is not None and e is not None and _norm(e[0]) == var and d[2] == "none" and e[2] == "none":
            out[item] = f"{{ encode := {e[1]}, decode := {d[1]} }}"
        else:
            ex.fail(item, f"{key} is `{_norm(v)[:80] if v is not None else None}`, not `{var}.encode(<codec>).decode(<codec>)`")
    return out


def from_object_filter(src: Path, ex: Any) -> Optional[List[str]]:
    fn = ex.find_def(ex.parse(src / "config.py"), "Config", "from_object")
    if fn is None:
        ex.fail("fromObjectFilter", "Config.from_object not found")
        return None
    comps = [s for s in fn.body if isinstance(s, ast.Assign) and isinstance(s.value, ast.DictComp)]
    rets = [s for s in fn.body if isinstance(s, ast.Return)]
    if len(comps) != 1 or len(rets) != 1 or _norm(comps[0].targets[0]) != "mapping" or _norm(rets[0].value) != "cls.from_mapping(mapping)":
        ex.fail("fromObjectFilter", "from_object is not `mapping = {…}; return cls.from_mapping(mapping)`")
        return None
    dc: ast.DictComp = comps[0].value  # type: ignore
    if len(dc.generators) != 1 or dc.generators[0].is_async:
        ex.fail("fromObjectFilter", "dict comprehension with more than one `for`")
        return None
    g = dc.generators[0]
    get = "getattr(instance, key)"
    values = {get}
    tgt, it = _norm(g.target), _norm(g.iter)
    if tgt == "key" and it == "dir(instance)":
        pass
    elif tgt == "(key, value)" and it in (f"((key, {get}) for key in dir(instance))", f"[(key, {get}) for key in dir(instance)]"):
        values.add("value")
    else:
        ex.fail("fromObjectFilter", f"unrecognised `for {tgt} in {it}`")
        return None
    if _norm(dc.key) != "key" or _norm(dc.value) not in values:
        ex.fail("fromObjectFilter", f"entry is `{_norm(dc.key)}: {_norm(dc.value)}`, expected the attribute under its own name")
        return None
    conj: List[ast.AST] = []
    for test in g.ifs:
        conj += list(test.values) if isinstance(test, ast.BoolOp) and isinstance(test.op, ast.And) else [test]
    out = []
    for c in conj:
        if not (isinstance(c, ast.UnaryOp) and isinstance(c.op, ast.Not)):
            ex.fail("fromObjectFilter", f"clause `{_norm(c)}` is not a negation")
            return None
        t = _norm(c.operand)
        if t in {f"isinstance({v}, types.ModuleType)" for v in values}:
            out.append("notModule")
        elif t == "key.startswith('__')":
            out.append("notDunder")
        elif t in {f"callable({v})" for v in values}:
            out.append("notCallable")
        else:
            ex.fail("fromObjectFilter", f"unrecognised clause `not {t}`")
            return None
    return out


def from_mapping_guards(src: Path, ex: Any) -> Optional[List[str]]:
    fn = ex.find_def(ex.parse(src / "config.py"), "Config", "from_mapping")
    if fn is None:
        ex.fail("fromMappingGuards", "Config.from_mapping not found")
        return None
    loops = [s for s in fn.body if isinstance(s, ast.For)]
    if len(loops) != 1 or _norm(loops[0].target) != "(key, value)" or _norm(loops[0].iter) != "mappings.items()" or loops[0].orelse:
        ex.fail("fromMappingGuards", "from_mapping does not hold exactly one `for key, value in mappings.items():`")
        return None
    body = list(loops[0].body)
    tr = body[-1] if body else None
    if not (isinstance(tr, ast.Try) and [_norm(x) for x in tr.body] == ["setattr(config, key, value)"] and len(tr.handlers) == 1
            and tr.handlers[0].type is not None and _norm(tr.handlers[0].type) == "AttributeError" and [_norm(x) for x in tr.handlers[0].body] == ["pass"]
            and not tr.orelse and not tr.finalbody):
        ex.fail("fromMappingGuards", "the loop does not end in `try: setattr(config, key, value) / except AttributeError: pass`")
        return None
    out = []
    for st in body[:-1]:
        t = _norm(st)
        if t in ("if not hasattr(config, key):\n    continue", "if not hasattr(cls, key):\n    continue"):
            out.append("readable")
        else:
            ex.fail("fromMappingGuards", f"unrecognised statement in front of the setattr: `{t.splitlines()[0][:80]}`")
            return None
    return out


def config_key_readability(src: Path, ex: Any) -> Optional[tuple]:
    cls = ex.find_def(ex.parse(src / "config.py"), "Config")
    if cls is None:
        ex.fail("readableKeys/unreadableKeys", "class Config not found")
        return None
    readable, unreadable = [], []
    for st in cls.body:
        if isinstance(st, ast.AnnAssign) and isinstance(st.target, ast.Name):
            (readable if st.value is not None else unreadable).append(st.target.id)
        elif isinstance(st, ast.Assign):
            for t in st.targets:
                if isinstance(t, ast.Name):
                    v = st.value
                    wo = isinstance(v, ast.Call) and _norm(v.func) == "property" and v.args and isinstance(v.args[0], ast.Constant) and v.args[0].value is None
                    (unreadable if wo else readable).append(t.id)
        elif isinstance(st, (ast.FunctionDef, ast.AsyncFunctionDef)):
            if st.name not in readable:
                readable.append(st.name)
    return sorted(set(readable) - set(unreadable)), sorted(set(unreadable) - set(readable))


def _str_chars(s: str) -> str:
    return "[" + ", ".join("'" + ("\\" + c if c in "'\\" else c) + "'" for c in s) + "]"


def inet_family_test(src: Path, ex: Any) -> Optional[str]:
    """Lean term over `bind0` (the bind string as given), `bind` (brackets removed) and `host` (the parsed host)"""
    fn = ex.find_def(ex.parse(src / "config.py"), "Config", "_create_sockets")
    item = "inetIsV6"
    if fn is None:
        ex.fail(item, "Config._create_sockets not found")
        return None
    loops = [s for s in fn.body if isinstance(s, ast.For) and _norm(s.target) == "bind" and _norm(s.iter) == "binds"]
    if len(loops) != 1:
        ex.fail(item, "no single `for bind in binds:` in _create_sockets")
        return None
    chain = [s for s in loops[0].body if isinstance(s, ast.If) and _norm(s.test) == "bind.startswith('unix:')"]
    if not chain or len(chain[0].orelse) != 1 or not isinstance(chain[0].orelse[0], ast.If) or _norm(chain[0].orelse[0].test) != "bind.startswith('fd://')":
        ex.fail(item, "the loop does not start with `if bind.startswith('unix:') … elif bind.startswith('fd://') … else …`")
        return None
    branch = chain[0].orelse[0].orelse
    env = {}                       # local name -> Lean term (booleans about the bind string)
    plain = {}                     # local name -> the expression it was bound to (simple assignments)
    cur = "bind0"                  # what `bind` denotes at this point of the branch
    found = None

    def strx(node: ast.AST) -> str:
        t = _norm(node)
        if t == "bind":
            return cur
        if t == "host" and "host" in env:
            return "host"
        raise ValueError(f"`{t[:60]}` is not the bind string or the parsed host")

    def bx(node: ast.AST) -> str:
        if isinstance(node, ast.Name) and node.id in env and env[node.id] is not None:
            return env[node.id]
        if isinstance(node, ast.BoolOp):
            return "(" + (" && " if isinstance(node.op, ast.And) else " || ").join(bx(v) for v in node.values) + ")"
        if isinstance(node, ast.UnaryOp) and isinstance(node.op, ast.Not):
            return f"(!{bx(node.operand)})"
        if isinstance(node, ast.Call) and isinstance(node.func, ast.Attribute) and node.func.attr in ("startswith", "endswith") and len(node.args) == 1 \
                and not node.keywords and isinstance(node.args[0], ast.Constant) and isinstance(node.args[0].value, str):
            f = "List.isPrefixOf" if node.func.attr == "startswith" else "List.isSuffixOf"
            return f"({f} {_str_chars(node.args[0].value)} {strx(node.func.value)})"
        if isinstance(node, ast.Compare) and len(node.ops) == 1 and isinstance(node.ops[0], (ast.In, ast.NotIn)) and isinstance(node.left, ast.Constant) \
                and isinstance(node.left.value, str) and len(node.left.value) == 1:
            c = node.left.value
            t = f"({strx(node.comparators[0])}.contains '{c}')"
            return t if isinstance(node.ops[0], ast.In) else f"(!{t})"
        raise ValueError(f"`{_norm(node)[:80]}` is not a test this translator reads")

    try:
        for st in branch:
            calls = [c for c in ast.walk(st) if isinstance(c, ast.Call) and _norm(c.func) == "socket.socket"]
            if calls:
                if not (isinstance(st, ast.Assign) and _norm(st.targets[0]) == "sock" and st.value is calls[0] and len(calls) == 1 and len(calls[0].args) == 2
                        and not calls[0].keywords and _norm(calls[0].args[1]) == "type_"):
                    raise ValueError("the socket is not created by `sock = socket.socket(<family>, type_)`")
                fam = calls[0].args[0]
                if isinstance(fam, ast.Name) and fam.id in plain:       # `family = … if … else …` on its own line
                    fam = plain[fam.id]
                if not isinstance(fam, ast.IfExp) or {_norm(fam.body), _norm(fam.orelse)} != {"socket.AF_INET6", "socket.AF_INET"}:
                    raise ValueError(f"family `{_norm(fam)[:80]}` is not `socket.AF_INET6 if <test> else socket.AF_INET`")
                t = bx(fam.test)
                found = t if _norm(fam.body) == "socket.AF_INET6" else f"(!{t})"
                break
            if isinstance(st, ast.Assign) and len(st.targets) == 1 and isinstance(st.targets[0], ast.Name):
                name = st.targets[0].id
                if name == "bind":
                    if _norm(st.value) != "bind.replace('[', '').replace(']', '')" or cur != "bind0":
                        raise ValueError(f"`{_norm(st)[:80]}`: the bind string is rewritten in a way this translator does not read")
                    cur = "bind"
                else:
                    plain[name] = st.value
                    try:
                        env[name] = bx(st.value)
                    except ValueError:
                        env[name] = None       # not a boolean about the bind string (fine unless the family test uses it)
            elif isinstance(st, ast.Try):
                # `host, port = …` in the body and in the handler(s): the parsed host
                for sub in ast.walk(st):
                    if isinstance(sub, ast.Assign) and isinstance(sub.targets[0], ast.Tuple):
                        for e in sub.targets[0].elts:
                            if isinstance(e, ast.Name):
                                env[e.id] = None
                    elif isinstance(sub, ast.Assign) and isinstance(sub.targets[0], ast.Name) and sub.targets[0].id in env:
                        env[sub.targets[0].id] = None
                if "host" not in env:
                    raise ValueError("the try statement does not bind `host`")
            else:
                for sub in ast.walk(st):
                    if isinstance(sub, ast.Name) and isinstance(sub.ctx, ast.Store):
                        env[sub.id] = None
        if found is None:
            raise ValueError("no `sock = socket.socket(…)` in the inet branch")
    except ValueError as e:
        ex.fail(item, str(e))
        return None
    return found


def create_sockets_carried(src: Path, ex: Any) -> Optional[List[str]]:
    """The locals of `Config._create_sockets` whose value can reach an iteration of `for bind in binds:` from an earlier iteration
    or from in front of the loop: every name the function binds that the loop body reads at a point where this iteration has not
    (on every path) bound it yet.  Definite-assignment analysis of the loop body - `if`/`else` and `try`/`except` join by
    intersection, a path that ends in raise / continue / break / return does not count, a name bound under `if <test>:` is bound
    again under a later `if <test>:` with the same test - so the result does not depend on how the parse is spelled.  The list the
    function returns may only be appended to (`sockets.append(…)`); `self.<attr>` is listed when the loop both stores and reads it.
    Each bind string must produce its socket by itself: the pinned source carries nothing."""
    item = "createSocketsCarried"
    fn = ex.find_def(ex.parse(src / "config.py"), "Config", "_create_sockets")
    if fn is None:
        ex.fail(item, "Config._create_sockets not found")
        return None
    loops = [s for s in fn.body if isinstance(s, ast.For) and _norm(s.target) == "bind" and _norm(s.iter) == "binds"]
    if len(loops) != 1 or loops[0].orelse:
        ex.fail(item, "no single `for bind in binds:` in _create_sockets")
        return None
    loop = loops[0]
    after = fn.body[fn.body.index(loop) + 1:]
    if len(after) != 1 or not isinstance(after[0], ast.Return) or not isinstance(after[0].value, ast.Name):
        ex.fail(item, "the loop is not followed by `return <list>` alone")
        return None
    acc = after[0].value.id
    params = {a.arg for a in fn.args.args + fn.args.kwonlyargs}
    # names the function binds (a parameter counts when the loop rebinds it)
    stored_in_loop = {n.id for st in loop.body for n in ast.walk(st) if isinstance(n, ast.Name) and isinstance(n.ctx, ast.Store)}
    tracked = {n.id for n in ast.walk(fn) if isinstance(n, ast.Name) and isinstance(n.ctx, ast.Store)}
    tracked = {n for n in tracked if n not in params or n in stored_in_loop}
    carried: List[str] = []

    class Unread(Exception):
        pass

    def comp_bound(e: ast.AST) -> set:
        out = set()
        for c in ast.walk(e):
            if isinstance(c, ast.comprehension):
                out |= {n.id for n in ast.walk(c.target) if isinstance(n, ast.Name)}
            elif isinstance(c, ast.Lambda):
                out |= {a.arg for a in c.args.args}
        return out

    def reads(e: Optional[ast.AST], st: tuple) -> None:
        if e is None:
            return
        own = comp_bound(e)
        for n in ast.walk(e):
            if isinstance(n, ast.Name) and isinstance(n.ctx, ast.Load) and n.id in tracked and n.id not in own and n.id not in st[0] \
                    and n.id != acc and n.id not in carried:
                carried.append(n.id)

    def bind_names(t: ast.AST, st: tuple) -> tuple:
        names = {n.id for n in ast.walk(t) if isinstance(n, ast.Name) and isinstance(n.ctx, ast.Store)}
        for n in ast.walk(t):                               # `x[i] = …` / `x.a = …` read x
            if isinstance(n, (ast.Subscript, ast.Attribute)):
                reads(n.value, st)
                if isinstance(n, ast.Subscript):
                    reads(n.slice, st)
        conds = {k: v for k, v in st[1].items() if not (k[1] & names)}
        return (st[0] | names, conds)

    def walrus(e: Optional[ast.AST], st: tuple) -> tuple:
        if e is not None:
            for n in ast.walk(e):
                if isinstance(n, ast.NamedExpr):
                    st = bind_names(n.target, st)
        return st

    def join(a: Optional[tuple], b: Optional[tuple]) -> Optional[tuple]:
        if a is None:
            return b
        if b is None:
            return a
        return (a[0] & b[0], {k: a[1][k] & b[1][k] for k in a[1] if k in b[1]})

    def block(stmts: List[ast.stmt], st: Optional[tuple]) -> Optional[tuple]:
        for s in stmts:
            if st is None:
                return None
            st = stmt(s, st)
        return st

    def stmt(s: ast.stmt, st: tuple) -> Optional[tuple]:
        if isinstance(s, ast.Assign):
            reads(s.value, st)
            st = walrus(s.value, st)
            for t in s.targets:
                st = bind_names(t, st)
            return st
        if isinstance(s, ast.AnnAssign):
            reads(s.value, st)
            return bind_names(s.target, walrus(s.value, st)) if s.value is not None else st
        if isinstance(s, ast.AugAssign):
            reads(s.value, st)
            reads(ast.Name(id=s.target.id, ctx=ast.Load()) if isinstance(s.target, ast.Name) else s.target, st)
            return bind_names(s.target, st)
        if isinstance(s, ast.Expr):
            reads(s.value, st)
            return walrus(s.value, st)
        if isinstance(s, ast.If):
            reads(s.test, st)
            st = walrus(s.test, st)
            key = (_norm(s.test), frozenset(n.id for n in ast.walk(s.test) if isinstance(n, ast.Name)))
            a = block(s.body, (st[0] | st[1].get(key, frozenset()), st[1]))
            b = block(s.orelse, st)
            out = join(a, b)
            if out is not None and a is not None and not (key[1] & (a[0] - st[0])):
                conds = dict(out[1])
                conds[key] = frozenset(a[0] - out[0]) | conds.get(key, frozenset())
                out = (out[0], conds)
            return out
        if isinstance(s, ast.Try):
            a = block(s.orelse, block(s.body, st))
            for h in s.handlers:
                reads(h.type, st)
                hs = (st[0] | ({h.name} if h.name else set()), st[1])
                a = join(a, block(h.body, hs))
            if s.finalbody:
                f = block(s.finalbody, st)
                if f is None or a is None:
                    return None
                a = (a[0] | f[0], a[1])
            return a
        if isinstance(s, (ast.Raise, ast.Return)):
            reads(getattr(s, "exc", None) or getattr(s, "value", None), st)
            return None
        if isinstance(s, (ast.Continue, ast.Break)):
            return None
        if isinstance(s, ast.Pass):
            return st
        if isinstance(s, (ast.For, ast.While)):
            if isinstance(s, ast.For):
                reads(s.iter, st)
                inner = bind_names(s.target, st)
            else:
                reads(s.test, st)
                inner = st
            block(s.body, inner)
            block(s.orelse, st)
            return st                                          # the body may not run at all
        if isinstance(s, ast.With):
            for it in s.items:
                reads(it.context_expr, st)
                if it.optional_vars is not None:
                    st = bind_names(it.optional_vars, st)
            return block(s.body, st)
        if isinstance(s, ast.Assert):
            reads(s.test, st)
            return st
        raise Unread(f"`{_norm(s).splitlines()[0][:70]}`: a statement this analysis does not read")

    try:
        block(loop.body, (frozenset({"bind"}), {}))
    except Unread as e:
        ex.fail(item, str(e))
        return None
    except Exception as e:                                     # an AST shape the analysis trips over: not read, never a crash
        ex.fail(item, f"{type(e).__name__}: {e}")
        return None
    # the accumulator: bound in front of the loop, only ever `<acc>.append(<one value>)` inside it
    uses = [n for st in loop.body for n in ast.walk(st) if isinstance(n, ast.Name) and n.id == acc]
    appends = [n for st in loop.body for n in ast.walk(st) if isinstance(n, ast.Expr) and isinstance(n.value, ast.Call)
               and _norm(n.value.func) == f"{acc}.append" and len(n.value.args) == 1 and not n.value.keywords
               and not any(isinstance(x, ast.Name) and x.id == acc for x in ast.walk(n.value.args[0]))]
    if len(uses) != len(appends) or not appends:
        carried.append(acc)
    # state kept on the instance: an attribute of `self` the loop both writes and reads
    wr = {n.attr for st in loop.body for n in ast.walk(st) if isinstance(n, ast.Attribute) and isinstance(n.ctx, ast.Store) and _norm(n.value) == "self"}
    rd = {n.attr for st in loop.body for n in ast.walk(st) if isinstance(n, ast.Attribute) and isinstance(n.ctx, ast.Load) and _norm(n.value) == "self"}
    carried += [f"self.{a}" for a in sorted(wr & rd)]
    return carried


_MUTATORS = {"append", "extend", "insert", "remove", "pop", "clear", "sort", "reverse", "update", "add", "discard", "setdefault",
             "popitem", "appendleft", "extendleft", "__setitem__", "__delitem__", "__iadd__", "__ior__"}
_FRESH_CALLS = {"list", "dict", "set", "sorted", "defaultdict", "deque", "OrderedDict", "bytearray"}


def _mutable_value(v: Optional[ast.AST]) -> bool:
    return isinstance(v, (ast.List, ast.Dict, ast.Set, ast.ListComp, ast.DictComp, ast.SetComp)) or (
        isinstance(v, ast.Call) and _norm(v.func).split(".")[-1] in _FRESH_CALLS)


def config_state(src: Path, ex: Any) -> dict:
    """State that outlives one `Config` object or one call (C19: a `Config` answers with what ITS OWN settings and ITS OWN last
    `create_sockets()` ask for).  A list / dict / set bound in the body of `class Config` is ONE object that every instance sees
    until the instance rebinds the name, so

      configMutableDefaults   the names the class body binds to a mutable value (information);
      configSharedMutations   (function, attribute): an in-place change (`.append` & co., `x.attr[k] = v`, `del x.attr[k]`,
                              `x.attr += …`, the same through a local alias `l = x.attr`) of an attribute with such a class-level
                              default, anywhere in the package, that is not dominated - an earlier statement of the same or an
                              enclosing block of the same function - by `x.attr = <fresh list/dict/set>` on the same receiver;
                              likewise a change of a mutable module-level name of config.py from inside a function
                              (`<module>.NAME`);
      configClassAccess       (function, attribute): attributes reached through the class from inside `Config`'s methods
                              (`Config.x`, `cls.x`, `type(self).x`, `self.__class__.x`) other than calling one of the class's
                              own methods - state kept there is shared by all instances;
      configMemoised          functions of config.py under `lru_cache` / `cache` / `cached_property`;
      quicAddressesReset      every store to / in-place change of `_quic_addresses` in the package sits in
                              `Config._set_quic_addresses`, whose first statement rebinds `self._quic_addresses` to a fresh EMPTY
                              list and which otherwise only `.append`s to it: the addresses are those of the sockets of THIS call.
    """
    out: dict = {"defaults": None, "shared": None, "cls": None, "memo": None, "reset": None}
    try:
        tree = ex.parse(src / "config.py")
    except Exception as e:
        ex.fail("configSharedMutations", f"config.py: {type(e).__name__}: {e}")
        return out
    cls = next((n for n in tree.body if isinstance(n, ast.ClassDef) and n.name == "Config"), None)
    if cls is None:
        ex.fail("configSharedMutations", "class Config not found")
        return out
    defaults: List[str] = []
    for st in cls.body:
        if isinstance(st, ast.Assign) and _mutable_value(st.value):
            defaults += [t.id for t in st.targets if isinstance(t, ast.Name)]
        elif isinstance(st, ast.AnnAssign) and isinstance(st.target, ast.Name) and _mutable_value(st.value):
            defaults.append(st.target.id)
    # a property over a mutable default (`bind` -> `_bind`) hands out the same object
    for st in cls.body:
        if isinstance(st, ast.FunctionDef) and any(_norm(d) == "property" for d in st.decorator_list):
            rets = [r for r in ast.walk(st) if isinstance(r, ast.Return) and isinstance(r.value, ast.Attribute)]
            if any(_norm(r.value.value) == "self" and r.value.attr in defaults for r in rets) and st.name not in defaults:
                defaults.append(st.name)
    out["defaults"] = sorted(set(defaults))
    module_mutables = sorted({t.id for st in tree.body if isinstance(st, ast.Assign) and _mutable_value(st.value)
                              for t in st.targets if isinstance(t, ast.Name)}
                             | {st.target.id for st in tree.body if isinstance(st, ast.AnnAssign) and isinstance(st.target, ast.Name)
                                and _mutable_value(st.value)})

    def attr_of(e: ast.AST) -> Optional[tuple]:
        """`<name>.<attr>` -> (name, attr)"""
        if isinstance(e, ast.Attribute) and isinstance(e.value, ast.Name):
            return (e.value.id, e.attr)
        return None

    def scan_function(fn: ast.AST, where: str, tracked: List[str], module_names: List[str], found: List[tuple]) -> None:
        local_names = {a.arg for a in fn.args.args + fn.args.kwonlyargs + fn.args.posonlyargs} | {
            n.id for n in ast.walk(fn) if isinstance(n, ast.Name) and isinstance(n.ctx, ast.Store)}
        globals_ = {g for n in ast.walk(fn) if isinstance(n, ast.Global) for g in n.names}
        local_names -= globals_

        def subject(e: ast.AST, rebound: set, alias: dict) -> Optional[tuple]:
            """the shared thing an expression denotes, when it is one and this function has not rebound it"""
            a = attr_of(e)
            if a is not None and a[1] in tracked:
                return None if a in rebound else a
            if isinstance(e, ast.Name):
                if e.id in alias:
                    return alias[e.id]
                if e.id in module_names and e.id not in local_names:
                    return ("<module>", e.id)
            return None

        def hit(t: Optional[tuple]) -> None:
            if t is not None:
                found.append((where, t[1] if t[0] != "<module>" else f"<module>.{t[1]}"))

        def exprs(node: ast.AST, rebound: set, alias: dict) -> None:
            for n in ast.walk(node):
                if isinstance(n, ast.Call) and isinstance(n.func, ast.Attribute) and n.func.attr in _MUTATORS:
                    hit(subject(n.func.value, rebound, alias))

        def block(stmts: List[ast.stmt], rebound: set, alias: dict) -> None:
            rebound, alias = set(rebound), dict(alias)
            for s in stmts:
                if isinstance(s, (ast.FunctionDef, ast.AsyncFunctionDef, ast.ClassDef)):
                    continue                                   # scanned on their own
                # header expressions / the whole simple statement
                if isinstance(s, (ast.If, ast.While)):
                    exprs(s.test, rebound, alias)
                elif isinstance(s, (ast.For, ast.AsyncFor)):
                    exprs(s.iter, rebound, alias)
                elif isinstance(s, (ast.With, ast.AsyncWith)):
                    for it in s.items:
                        exprs(it.context_expr, rebound, alias)
                elif isinstance(s, ast.Try) or (hasattr(ast, "TryStar") and isinstance(s, getattr(ast, "TryStar"))):
                    pass
                elif isinstance(s, ast.Match):
                    exprs(s.subject, rebound, alias)
                else:
                    exprs(s, rebound, alias)
                    targets: List[ast.AST] = []
                    if isinstance(s, ast.Assign):
                        targets = list(s.targets)
                    elif isinstance(s, (ast.AugAssign, ast.AnnAssign)):
                        targets = [s.target]
                    elif isinstance(s, ast.Delete):
                        targets = list(s.targets)
                    for t in targets:
                        for el in (t.elts if isinstance(t, (ast.Tuple, ast.List)) else [t]):
                            if isinstance(el, ast.Subscript):
                                hit(subject(el.value, rebound, alias))           # x.attr[k] = v / del x.attr[k]
                            elif isinstance(s, ast.AugAssign):
                                hit(subject(el, rebound, alias))                 # x.attr += [...] changes the shared object first
                    if isinstance(s, ast.Assign) and len(s.targets) == 1:
                        a = attr_of(s.targets[0])
                        if a is not None and a[1] in tracked:
                            reads_itself = any(attr_of(n) == a for n in ast.walk(s.value))
                            if _mutable_value(s.value) and not reads_itself:
                                rebound.add(a)
                            else:
                                rebound.discard(a)
                        if isinstance(s.targets[0], ast.Name):
                            sub = subject(s.value, rebound, alias)
                            if sub is not None:
                                alias[s.targets[0].id] = sub
                            else:
                                alias.pop(s.targets[0].id, None)
                # nested blocks see what is rebound so far; what they rebind does not reach the statements after them
                for name in ("body", "orelse", "finalbody"):
                    sub_b = getattr(s, name, None)
                    if isinstance(sub_b, list) and sub_b and isinstance(sub_b[0], ast.stmt):
                        block(sub_b, rebound, alias)
                for h in getattr(s, "handlers", []) or []:
                    block(h.body, rebound, alias)
                for c in getattr(s, "cases", []) or []:
                    block(c.body, rebound, alias)

        block(fn.body, set(), {})

    shared: List[tuple] = []
    try:
        for path in sorted(src.rglob("*.py")):
            rel = path.relative_to(src).as_posix()
            try:
                t = tree if rel == "config.py" else ast.parse(path.read_text())
            except SyntaxError as e:
                ex.fail("configSharedMutations", f"{rel}: {e}")
                continue

            def walk(node: ast.AST, qual: str) -> None:
                for ch in ast.iter_child_nodes(node):
                    if isinstance(ch, (ast.FunctionDef, ast.AsyncFunctionDef)):
                        name = f"{qual}.{ch.name}" if qual else ch.name
                        scan_function(ch, name if rel == "config.py" else f"{rel}:{name}", out["defaults"],
                                      module_mutables if rel == "config.py" else [], shared)
                        walk(ch, name)
                    elif isinstance(ch, ast.ClassDef):
                        walk(ch, f"{qual}.{ch.name}" if qual else ch.name)
                    else:
                        walk(ch, qual)
            walk(t, "")
        out["shared"] = sorted(set(shared))
    except Exception as e:
        ex.fail("configSharedMutations", f"{type(e).__name__}: {e}")

    # attributes reached through the class
    try:
        methods = {st.name for st in cls.body if isinstance(st, (ast.FunctionDef, ast.AsyncFunctionDef))}
        acc: List[tuple] = []
        for fn in [st for st in cls.body if isinstance(st, (ast.FunctionDef, ast.AsyncFunctionDef))]:
            is_cm = any(_norm(d) == "classmethod" for d in fn.decorator_list)
            first = fn.args.args[0].arg if fn.args.args else None
            called = {id(n.func) for n in ast.walk(fn) if isinstance(n, ast.Call)}
            for n in ast.walk(fn):
                if not isinstance(n, ast.Attribute):
                    continue
                base = _norm(n.value)
                through_class = base == "Config" or (is_cm and base == first) or (
                    first is not None and not is_cm and base in (f"type({first})", f"{first}.__class__"))
                if through_class and not (id(n) in called and n.attr in methods):
                    acc.append((f"Config.{fn.name}", n.attr))
        out["cls"] = sorted(set(acc))
    except Exception as e:
        ex.fail("configClassAccess", f"{type(e).__name__}: {e}")

    memo = []
    for n in ast.walk(tree):
        if isinstance(n, (ast.FunctionDef, ast.AsyncFunctionDef)):
            for d in n.decorator_list:
                dn = _norm(d.func if isinstance(d, ast.Call) else d).split(".")[-1]
                if dn in ("lru_cache", "cache", "cached_property"):
                    memo.append(n.name)
    out["memo"] = sorted(set(memo))

    # `_quic_addresses`: written in `_set_quic_addresses` only, which starts from a fresh empty list
    try:
        fn = next((st for st in cls.body if isinstance(st, ast.FunctionDef) and st.name == "_set_quic_addresses"), None)
        if fn is None:
            ex.fail("quicAddressesReset", "Config._set_quic_addresses not found")
        else:
            body = [st for st in fn.body if not (isinstance(st, ast.Expr) and isinstance(st.value, ast.Constant) and isinstance(st.value.value, str))]
            me = fn.args.args[0].arg if fn.args.args else "self"
            first_ok = bool(body) and isinstance(body[0], ast.Assign) and len(body[0].targets) == 1 and \
                attr_of(body[0].targets[0]) == (me, "_quic_addresses") and _norm(body[0].value) in ("[]", "list()")
            uses = [n for st in body[1:] for n in ast.walk(st) if isinstance(n, ast.Attribute) and n.attr == "_quic_addresses"]
            appends = [n for st in body[1:] for n in ast.walk(st) if isinstance(n, ast.Call) and isinstance(n.func, ast.Attribute)
                       and n.func.attr == "append" and attr_of(n.func.value) == (me, "_quic_addresses")]
            elsewhere = []
            for path in sorted(src.rglob("*.py")):
                t = tree if path == src / "config.py" else ast.parse(path.read_text())
                inside = {id(n) for n in ast.walk(fn)} if path == src / "config.py" else set()
                for n in ast.walk(t):
                    if id(n) in inside:
                        continue
                    if isinstance(n, ast.Attribute) and n.attr == "_quic_addresses" and isinstance(n.ctx, (ast.Store, ast.Del)):
                        elsewhere.append(path.name)
                    if isinstance(n, ast.Call) and isinstance(n.func, ast.Attribute) and n.func.attr in _MUTATORS and \
                            isinstance(n.func.value, ast.Attribute) and n.func.value.attr == "_quic_addresses":
                        elsewhere.append(path.name)
                    if isinstance(n, ast.Call) and _norm(n.func) in ("setattr", "object.__setattr__") and any(
                            isinstance(a, ast.Constant) and a.value == "_quic_addresses" for a in n.args):
                        elsewhere.append(path.name)
            shape_a = first_ok and len(uses) == len(appends)
            # the other spelling: the list is built in a local (or a comprehension) and bound to the attribute once, unconditionally
            all_uses = [n for st in body for n in ast.walk(st) if isinstance(n, ast.Attribute) and n.attr == "_quic_addresses"]
            top_stores = [st for st in body if isinstance(st, ast.Assign) and len(st.targets) == 1 and attr_of(st.targets[0]) == (me, "_quic_addresses")]
            fresh_locals = {st.targets[0].id for st in body if isinstance(st, ast.Assign) and len(st.targets) == 1
                            and isinstance(st.targets[0], ast.Name) and _mutable_value(st.value)
                            and not any(isinstance(n, ast.Attribute) and n.attr == "_quic_addresses" for n in ast.walk(st.value))}
            fresh_locals |= {st.target.id for st in body if isinstance(st, ast.AnnAssign) and isinstance(st.target, ast.Name)
                             and _mutable_value(st.value)}
            params = {a.arg for a in fn.args.args + fn.args.kwonlyargs}
            shape_b = len(top_stores) == 1 and len(all_uses) == 1 and (
                (_mutable_value(top_stores[0].value) and not isinstance(top_stores[0].value, ast.Call))
                or (isinstance(top_stores[0].value, ast.Name) and top_stores[0].value.id in fresh_locals - params))
            out["reset"] = bool((shape_a or shape_b) and not elsewhere)
    except Exception as e:
        ex.fail("quicAddressesReset", f"{type(e).__name__}: {e}")
    return out


def _config_state_file(cs: dict, ex: Any) -> str:
    def pairs(l: Optional[list]) -> str:
        return "[" + ", ".join(f"({ex.q(a)}, {ex.q(b)})" for a, b in (l if l is not None else [("?", "?")])) + "]"
    return "\n".join([
        "/- GENERATED by tools/extract.py (tools/extract_pure.py) — state of config.py that outlives one Config object or one call — do not edit -/",
        "namespace HC.Extracted.ConfigState",
        "",
        "/-- names the body of `class Config` binds to a mutable value (one object shared by all instances until an instance rebinds",
        "    the name), and the properties that hand such an object out -/",
        "def configMutableDefaults : List String := [" + ", ".join(ex.q(k) for k in (cs["defaults"] or [])) + "]",
        "/-- (function, attribute): in-place changes of such an attribute (or of a mutable module-level name of config.py) that are not",
        "    dominated, in the same function, by a rebinding of the attribute on the same receiver to a fresh value (`?` = not read) -/",
        "def configSharedMutations : List (String × String) := " + pairs(cs["shared"]),
        "/-- (function, attribute): attributes reached through the class (`Config.x`, `cls.x`, `type(self).x`, `self.__class__.x`) from",
        "    inside `Config`'s methods, other than calls of the class's own methods -/",
        "def configClassAccess : List (String × String) := " + pairs(cs["cls"]),
        "/-- functions of config.py under `lru_cache` / `cache` / `cached_property` -/",
        "def configMemoised : List String := [" + ", ".join(ex.q(k) for k in (cs["memo"] if cs["memo"] is not None else ["?"])) + "]",
        "/-- every write to `_quic_addresses` sits in `Config._set_quic_addresses`, which first rebinds `self._quic_addresses` to a fresh",
        "    empty list and then only appends to it -/",
        "def quicAddressesReset : Bool := " + ("true" if cs["reset"] else "false"),
        "",
        "end HC.Extracted.ConfigState",
        ""])


def redirect_path_source(src: Path, ex: Any) -> Optional[str]:
    fn = ex.find_def(ex.parse(src / "middleware" / "http_to_https.py"), "HTTPToHTTPSRedirectMiddleware", "_new_url")
    if fn is None:
        ex.fail("redirectPathSource", "HTTPToHTTPSRedirectMiddleware._new_url not found")
        return None
    paths = [s for s in ast.walk(fn) if isinstance(s, ast.Assign) and _norm(s.targets[0]) == "path"]
    rets = [s for s in ast.walk(fn) if isinstance(s, ast.Return)]
    if len(paths) != 1 or len(rets) != 1:
        ex.fail("redirectPathSource", "_new_url: expected one `path = …` and one return")
        return None
    if _norm(rets[0].value) != "urlunsplit((scheme, host, path, scope['query_string'].decode(), ''))":
        ex.fail("redirectPathSource", f"_new_url returns `{_norm(rets[0].value)}`")
        return None
    v = paths[0].value
    if not (isinstance(v, ast.BinOp) and isinstance(v.op, ast.Add) and _norm(v.left) == "scope.get('root_path', '')"):
        ex.fail("redirectPathSource", f"`path = {_norm(v)}` is not root_path + <request path>")
        return None
    right = _norm(v.right)
    if right == "scope['raw_path'].decode()":
        return "rawPath"
    if right in ("scope['path']", "scope.get('path')", "scope.get('path', '')"):
        return "path"
    ex.fail("redirectPathSource", f"unrecognised path component `{right}`")
    return None


def _file(doc: str, decl: str, line: Optional[str], ns: str) -> str:
    out = [f"/- GENERATED by tools/extract.py (tools/extract_pure.py) — {doc} — do not edit -/",
           f"namespace HC.Extracted.{ns}", "", decl, "deriving Repr, DecidableEq", ""]
    if line is not None:
        out.append(line)
    out += ["", f"end HC.Extracted.{ns}", ""]
    return "\n".join(out)


def run(src: Path, ex: Any) -> dict:
    """module name (= EXTRACT-FAIL tag) -> Lean text; one module per property so that a failure only breaks its own tie"""
    files = {}
    ex.CURRENT[0] = "WsgiSites"
    b = wsgi_body_binding(src, ex)
    cs = call_soon_waits(src, ex)
    files["WsgiSites"] = _file(
        "what WSGIWrapper.run_app (app_wrappers.py) iterates and closes",
        "/-- the object the application returned, or `iter()` of it taken before the `try` -/\ninductive BodyBinding | returned | iterOf",
        None if b is None or cs is None else
        f"def wsgiBodyBinding : BodyBinding := .{b}\n\n"
        "/-- `call_soon(send, message)` returns only after the send completed (asyncio/task_group.py, trio/task_group.py) -/\n"
        f"def asyncioCallSoonWaits : Bool := {str(cs['asyncio']).lower()}\n"
        f"def trioCallSoonWaits : Bool := {str(cs['trio']).lower()}\n"
        "/-- the same for the pair `AsyncioWSGIMiddleware` / `TrioWSGIMiddleware` (middleware/wsgi.py) hand to WSGIWrapper -/\n"
        f"def asyncioMiddlewareCallSoonWaits : Bool := {str(cs['asyncioMiddleware']).lower()}\n"
        f"def trioMiddlewareCallSoonWaits : Bool := {str(cs['trioMiddleware']).lower()}", "WsgiSites")
    # the codecs of `_build_environ` (always written: an unrecognised site is `.other "?"` + an EXTRACT-FAIL line)
    ec = environ_codecs(src, ex)
    files["WsgiSites"] = files["WsgiSites"].replace("\nend HC.Extracted.WsgiSites\n", "\n".join([
        "",
        "/-- a text encoding, as the codec registry names it (`latin1` = iso8859-1 and its aliases, …) -/",
        "inductive Codec | latin1 | utf8 | ascii | other (name : String)",
        "deriving Repr, DecidableEq",
        "/-- `raw.decode(codec, errors)`; `fallback`: the call sits in `try: … except UnicodeDecodeError: raw.decode(fallback)` -/",
        "structure Decode where\n  codec : Codec\n  errors : Option String\n  fallback : Option Codec",
        "deriving Repr, DecidableEq",
        "/-- `text.encode(encode).decode(decode)` (both strict) -/",
        "structure Transcode where\n  encode : Codec\n  decode : Codec",
        "deriving Repr, DecidableEq",
        "/-- `value = raw_value.decode(…)` in the header loop of `_build_environ` -/",
        f"def environHeaderValueDecode : Decode := {ec['environHeaderValueDecode']}",
        "/-- `name = raw_name.decode(…)` in the header loop of `_build_environ` -/",
        f"def environHeaderNameDecode : Decode := {ec['environHeaderNameDecode']}",
        "/-- `QUERY_STRING` -/",
        f"def environQueryDecode : Decode := {ec['environQueryDecode']}",
        "/-- `PATH_INFO` / `SCRIPT_NAME` -/",
        f"def environPathTranscode : Transcode := {ec['environPathTranscode']}",
        f"def environScriptNameTranscode : Transcode := {ec['environScriptNameTranscode']}",
        "", "end HC.Extracted.WsgiSites", ""]))
    ex.CURRENT[0] = "ConfigSites"
    f = from_object_filter(src, ex)
    files["ConfigSites"] = _file(
        "the attribute filter of Config.from_object (config.py)",
        "/-- one conjunct of the filter -/\ninductive ObjClause | notModule | notDunder | notCallable",
        None if f is None else f"def fromObjectFilter : List ObjClause := [{', '.join('.' + c for c in f)}]", "ConfigSites")
    g = from_mapping_guards(src, ex)
    rk = config_key_readability(src, ex)
    fam = inet_family_test(src, ex)
    car = create_sockets_carried(src, ex)
    # always written (an unrecognised shape as `.unrecognised` / `[]` / `false` + an EXTRACT-FAIL line), so that only C19's tie breaks
    # and the models of the other properties (which import HC.Pure.Config for the response headers) still build
    more = ["",
            "/-- a statement of `Config.from_mapping`'s loop, in front of `try: setattr(config, key, value) except AttributeError: pass`,",
            "    that skips keys: `.readable` = `if not hasattr(config, key): continue`; `.unrecognised` = a loop this extractor cannot read -/",
            "inductive MapClause | readable | unrecognised",
            "deriving Repr, DecidableEq",
            f"def fromMappingGuards : List MapClause := [{', '.join('.' + c for c in (g if g is not None else ['unrecognised']))}]",
            "/-- names bound in the body of `class Config` that a fresh instance can read (`hasattr` is true) -/",
            "def readableKeys : List String := [" + ", ".join(ex.q(k) for k in (rk[0] if rk is not None else [])) + "]",
            "/-- names declared there that cannot be read: annotated without a value, or a property without a getter -/",
            "def unreadableKeys : List String := [" + ", ".join(ex.q(k) for k in (rk[1] if rk is not None else [])) + "]",
            "set_option linter.unusedVariables false in",
            "/-- the test of `socket.socket(socket.AF_INET6 if … else socket.AF_INET, type_)` in `Config._create_sockets`:",
            "    `bind0` = the bind string as given, `bind` = with the brackets removed, `host` = the parsed host"
            + ("" if fam is not None else " (NOT RECOGNISED in the current source)") + " -/",
            f"def inetIsV6 (bind0 bind host : List Char) : Bool :=\n  {fam if fam is not None else 'false'}",
            "/-- the locals of `Config._create_sockets` whose value can reach an iteration of `for bind in binds:` from an earlier iteration",
            "    or from in front of the loop (read where this iteration has not bound them on every path; `?` = a loop that is not read) -/",
            "def createSocketsCarried : List String := [" + ", ".join(ex.q(k) for k in (car if car is not None else ["?"])) + "]"]
    files["ConfigSites"] = files["ConfigSites"].replace("\nend HC.Extracted.ConfigSites\n", "\n".join(more + ["", "end HC.Extracted.ConfigSites", ""]))
    # C19: state of config.py that outlives one Config object or one call (a module and a tag of its own: HC/Pure/Config.lean,
    # which many properties import for the response headers, does not depend on it)
    ex.CURRENT[0] = "ConfigState"
    files["ConfigState"] = _config_state_file(config_state(src, ex), ex)
    ex.CURRENT[0] = "RedirectSites"
    p = redirect_path_source(src, ex)
    files["RedirectSites"] = _file(
        "the scope key HTTPToHTTPSRedirectMiddleware._new_url (middleware/http_to_https.py) takes the path from",
        "/-- `raw_path` (the request target as sent) or `path` (its percent-decoded form) -/\ninductive PathSource | rawPath | path",
        None if p is None else f"def redirectPathSource : PathSource := .{p}", "RedirectSites")
    return files
