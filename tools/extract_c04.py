"""C04 part of the translator (called from tools/extract.py, which passes itself as `x` for `parse`, `find_def`, `fold`,
`fail`, `q`): per-`try` exception sites of the receive-side glue, the guards that keep `_create_stream`'s locals bound,
the HTTP/1 error-path constants, and the class hierarchy of the installed libraries' exceptions.
Writes HC/Extracted/C04Sites.lean.  stdlib `ast` only for hypercorn; the third-party libraries are imported (they are
data here, exactly as for H11Tables)."""
from __future__ import annotations

import ast
import re
from pathlib import Path
from typing import List, Optional


def _try_body_src(t: ast.Try) -> str:
    """source of the statements a `try` protects (nested `try` statements contribute their whole text)"""
    return "\n".join(ast.unparse(s) for s in t.body) + "\n"


def _find_try(fn: ast.AST, needle: str) -> Optional[ast.Try]:
    """the innermost `try` whose protected body mentions `needle`"""
    best: Optional[ast.Try] = None
    for n in ast.walk(fn):
        if isinstance(n, ast.Try) and needle in _try_body_src(n):
            if best is None or len(_try_body_src(n)) < len(_try_body_src(best)):
                best = n
    return best


_IMPORTS: dict = {}


def _qual(e: ast.AST, tree: ast.AST) -> str:
    """class name qualified by the top-level package it comes from (`h2.ProtocolError`, `priority.MissingStreamError`,
    `wsproto.LocalProtocolError`); builtins and hypercorn's own classes stay bare"""
    text = ast.unparse(e)
    if "." in text:
        return text.split(".")[0] + "." + text.split(".")[-1]
    imports = _IMPORTS.get(id(tree))
    if imports is None:
        imports = {}
        for n in ast.walk(tree):
            if isinstance(n, ast.ImportFrom) and n.module and n.level == 0:
                for a in n.names:
                    imports[a.asname or a.name] = n.module.split(".")[0]
        _IMPORTS[id(tree)] = imports
    return f"{imports[text]}.{text}" if text in imports else text


def _handler_names(t: ast.Try, tree: ast.AST) -> List[List[str]]:
    out = []
    for h in t.handlers:
        if h.type is None:
            out.append(["BaseException"])
            continue
        ts = h.type.elts if isinstance(h.type, ast.Tuple) else [h.type]
        out.append([_qual(e, tree) for e in ts])
    return out


_PARTIAL_CALLS = {"split_comma_header": "ascii", "int": "int", "float": "float", "b64decode": "base64", "urlsafe_b64decode": "base64"}
_FIELDS = {"method": "method", "target": "target", "raw_path": "target", "path": "target", "http_version": "version"}


def _root(e: ast.AST) -> ast.AST:
    """`value.lower().strip()` -> `value`; `request.method` stays"""
    while True:
        if isinstance(e, ast.Call) and isinstance(e.func, ast.Attribute):
            e = e.func.value
        elif isinstance(e, ast.Subscript):
            e = e.value
        else:
            return e


def _operand_class(e: ast.AST) -> str:
    r = _root(e)
    if isinstance(r, ast.Attribute) and r.attr in _FIELDS:
        return _FIELDS[r.attr]
    if isinstance(r, ast.Name):
        if r.id in ("name", "sanitised_name"):
            return "headerName"
        if r.id == "value":
            return "headerValue"
        if r.id in _FIELDS:
            return _FIELDS[r.id]
    return "unknown:" + ast.unparse(e)


def _header_guard(chain: List[ast.AST]) -> str:
    """the header a `value` belongs to: the innermost enclosing `if <name expr> == "<x>"` / `b"<x>"` (else "*" = any header)"""
    for n, child in reversed(chain):
        if isinstance(n, ast.If) and child in n.body:
            t = n.test
            if isinstance(t, ast.Compare) and len(t.ops) == 1 and isinstance(t.ops[0], ast.Eq) and isinstance(t.comparators[0], ast.Constant) \
                    and "name" in ast.unparse(t.left):
                c = t.comparators[0].value
                return (c.decode("latin1") if isinstance(c, bytes) else str(c)).lower()
    return "*"


def _decode_sites(fn: ast.AST, where: str, tree: ast.AST) -> List[tuple]:
    rows: List[tuple] = []

    def visit(n: ast.AST, chain: List[tuple], caught: List[str]) -> None:
        if isinstance(n, (ast.FunctionDef, ast.AsyncFunctionDef, ast.Lambda)) and n is not fn:
            return
        if isinstance(n, ast.Call):
            site = None
            if isinstance(n.func, ast.Attribute) and n.func.attr == "decode":
                codec = "utf-8"
                if n.args and isinstance(n.args[0], ast.Constant):
                    codec = str(n.args[0].value)
                elif n.args or n.keywords:
                    codec = "?" + ast.unparse(n)
                site = (n.func.value, codec.lower().replace("_", "-"))
            else:
                fname = n.func.attr if isinstance(n.func, ast.Attribute) else (n.func.id if isinstance(n.func, ast.Name) else "")
                if fname in _PARTIAL_CALLS and n.args:
                    site = (n.args[0], _PARTIAL_CALLS[fname])
            if site is not None:
                cls = _operand_class(site[0])
                rows.append((where, cls, _header_guard(chain) if cls == "headerValue" else "", site[1], list(caught)))
        if isinstance(n, ast.Try):
            names = [x for h in _handler_names(n, tree) for x in h]
            for s in n.body:
                visit(s, chain + [(n, s)], caught + names)
            for part in (n.handlers, n.orelse, n.finalbody):
                for s in part:
                    visit(s, chain + [(n, s)], caught)
            return
        for c in ast.iter_child_nodes(n):
            top = c
            visit(c, chain + [(n, top)], caught)

    visit(fn, [], [])
    return rows



def run(src: Path, x) -> str:
    q, fail, parse, find_def, fold = x.q, x.fail, x.parse, x.find_def, x.fold
    out = ["/- GENERATED by tools/extract.py (tools/extract_c04.py) — C04: exception classes caught per `try` site of the",
           "   receive-side glue, the guards that keep `_create_stream`'s locals bound, the HTTP/1 error-path constants and the",
           "   class hierarchy of the installed libraries' exceptions — do not edit -/", "namespace HC.Extracted.C04Sites"]
    emit = out.append

    h2 = parse(src / "protocol" / "h2.py")
    h11 = parse(src / "protocol" / "h11.py")
    ws = parse(src / "protocol" / "ws_stream.py")
    utils = parse(src / "utils.py")
    sites = [
        # lean name, tree, def path, needle in the protected body, rel (for messages)
        ("h2Handle", h2, ("H2Protocol", "handle"), "receive_data(", "protocol/h2.py"),
        ("h2EventsTerminated", h2, ("H2Protocol", "_handle_events"), "reset_stream(", "protocol/h2.py"),
        ("h2EventsData", h2, ("H2Protocol", "_handle_events"), ".handle(Body(", "protocol/h2.py"),
        ("h2EventsEnded", h2, ("H2Protocol", "_handle_events"), ".handle(EndBody(", "protocol/h2.py"),
        ("h2PrioReprioritize", h2, ("H2Protocol", "_priority_updated"), "reprioritize(", "protocol/h2.py"),
        ("h2CreateDecode", h2, ("H2Protocol", "_create_stream"), ".decode('ascii')", "protocol/h2.py"),
        ("h2CreateRefuse", h2, ("H2Protocol", "_create_stream"), "reset_stream(", "protocol/h2.py"),
        ("h2ErrorResponse", h2, ("H2Protocol", "_send_error_response"), "send_headers(", "protocol/h2.py"),
        ("h2StreamSend", h2, ("H2Protocol", "stream_send"), "send_headers(", "protocol/h2.py"),
        ("h2SendTaskNext", h2, ("H2Protocol", "send_task"), "next(self.priority)", "protocol/h2.py"),
        ("h2SendData", h2, ("H2Protocol", "_send_data"), "local_flow_control_window(", "protocol/h2.py"),
        ("h2SendDataCleanup", h2, ("H2Protocol", "_send_data"), "remove_stream(stream_id)\n", "protocol/h2.py"),
        ("h2AbandonReset", h2, ("H2Protocol", "_reset_abandoned_response"), "reset_stream(", "protocol/h2.py"),
        ("h2AbandonRemove", h2, ("H2Protocol", "_reset_abandoned_response"), "remove_stream(", "protocol/h2.py"),
        ("h2PushPromise", h2, ("H2Protocol", "_create_server_push"), "push_stream(", "protocol/h2.py"),
        ("h11NextEvent", h11, ("H11Protocol", "_handle_events"), "next_event()", "protocol/h11.py"),
        ("h11SendEvent", h11, ("H11Protocol", "_send_h11_event"), "self.connection.send(", "protocol/h11.py"),
        ("wsBufferExtend", ws, ("WSStream", "_handle_events"), "self.buffer.extend(", "protocol/ws_stream.py"),
        ("wsSendEvent", ws, ("WSStream", "_send_wsproto_event"), "self.connection.send(", "protocol/ws_stream.py"),
        ("wsHandshakeSplit", ws, ("Handshake", "__init__"), "split_comma_header(", "protocol/ws_stream.py"),
        ("utilsHostDecode", utils, ("valid_server_name",), ".decode()", "utils.py"),
    ]
    for lean, tree, path, needle, rel in sites:
        try:
            fn = find_def(tree, *path)
            if fn is None:
                fail(f"c04 site {lean}", f"{rel}:{'.'.join(path)} not found")
                continue
            t = _find_try(fn, needle)
            if t is None:
                # no `try` protects this call: nothing is caught there
                emit(f"def {lean} : List String := []   -- no `try` around `{needle.strip()}` in {rel}:{'.'.join(path)}")
                continue
            flat = [n for h in _handler_names(t, tree) for n in h]
            emit(f"def {lean} : List String := [" + ", ".join(q(n) for n in flat) + f"]   -- {rel}:{'.'.join(path)}")
        except Exception as e:
            fail(f"c04 site {lean}", str(e))

    # the two-level `try` of `_priority_updated`: what the outer one catches around the reprioritize / insert_stream fallback
    try:
        fn = find_def(h2, "H2Protocol", "_priority_updated")
        outer = None
        for n in ast.walk(fn):
            if isinstance(n, ast.Try) and any(isinstance(s, ast.Try) for s in n.body):
                outer = n
        emit("def h2PrioOuter : List String := [" + (", ".join(q(n) for h in _handler_names(outer, h2) for n in h) if outer is not None else "")
             + "]   -- the `try` around the reprioritize/insert_stream fallback of `_priority_updated`")
    except Exception as e:
        fail("c04 site h2PrioOuter", str(e))

    # `_create_stream`
    try:
        fn = find_def(h2, "H2Protocol", "_create_stream")
        t = _find_try(fn, "insert_stream(")
        passes: List[str] = []
        refuses: List[str] = []
        if t is not None:
            for h, names in zip(t.handlers, _handler_names(t, h2)):
                returns = any(isinstance(s, ast.Return) for s in ast.walk(h))
                (refuses if returns else passes).extend(names)
        emit("def h2CreateInsertPass : List String := [" + ", ".join(q(n) for n in passes) + "]   -- caught, the stream is created anyway")
        emit("def h2CreateInsertRefuse : List String := [" + ", ".join(q(n) for n in refuses) + "]   -- caught, the stream is refused (handler returns)")
        stmts = list(fn.body)
        idx_try = next((i for i, s in enumerate(stmts) if s is t), None)
        idx_streams = next((i for i, s in enumerate(stmts) if "self.streams[request.stream_id] =" in ast.unparse(s)), None)
        first = idx_try is not None and idx_streams is not None and idx_try < idx_streams
        emit(f"def h2CreateInsertFirst : Bool := {'true' if first else 'false'}   -- the tree is entered before any stream object exists")
        pre = [s for s in stmts if isinstance(s, (ast.Assign, ast.AnnAssign))
               and "raw_path" in ast.unparse(s.targets[0] if isinstance(s, ast.Assign) else s.target)
               and getattr(s, "value", None) is not None and ast.unparse(s.value) == "None"]
        guard = [s for s in stmts if isinstance(s, ast.If) and ast.unparse(s.test) == "raw_path is None"
                 and any(isinstance(y, ast.Return) for y in ast.walk(s))]
        emit(f"def h2CreatePathDefault : Bool := {'true' if pre else 'false'}   -- `raw_path = None` before the header loop")
        emit(f"def h2CreatePathGuard : Bool := {'true' if guard else 'false'}   -- `if raw_path is None: <answer>; return`")
        answers = bool(guard) and "_send_error_response" in ast.unparse(guard[0])
        emit(f"def h2CreatePathGuardAnswers : Bool := {'true' if answers else 'false'}")
        td = _find_try(fn, ".decode('ascii')")
        body = _try_body_src(td) if td is not None else ""
        checks_path = bool(re.search(r"raw_path = value\s*\n\s*value\.decode\('ascii'\)", body)) or "raw_path.decode('ascii')" in body
        emit(f"def h2CreateDecodeChecksPath : Bool := {'true' if checks_path else 'false'}   -- the path is ASCII-checked where the method is decoded")
        returns = td is not None and all(any(isinstance(y, ast.Return) for y in ast.walk(h)) for h in td.handlers)
        emit(f"def h2CreateDecodeReturns : Bool := {'true' if returns else 'false'}")
    except Exception as e:
        fail("c04 h2 create_stream", str(e))

    # `initiate`: the send task exists before the (h2c) upgrade request is given to a stream (F82), and a stream that has already
    # answered and closed is not looked up with `[]`
    try:
        fn = find_def(h2, "H2Protocol", "initiate")
        stmts = list(fn.body)
        idx_spawn = next((i for i, x in enumerate(stmts) if "spawn(self.send_task)" in ast.unparse(x)), None)
        idx_create = next((i for i, x in enumerate(stmts) if "_create_stream(" in ast.unparse(x)), None)
        if idx_spawn is None or idx_create is None:
            fail("c04 h2 initiate", "spawn(self.send_task) / _create_stream( not found at the top level of initiate")
        else:
            emit(f"def h2InitiateSpawnFirst : Bool := {'true' if idx_spawn < idx_create else 'false'}   -- `spawn(self.send_task)` precedes `_create_stream(event)`")
            unguarded = "self.streams[event.stream_id]" in ast.unparse(fn)
            emit(f"def h2InitiateStreamLookupGuarded : Bool := {'false' if unguarded else 'true'}   -- no `self.streams[…]` subscript after `_create_stream`")
    except Exception as e:
        fail("c04 h2 initiate", str(e))

    # HTTP/1 error path
    try:
        fn = find_def(h11, "H11Protocol", "_handle_events")
        states = None
        for n in ast.walk(fn):
            if isinstance(n, ast.Compare) and "our_state" in ast.unparse(n.left) and isinstance(n.ops[0], ast.In):
                states = [ast.unparse(e).split(".")[-1] for e in n.comparators[0].elts]
        if states is None:
            fail("c04 h11 error states", "`our_state in {…}` not found")
        else:
            emit("def h11ErrorStates : List String := [" + ", ".join(q(s) for s in states) + "]")
        fe = find_def(h11, "H11Protocol", "_send_error_response")
        hdrs = None
        for n in ast.walk(fe):
            if isinstance(n, ast.List) and n.elts and all(isinstance(e, ast.Tuple) for e in n.elts):
                hdrs = [(fold(e.elts[0], {}), fold(e.elts[1], {})) for e in n.elts]
                break
        if hdrs is None:
            fail("c04 h11 error headers", "literal header list not found")
        else:
            emit("def h11ErrorHeaders : List (String × String) := [" + ", ".join(f"({q(a.decode())}, {q(b.decode())})" for a, b in hdrs) + "]")
        emit(f"def h11ErrorSendsEom : Bool := {'true' if 'EndOfMessage' in ast.unparse(fe) else 'false'}")
    except Exception as e:
        fail("c04 h11 error path", str(e))

    # WSStream.handle: data before the handshake was accepted is answered (400) only in this state
    try:
        fn = find_def(ws, "WSStream", "handle")
        st = None
        for n in ast.walk(fn):
            if isinstance(n, ast.If) and "not self.handshake.accepted" in ast.unparse(n.test):
                inner = [m for s in n.body for m in ast.walk(s) if isinstance(m, ast.If) and "self.state ==" in ast.unparse(m.test)
                         and "_send_error_response(400)" in ast.unparse(m)]
                if inner:
                    st = ast.unparse(inner[0].test).split(".")[-1]
                elif "_send_error_response(400)" in "\n".join(ast.unparse(s) for s in n.body):
                    st = "*"
                break
        if st is None:
            fail("c04 ws early data", "branch `… and not self.handshake.accepted` not found")
        else:
            emit(f"def wsEarlyDataAnsweredIn : String := {q(st)}   -- \"*\" = in every state")
    except Exception as e:
        fail("c04 ws early data", str(e))

    # WSStream: every answer to the handshake changes the state BEFORE its first await (data arriving whilst the answer is being
    # written is then ignored by `handle`): the 500 of a finished application (F98), the head of a rejection (F99), close -> 403,
    # accept -> 101.  What is extracted per site: the index of the state assignment vs the index of the first send, in the block.
    try:
        def order(block, assign_to: str, send_needle: str):
            ia = isend = None
            for k, stt in enumerate(block):
                txt = ast.unparse(stt)
                if ia is None and isinstance(stt, ast.Assign) and txt.replace(" ", "").startswith("self.state=") and txt.endswith(assign_to):
                    ia = k
                if isend is None and send_needle in txt and "await" in txt:
                    isend = k
            return ia, isend

        def state_first(fn_name: str, cond_needle: str, assign_to: str, send_needle: str, tag: str, outer_needle: str = ""):
            fn = find_def(ws, "WSStream", fn_name)
            for n in ast.walk(fn):
                if isinstance(n, ast.If) and cond_needle in ast.unparse(n.test):
                    if outer_needle and outer_needle not in ast.unparse(n):
                        continue
                    ia, isend = order(n.body, assign_to, send_needle)
                    if isend is None:
                        continue
                    return "true" if (ia is not None and ia < isend) else "false"
            fail(tag, f"`if …{cond_needle}…:` with `{send_needle}` not found in {fn_name}")
            return None

        r = state_first("app_send", "ASGIWebsocketState.HANDSHAKE", "ASGIWebsocketState.HTTPCLOSED", "_send_error_response(500)", "c04 ws exit 500 order")
        if r is not None:
            emit(f"def wsExit500StateFirst : Bool := {r}   -- `self.state = HTTPCLOSED` precedes `await self._send_error_response(500)` in app_send(None)")
        r = state_first("_send_rejection", "ASGIWebsocketState.HANDSHAKE", "ASGIWebsocketState.RESPONSE", "self.send(", "c04 ws rejection order")
        if r is not None:
            emit(f"def wsRejectionStateBeforeHead : Bool := {r}   -- `self.state = RESPONSE` precedes `await self.send(Response(…))` in _send_rejection")
        r = state_first("app_send", "'websocket.close' and self.state == ASGIWebsocketState.HANDSHAKE", "ASGIWebsocketState.HTTPCLOSED",
                        "_send_error_response(403)", "c04 ws close 403 order")
        if r is not None:
            emit(f"def wsClose403StateFirst : Bool := {r}   -- `self.state = HTTPCLOSED` precedes `await self._send_error_response(403)`")
        fn = find_def(ws, "WSStream", "_accept")
        ia, isend = order(fn.body, "ASGIWebsocketState.CONNECTED", "self.send(")
        if isend is None:
            fail("c04 ws accept order", "`await self.send(` not found in _accept")
        else:
            emit(f"def wsAcceptStateFirst : Bool := {'true' if (ia is not None and ia < isend) else 'false'}   -- `self.state = CONNECTED` precedes `await self.send(Response(…))` in _accept")
    except Exception as e:
        fail("c04 ws answer order", str(e))

    # HTTP/1 reader path: every call that turns client-controlled bytes into text / numbers (`.decode(...)`, `split_comma_header`,
    # `int(...)`, base64) in the functions that run inside `H11Protocol._handle_events` before a stream object takes over, with the
    # codec, what it is applied to (request line field / header name / value of which header) and what the enclosing `try`s catch.
    try:
        rows = []
        for cls, fname in (("H11Protocol", "_handle_events"), ("H11Protocol", "_create_stream"), ("H11Protocol", "_check_protocol"),
                           ("H2CProtocolRequiredError", "__init__")):
            fn = find_def(h11, cls, fname)
            if fn is None:
                fail("c04 h11 decode sites", f"protocol/h11.py:{cls}.{fname} not found")
                continue
            rows += _decode_sites(fn, f"{cls}.{fname}", h11)
        emit("/-- (function, operand class, header the value belongs to or \"*\", codec / partial function, classes caught around it) -/")
        emit("def h11ReaderDecodes : List (String × String × String × String × List String) := [\n" + ",\n".join(
            f"  ({q(a)}, {q(b)}, {q(c)}, {q(d)}, [" + ", ".join(q(n) for n in e) + "])" for a, b, c, d, e in rows) + "]")
    except Exception as e:
        fail("c04 h11 decode sites", str(e))

    # class hierarchy of the exceptions involved, from the installed libraries
    try:
        import builtins
        import h2
        import h2.exceptions as h2x
        import h11 as h11lib
        import priority as prio
        import wsproto.utilities as wsu
        def qn(c) -> str:
            top = c.__module__.split(".")[0]
            return c.__name__ if top == "builtins" else f"{top}.{c.__name__}"

        classes = []
        for mod in (h2x, prio):
            for k, v in vars(mod).items():
                if isinstance(v, type) and issubclass(v, BaseException) and v.__module__ == mod.__name__ or (
                        isinstance(v, type) and issubclass(v, BaseException) and v.__module__.startswith(mod.__name__ + ".")):
                    classes.append(v)
        classes += [h11lib.LocalProtocolError, h11lib.RemoteProtocolError, wsu.LocalProtocolError]
        for k in ("KeyError", "UnboundLocalError", "UnicodeDecodeError", "AttributeError", "TypeError", "RecursionError", "ValueError", "IndexError"):
            classes.append(getattr(builtins, k))
        rows = []
        seen = set()
        for c in sorted(classes, key=qn):
            if qn(c) in seen:
                continue
            seen.add(qn(c))
            mro = [qn(b) for b in c.__mro__ if b is not object]
            rows.append(f"  ({q(qn(c))}, [" + ", ".join(q(n) for n in mro) + "])")
        emit("def classMro : List (String × List String) := [\n" + ",\n".join(rows) + "]")
        emit(f"def h2Version : String := {q(h2.__version__)}")
    except Exception as e:
        fail("c04 class hierarchy", str(e))
    out += ["end HC.Extracted.C04Sites", ""]
    return "\n".join(out)
