#!/venv/bin/python
"""Which lines of hypercorn does the correspondence part of each check actually execute?  (development tool, not a registered check)

  tools/coverage_map.py [--tier quick] [--par 6] [IDs ...]

Runs `./check <ID> --no-lean` for every claimed property under coverage.py (line coverage of $VERIF_REPO/src/hypercorn, default
/repo), the sessions that run in forked children included (coverage.py's `patch = _exit`), and writes

  coverage_map.json      per source file: statements, lines no check executed, and per property the number of statements executed
  design_notes/_coverage.md   the same as a table for DESIGN.md section 10

Evidence files are not touched (VERIF_EVIDENCE_DIR points the runs at a scratch directory).  A line no check executes is a line
where a changed behaviour can only be seen by the translator (tools/extract*.py), never by the differential runs: the table is the
measured form of "which parts of the code the tie reaches"."""
from __future__ import annotations

import json
import os
import shutil
import subprocess
import sys
from concurrent.futures import ThreadPoolExecutor
from pathlib import Path

VERIF = Path(__file__).resolve().parents[1]
REPO = Path(os.environ.get("VERIF_REPO", "/repo"))
SRC = REPO / "src" / "hypercorn"
SCRATCH = VERIF / ".run" / "cov"
PY = "/venv/bin/python"
OUTSIDE = ("protocol/h3.py", "protocol/quic.py", "asyncio/udp_server.py", "trio/udp_server.py", "statsd.py", "asyncio/statsd.py", "trio/statsd.py")


def main() -> int:
    a = sys.argv[1:]
    tier, par = "quick", 6
    if "--tier" in a:
        i = a.index("--tier"); tier = a[i + 1]; del a[i:i + 2]
    if "--par" in a:
        i = a.index("--par"); par = int(a[i + 1]); del a[i:i + 2]
    manifest = json.loads((VERIF / "MANIFEST.json").read_text())
    pids = a or [c["property_id"] for c in manifest["checks"]]
    if SCRATCH.exists():
        shutil.rmtree(SCRATCH)
    (SCRATCH / "evidence").mkdir(parents=True)
    rc = SCRATCH / "rc"
    rc.write_text(f"[run]\nsource = {SRC}\nparallel = True\nconcurrency = thread,multiprocessing\npatch = _exit\nsigterm = True\n")

    def one(pid: str):
        # one rc file per check: processes started through multiprocessing read the data file name from it (not from the command line)
        rc1 = SCRATCH / f"rc.{pid}"
        rc1.write_text(rc.read_text() + f"data_file = {SCRATCH}/data.{pid}\n")
        env = dict(os.environ, VERIF_COVERAGE="1", VERIF_EVIDENCE_DIR=str(SCRATCH / "evidence"), COVERAGE_RCFILE=str(rc1))
        p = subprocess.run([PY, "-m", "coverage", "run", f"--rcfile={rc1}", "./check", pid, "--tier", tier, "--no-lean"],
                           cwd=VERIF, env=env, stdout=subprocess.PIPE, stderr=subprocess.STDOUT)
        last = [l for l in p.stdout.decode(errors="replace").splitlines() if l.startswith(("PASS", "FAIL", "HARNESS"))][-1:]
        print(pid, p.returncode, (last or ["?"])[0][:160], flush=True)
        return pid, p.returncode

    with ThreadPoolExecutor(max_workers=par) as ex:
        codes = dict(ex.map(one, pids))
    import coverage
    per: dict = {}
    files: dict = {}
    for pid in pids:
        parts = [str(f) for f in SCRATCH.glob(f"data.{pid}*")]
        if not parts:
            continue
        cov = coverage.Coverage(data_file=str(SCRATCH / f"comb.{pid}"), config_file=str(rc))
        cov.combine(parts, keep=True)
        cov.save()
        data = cov.get_data()
        for f in data.measured_files():
            rel = os.path.relpath(f, SRC)
            if rel.startswith(".."):
                continue
            per.setdefault(rel, {})[pid] = set(data.lines(f) or [])
    allcov = coverage.Coverage(data_file=str(SCRATCH / "all"), config_file=str(rc))
    allcov.combine([str(SCRATCH / f"comb.{pid}") for pid in pids if (SCRATCH / f"comb.{pid}").exists()], keep=True)
    allcov.save()
    out = {"tier": tier, "repo": str(REPO), "exit_codes": codes, "files": {}}
    for py in sorted(SRC.rglob("*.py")):
        rel = os.path.relpath(py, SRC)
        try:
            _, stmts, _, missing, _ = allcov.analysis2(str(py))
        except Exception:
            continue
        stmts, missing = set(stmts), set(missing)
        out["files"][rel] = {
            "statements": len(stmts), "executed_by_some_check": len(stmts - missing), "never_executed": sorted(missing),
            "outside_every_check": rel in OUTSIDE,
            "per_property": {pid: len(stmts & lines) for pid, lines in sorted(per.get(rel, {}).items()) if len(stmts & lines)},
        }
    (VERIF / "coverage_map.json").write_text(json.dumps(out, indent=1) + "\n")
    # table
    def ranges(ls):
        rs, start, prev = [], None, None
        for x in ls:
            if start is None:
                start = prev = x
            elif x == prev + 1:
                prev = x
            else:
                rs.append((start, prev)); start = prev = x
        if start is not None:
            rs.append((start, prev))
        return ", ".join(f"{a}-{b}" if a != b else f"{a}" for a, b in rs)
    rows = ["| file | statements | executed by some check | lines no check executes |", "|---|---|---|---|"]
    tot = ex_ = 0
    for rel, d in out["files"].items():
        if d["outside_every_check"]:
            continue
        tot += d["statements"]; ex_ += d["executed_by_some_check"]
        rows.append(f"| `{rel}` | {d['statements']} | {d['executed_by_some_check']} | {ranges(d['never_executed']) or '-'} |")
    rows.append(f"| total (files inside some check) | {tot} | {ex_} ({100 * ex_ // max(tot, 1)} %) | |")
    (VERIF / "design_notes" / "_coverage.md").write_text(
        "Measured by `tools/coverage_map.py` (coverage.py, line level; the differential / trace-acceptance runs of every claimed check, "
        f"tier {tier}, seed 0; HTTP/3, QUIC, UDP and statsd files are outside every check and left out).  A line in the last column is reached only by the "
        "translator (if at all), never by a run of the real code: a changed behaviour there is visible to a check only as an extracted fact.\n\n"
        + "\n".join(rows) + "\n")
    print(f"total {ex_}/{tot}")
    return 0


if __name__ == "__main__":
    sys.exit(main())
