#!/venv/bin/python
"""Seeded-change bookkeeping (development tool, not part of any registered check).

  tools/seed.py confirm <wt> <n> <seed-id>      confirm a sub-agent's change (out/patch<n>.diff, out/demo<n>.py, out/meta<n>.json in
                                                the scratch worktree <wt>): suite still 193 passed / 2 failed with the patch, the
                                                demonstration fails with it and passes without it; then file it as seeded/<seed-id>/
  tools/seed.py harmless <wt>|- <n> <id>               run EVERY claimed check against a behaviour-preserving refactor (filed under harmless/<id>/)
  tools/seed.py run <seed-id> [PID ...] [--tier quick]   run the checks (default: the property the seed breaks) against a scratch copy of /repo
                                                with the patch applied, from a private copy of /verif; record the outcome in
                                                seeded/<seed-id>/meta.json ("detection") and print it
"""
from __future__ import annotations

import json
import os
import re
import shutil
import subprocess
import sys
import time
from pathlib import Path

VERIF = Path(__file__).resolve().parents[1]
SEEDED = VERIF / "seeded"
PY = "/venv/bin/python"


def sh(cmd, cwd=None, env=None, timeout=3600):
    p = subprocess.run(cmd, cwd=cwd, env=env, stdout=subprocess.PIPE, stderr=subprocess.STDOUT, timeout=timeout, shell=isinstance(cmd, str))
    return p.returncode, p.stdout.decode(errors="replace")


def suite(wt: Path):
    env = dict(os.environ, PYTHONPATH=str(wt / "src"), PYTHONDONTWRITEBYTECODE="1")
    env.pop("HYPERCORN_VERIF", None)
    code, out = sh([PY, "-m", "pytest", "-q", "-p", "no:cacheprovider", "--timeout=900", "--continue-on-collection-errors"], cwd=wt, env=env)
    m = re.search(r"(\d+) failed, (\d+) passed", out)
    failed = sorted(re.findall(r"^FAILED (\S+)", out, re.M))
    return (int(m.group(2)), int(m.group(1)), failed) if m else (None, None, out[-400:])


def demo(wt: Path, path: Path):
    env = dict(os.environ, PYTHONPATH=str(wt / "src"), PYTHONDONTWRITEBYTECODE="1")
    if path.name.startswith("test_") or "pytest" in path.read_text()[:2000] and "def test_" in path.read_text():
        cmd = [PY, "-m", "pytest", "-q", "-p", "no:cacheprovider", "--timeout=300", str(path)]
    else:
        cmd = [PY, str(path)]
    code, out = sh(cmd, cwd=wt, env=env, timeout=900)
    return code, out[-600:]


def confirm(wt: Path, n: str, sid: str) -> int:
    out = wt / "out"
    patch = out / f"patch{n}.diff"
    demos = [p for p in (out / f"demo{n}.py", out / f"test_demo{n}.py") if p.exists()]
    meta = json.loads((out / f"meta{n}.json").read_text())
    assert patch.exists() and demos, "missing deliverables"
    d = demos[0]
    sh(["git", "checkout", "--", "src"], cwd=wt)
    c0, o0 = demo(wt, d)
    code, o = sh(["git", "apply", str(patch)], cwd=wt)
    assert code == 0, f"patch does not apply: {o}"
    try:
        s1 = suite(wt)
        if s1[0] != 193 and any("test_httpx" in f for f in (s1[2] if isinstance(s1[2], list) else [])):
            s1 = suite(wt)      # the e2e test binds a fixed port; concurrent suite runs on this machine collide
        c1, o1 = demo(wt, d)
    finally:
        sh(["git", "checkout", "--", "src"], cwd=wt)
    ok = c0 == 0 and c1 != 0 and s1[0] == 193 and s1[1] == 2 and all("test_http2_websocket" in f for f in s1[2])
    print(json.dumps({"seed": sid, "demo_clean_exit": c0, "demo_patched_exit": c1, "suite_patched": s1, "confirmed": ok}, indent=1))
    if not ok:
        print("clean demo tail:", o0[-300:], "\npatched demo tail:", o1[-300:])
        return 1
    dst = SEEDED / sid
    dst.mkdir(parents=True, exist_ok=True)
    shutil.copy(patch, dst / "patch.diff")
    shutil.copy(d, dst / ("demo.py" if not d.name.startswith("test_") else "test_demo.py"))
    meta_out = {
        "seed": sid, "property": meta.get("property"), "clause": meta.get("clause"), "summary": meta.get("summary"),
        "needs": meta.get("needs"), "files": meta.get("files"),
        "origin": "independent sub-agent given only the property record and a scratch worktree",
        "confirmed": {"by": "tools/seed.py confirm (lead, scratch worktree)", "suite_with_patch": f"{s1[0]} passed, {s1[1]} failed (the two always-failing test_http2_websocket tests)",
                      "demo_with_patch_exit": c1, "demo_without_patch_exit": c0,
                      "commands": [f"git apply patch.diff; PYTHONPATH=<wt>/src {PY} -m pytest -q -p no:cacheprovider --timeout=900 --continue-on-collection-errors",
                                   f"PYTHONPATH=<wt>/src {PY} {d.name}  (with and without the patch)"]},
        "agent_ran": meta.get("ran"),
    }
    (dst / "meta.json").write_text(json.dumps(meta_out, indent=1) + "\n")
    return 0


def run(sid: str, pids, tier: str) -> int:
    dst = SEEDED / sid
    meta = json.loads((dst / "meta.json").read_text())
    pids = pids or [meta["property"]]
    scratch = Path("/tmp/seedrun") / f"{sid}-{os.getpid()}"
    if scratch.exists():
        shutil.rmtree(scratch)
    scratch.mkdir(parents=True)
    try:
        sh(["rsync", "-a", "--exclude", ".git", "--exclude", "replays", "--exclude", ".run", "--exclude", "seeded", "--exclude", "design_probes", f"{VERIF}/", f"{scratch}/verif/"])
        sh(["rsync", "-a", "--exclude", ".git", "/repo/", f"{scratch}/repo/"])
        code, o = sh(["git", "apply", str(dst / "patch.diff")], cwd=scratch / "repo")
        if code != 0:
            code, o = sh(f"patch -p1 < {dst / 'patch.diff'}", cwd=scratch / "repo")
        assert code == 0, f"patch does not apply to the current /repo: {o}"
        results = {}
        for pid in pids:
            if not (scratch / "verif" / "harness" / "gen" / f"{pid}.py").exists():
                results[pid] = {"exit": None, "note": "no check for this property yet"}
                continue
            env = dict(os.environ, VERIF_REPO=str(scratch / "repo"))
            t = time.time()
            code, out = sh(["./check", pid, "--tier", tier], cwd=scratch / "verif", env=env, timeout=5400)
            lines = [l for l in out.splitlines() if l.startswith(("VIOLATION", "PASS", "FAIL", "HARNESS-ERROR", "KNOWN-FINDING"))]
            viol = [l for l in lines if l.startswith("VIOLATION")]
            how = None
            ev = scratch / "verif" / "evidence" / f"{pid}.json"
            replay_info = []
            for v in viol[:3]:
                m = re.search(r"replay=(\S+)", v)
                if m and Path(m.group(1)).exists():
                    rp = json.loads(Path(m.group(1)).read_text())
                    replay_info.append({"kind": rp.get("kind"), "clause": rp.get("clause"), "signature": rp.get("signature"),
                                        "tie_broken": [{k: t_.get(k) for k in ("kind", "module", "theorem", "what")} for t_ in rp.get("tie_broken", [])][:4],
                                        "no_failing_input": "no-failing-input-found" in v})
            results[pid] = {"exit": code, "wall_s": round(time.time() - t, 1), "lines": [l[:300] for l in lines][:8], "replays": replay_info}
        detected = any(r.get("exit") == 1 for r in results.values())
        meta.setdefault("detection", {})
        meta["detection"].update({f"{pid}:{tier}": r for pid, r in results.items()})
        meta["detected"] = bool(meta.get("detected")) or detected
        (dst / "meta.json").write_text(json.dumps(meta, indent=1) + "\n")
        print(json.dumps({"seed": sid, "results": results, "detected": detected}, indent=1))
        return 0
    finally:
        shutil.rmtree(scratch, ignore_errors=True)


def harmless(wt: Path, n: str, hid: str) -> int:
    """file a behaviour-preserving refactor (out/patch<n>.diff + out/note<n>.json) under harmless/<hid>/ and run EVERY claimed
    check against it: all of them should stay quiet (exit 0)"""
    from concurrent.futures import ThreadPoolExecutor
    dst = VERIF / "harmless" / hid
    dst.mkdir(parents=True, exist_ok=True)
    if str(wt) == "-":          # re-run a refactor that is already filed
        note = json.loads((dst / "meta.json").read_text())["note"]
    else:
        shutil.copy(wt / "out" / f"patch{n}.diff", dst / "patch.diff")
        note = json.loads((wt / "out" / f"note{n}.json").read_text())
    manifest = json.loads((VERIF / "MANIFEST.json").read_text())
    pids = [c["property_id"] for c in manifest["checks"]]
    scratch = Path("/tmp/seedrun") / f"{hid}-{os.getpid()}"
    if scratch.exists():
        shutil.rmtree(scratch)
    scratch.mkdir(parents=True)
    try:
        sh(["rsync", "-a", "--exclude", ".git", "--exclude", "replays", "--exclude", ".run", "--exclude", "seeded", "--exclude", "harmless", "--exclude", "design_probes", f"{VERIF}/", f"{scratch}/verif/"])
        sh(["rsync", "-a", "--exclude", ".git", "/repo/", f"{scratch}/repo/"])
        code, o = sh(["git", "apply", str(dst / "patch.diff")], cwd=scratch / "repo")
        assert code == 0, f"patch does not apply to the current /repo: {o}"
        env = dict(os.environ, VERIF_REPO=str(scratch / "repo"))

        def one(pid):
            t = time.time()
            code, out = sh(["./check", pid, "--tier", "quick"], cwd=scratch / "verif", env=env, timeout=5400)
            lines = [l[:400] for l in out.splitlines() if l.startswith(("VIOLATION", "FAIL", "HARNESS-ERROR"))]
            why = []
            for l in lines:
                m = re.search(r"replay=(\S+)", l)
                if m and Path(m.group(1)).exists():
                    rp = json.loads(Path(m.group(1)).read_text())
                    why.append({"kind": rp.get("kind"), "clause": rp.get("clause"),
                                "tie_broken": [str(t_.get("what") or t_.get("theorem") or t_.get("module"))[:300] for t_ in rp.get("tie_broken", [])][:4],
                                "disagreements": [d.get("what") for d in rp.get("disagreements", [])][:3]})
            return pid, {"exit": code, "wall_s": round(time.time() - t, 1), "lines": lines[:4], "why": why[:3]}
        with ThreadPoolExecutor(max_workers=5) as ex:
            results = dict(ex.map(one, pids))
        alarms = {k: v for k, v in results.items() if v["exit"] != 0}
        (dst / "meta.json").write_text(json.dumps({"id": hid, "note": note, "origin": "independent sub-agent asked for behaviour-preserving refactors (suite 193/2 unchanged)",
                                                   "alarms": alarms, "quiet": sorted(k for k, v in results.items() if v["exit"] == 0)}, indent=1) + "\n")
        print(json.dumps({"id": hid, "alarms": alarms}, indent=1))
        return 0
    finally:
        shutil.rmtree(scratch, ignore_errors=True)


if __name__ == "__main__":
    a = sys.argv[1:]
    if a[0] == "confirm":
        sys.exit(confirm(Path(a[1]), a[2], a[3]))
    if a[0] == "run":
        tier = "quick"
        if "--tier" in a:
            i = a.index("--tier")
            tier = a[i + 1]
            del a[i:i + 2]
        sys.exit(run(a[1], a[2:], tier))
    if a[0] == "harmless":
        sys.exit(harmless(Path(a[1]), a[2], a[3]))
    print(__doc__)
